"""C03 Batch verification (structural clauses).

R-C03-1  every chunk is verified: the core-verifier call sits in a loop that runs until the chunk iterator is exhausted, and the
         three inputs are chunked by the same constant (or not chunked at all)
R-C03-2  exactly one result per member, in order: every path through one iteration of the per-proof loop pushes exactly one
         result; the loop walks proofs/statements in order; chunk results are appended in chunk order and returned
R-C03-3  refusal guards: empty / mismatched inputs; every member agrees with member 0 on generators, bit length, extension
         degree (statement and len(d1)); vector generators are compared (prefix) with the selected largest member -- or, when every
         BulletproofGens is built by its constructor and its vectors are private and never written elsewhere, agree by construction
         (the comparison is then redundant; what is still reported is a condition on the vectors that is *not* a prefix comparison,
         because that can refuse a batch whose members differ only in capacity)
R-C03-5  (= R-C04-3/designated) data of the first member absorbed into every member's transcript is compared across members by the
         consistency function: a member is verified in a batch against the same data as alone
R-C03-6  per-member independence: the per-proof loop carries no state from one member to the next except the gate's accumulators, the
         result vector and the weight RNG
R-C03-7  the member that sizes the batch is the largest one, whatever the order: the (length, index) selection of the consistency
         function starts at member 0 and is replaced -- length and position of one and the same member together -- exactly when a
         member's length exceeds the length carried so far (loop form and fold-accumulator form)
R-C03-4  batch weighting (= R-C08-1..3): the batch verdict is the conjunction of the members' verdicts only if every member's equation
         enters the single gate under its own fresh non-zero weight
"""
from bpsa.facts import callee_decl, callee_name
from bpsa.normal import canon
from bpsa.terms import walk, short, TERM_IDX, mk_elem
from .common import guard_table, unconditional
from . import msm

LEVEL_TEXT = ('Static analysis (loop structure, must-pass-through and guard normal forms over MIR). Decides that verify_batch hands every '
              'chunk of the batch to the core verifier before it can return Ok, that the core verifier records exactly one result per member in input '
              'order, and that the refusal guards for empty, mismatched and inconsistent batches dominate verification. Does not decide the '
              'probabilistic "accepts iff every member verifies" (see C08 for the weighting clauses).'
              " Also runs C08's weighting rules, the rule that first-member data absorbed for every member is compared across members, and the rule "
              "that the member selected to size the batch is the largest one in every ordering (the selection is replaced exactly when a member "
              "exceeds the length carried so far).")
ASSUMPTIONS = ['slice::chunks / chunks_mut with the same size split equally long slices at the same positions',
               'Iterator::zip yields pairs positionally']
RULE_TEXT = ('one obligation per structural fact (loop exhaustion, chunk constants, per-path push count, order, each refusal guard); non-trivial = decided '
             'from loop / dominator structure or a guard term')


def _run(ctx):
    rep = ctx.rep
    vb = ctx.fn('RangeProof::<P>::verify_batch', 'R-C03-1')
    core = msm.verifier_core(ctx, 'R-C03-1')
    if vb is None or core is None:
        return
    rep.saw_body(core)
    r1(ctx, vb, core)
    r2(ctx, vb, core)
    r3(ctx, vb, core)


# ------------------------------------------------------------------------------------------------------------
def r1(ctx, vb, core):
    rep = ctx.rep
    cfg = ctx.cfgof(vb)
    sites = [(bb, t) for bb, t in ctx.calls(vb) if callee_name(t) == core.path]
    if len(sites) != 1:
        rep.anchor_missing('R-C03-1', 'R-C03-1/verify_batch/core-call', 'expected one call of the core verifier in verify_batch, found %d' % len(sites))
        return
    bb, t = sites[0]
    args = ctx.args(vb, bb)[:3]
    where = ctx.where(vb, bb)
    chunked = []
    for a in args:
        # adapters on the spine of the argument (element of .. of the input), not those inside the mutation history of the input
        ads = []
        x = a
        while True:
            if x.tag == 'mut':
                x = x[1]
            elif x.tag in ('elem',):
                x = x[1]
            elif x.tag == 'via':
                ads.append(x)
                x = x[2]
            elif x.tag == 'adapt':
                ads.append(x)
                x = x[2]
            elif x.tag in ('field', 'elemat'):
                ads += [y for y in walk(x) if y.tag == 'adapt']
                break
            else:
                break
        chunked.append(ads)
    names = ['transcripts', 'statements', 'proofs']
    if not any(chunked):
        whole = all(a.tag in ('param', 'mut') for a in args)
        rep.check(whole, 'R-C03-1', 'R-C03-1/verify_batch/chunks-exhausted', 'the whole input slices are handed to the core verifier (no chunking)',
                  'inputs are neither chunked nor passed whole: %s' % [short(a, 60) for a in args], where)
        return
    # same adapter family and same constant on all three
    consts = []
    okshape = True
    for nm, a, ads in zip(names, args, chunked):
        if len(ads) != 1 or ads[0][1] not in ('chunks', 'chunks_mut', 'chunks_exact', 'chunks_exact_mut') or ads[0][2].tag not in ('param', 'mut'):
            okshape = False
            rep.violation('R-C03-1', 'R-C03-1/verify_batch/chunked/%s' % nm, '%s handed to the core verifier are %s: not a chunk of the whole input slice' % (nm, short(a, 120)), where)
            continue
        consts.append(canon(ads[0][3]))
        params = {x[2] for x in walk(a) if x.tag == 'param'}
    if okshape:
        rep.check(len(set(consts)) == 1, 'R-C03-1', 'R-C03-1/verify_batch/same-chunk-size', 'transcripts, statements and proofs are chunked by the same size %s' % consts[0],
                  'inputs are chunked by different sizes: %s' % dict(zip(names, consts)), where)
        # distinct parameters, in the callee's order
        pidx = []
        for a in args:
            ps = [x[2] for x in walk(a) if x.tag == 'param']
            pidx.append(ps[0] if ps else None)
        rep.check(pidx == [1, 2, 3], 'R-C03-1', 'R-C03-1/verify_batch/chunk-args', 'chunks of (transcripts, statements, proofs) are passed in that order',
                  'core verifier receives chunks of parameters %s' % pidx, where)
    # loop exhaustion
    lps = ctx.enclosing_loops(vb, bb)
    key = 'R-C03-1/verify_batch/chunks-exhausted'
    if not lps:
        rep.violation('R-C03-1', key, 'the chunked inputs are consumed outside any loop: only the first chunk (at most %s members) is ever verified; later members are ignored' % (consts[0] if consts else '?'), where)
        return
    lp = lps[-1]
    iter_ok = lp.driver_bb is not None and lp.iter_term is not None
    comps = []
    if iter_ok:
        el = mk_elem(ctx.eng, lp.iter_term)
        comps = [x for x in walk(el) if x.tag == 'elem']
    fed = all(any(strip_mut(a) is c for c in comps) for a in args) if iter_ok else False
    if iter_ok and not fed and getattr(lp, 'window', None) is not None:
        # a cursor loop: every argument is the window of the one cursor over its own (equally long) input
        C_ = lp.window[2]
        fed = all(strip_mut(a).tag == 'elem' and strip_mut(strip_mut(a)[1]).tag == 'adapt' and strip_mut(strip_mut(a)[1])[1] == 'chunks'
                  and strip_mut(strip_mut(a)[1])[3] is C_ for a in args)
    oks = [s for s in ctx.ok_sites(vb) if not ctx.rejecting(vb, s)]
    dom = all(cfg.dominates(lp.header, s) and s not in lp.blocks for s in oks)
    every = ctx.every_iteration(vb, lp, bb)
    noadapt = iter_ok and not [x for x in walk(lp.iter_term) if x.tag == 'adapt' and x[1] not in ('chunks', 'chunks_mut', 'chunks_exact', 'chunks_exact_mut')]
    good = iter_ok and fed and lp.driver_only_exit and dom and every and noadapt
    rep.check(good, 'R-C03-1', key,
              'the core verifier runs once per chunk in a loop over %s whose only accepted exit is iterator exhaustion, and the loop precedes every Ok return' % short(lp.iter_term, 140),
              'chunk loop defective: iterator-driven=%s, arguments are the loop element=%s, only exit is exhaustion=%s, loop dominates Ok=%s, call on every iteration=%s, no skipping adapter=%s' % (
                  iter_ok, fed, lp.driver_only_exit, dom, every, noadapt), where)


def strip_mut(t):
    while t.tag == 'mut':
        t = t[1]
    return t


# ------------------------------------------------------------------------------------------------------------
def result_local(ctx, body):
    """the local moved into the Ok(..) of the function's success return"""
    ix = ctx.eng.bx(body)
    outs = set()
    for b in body.blocks:
        if b['cleanup']:
            continue
        for s in b['stmts']:
            if s['k'] == 'assign' and s['place']['l'] == 0 and not s['place']['p'] and s['rv']['k'] == 'aggregate' and s['rv']['kind'].get('variant') == 'Ok':
                o = s['rv']['ops'][0]
                if o['k'] in ('move', 'copy') and not o['place']['p']:
                    l = o['place']['l']
                    for _ in range(4):
                        wd = ix.whole_defs(l)
                        if len(wd) == 1 and wd[0][2] == 'assign' and wd[0][3]['rv']['k'] == 'use' and wd[0][3]['rv']['op']['k'] in ('move', 'copy') and not wd[0][3]['rv']['op']['place']['p']:
                            l = wd[0][3]['rv']['op']['place']['l']
                        else:
                            break
                    outs.add(l)
    return outs


def push_counts(ctx, body, lp, push_blocks):
    """(min, max) number of push blocks on any accepted path through one iteration of loop lp"""
    cfg = ctx.cfgof(body)
    sw = getattr(lp, 'driver_switch', None)
    starts = [s for s in cfg.succ.get(sw, []) if s in lp.blocks and body.block[s]['term']['k'] != 'unreachable'] if sw is not None else []
    if not starts:
        return None
    inner_headers = {h for h in cfg.loops if h != lp.header and h in lp.blocks}
    memo = {}

    def go(b, stack):
        # returns (min, max) pushes from b to the end of the iteration; None if no accepted continuation
        if b == lp.header:
            return (0, 0)
        if b not in lp.blocks:
            return None                      # leaves the loop (error return)
        if ctx.rejecting(body, b):
            return None
        if b in memo:
            return memo[b]
        if b in stack:
            return None                      # inner back edge: ignore
        here = 1 if b in push_blocks else 0
        res = None
        for s in cfg.succ.get(b, []):
            r = go(s, stack | {b})
            if r is None:
                continue
            res = r if res is None else (min(res[0], r[0]), max(res[1], r[1]))
        if res is not None:
            res = (res[0] + here, res[1] + here)
        memo[b] = res
        return res
    tot = None
    for s in starts:
        r = go(s, frozenset())
        if r is not None:
            tot = r if tot is None else (min(tot[0], r[0]), max(tot[1], r[1]))
    return tot


def r2(ctx, vb, core, RULE='R-C03-2'):
    rep = ctx.rep
    cfg = ctx.cfgof(core)
    rls = result_local(ctx, core)
    if len(rls) != 1:
        rep.anchor_missing(RULE, RULE + '/core/result-vector', 'cannot identify the single result vector of %s (%s)' % (core.path, rls))
        return
    rl = next(iter(rls))
    evs = ctx.eng.bx(core).events_on(('L', rl))
    pushes = [e for e in evs if e['decl'] == 'std::vec::Vec::<T, A>::push']
    others = [e for e in evs if e['decl'] != 'std::vec::Vec::<T, A>::push']
    # a push of `match .. { Some(..) => Some(mask), _ => None }` is one site with two alternative values
    nalt = sum(len(ctx.alternatives(core, e['bb'], TERM_IDX, e['args'][0])) for e in pushes)
    rep.floor(RULE, 'result push sites', nalt, 2)
    for e in others:
        rep.violation(RULE, RULE + '/core/result-vector/%s' % e['decl'].split('::')[-1], 'the result vector is modified by %s (only one push per member is expected)' % e['decl'], ctx.where(core, e['bb']))
    if not pushes:
        return
    loops = {tuple(cfg.loop_of.get(e['bb'], [])) for e in pushes}
    if len(loops) != 1 or not next(iter(loops)):
        rep.violation(RULE, RULE + '/core/one-loop', 'result pushes are spread over different loops or outside any loop: %s' % sorted(loops), ctx.where(core, pushes[0]['bb']))
        return
    h = next(iter(loops))[-1]
    lp = ctx.loops(core)[h]
    cnt = push_counts(ctx, core, lp, {e['bb'] for e in pushes})
    rep.check(cnt == (1, 1), RULE, RULE + '/core/one-push-per-member',
              'every accepted path through one iteration of the per-proof loop pushes exactly one result (%d push sites on disjoint paths)' % len(pushes),
              'paths through one iteration of the per-proof loop push between %s results' % (cnt,), ctx.where(core, lp.header))
    # order: the loop walks the proof / statement slices whole and in order
    it = lp.iter_term
    ads = ctx.adapters(it) if it is not None else ['?']
    params = {x[2] for x in walk(it) if x.tag == 'param'} if it is not None else set()
    rep.check(it is not None and not ads and {2, 3} <= params and lp.driver_only_exit, RULE, RULE + '/core/in-order',
              'the per-proof loop walks zip(proofs, statements, ..) whole and in order: %s' % short(it, 120),
              'the per-proof loop iterates %s (adapters %s, exhaustive=%s)' % (short(it, 160) if it is not None else None, ads, lp.driver_only_exit), ctx.where(core, lp.header))
    # the result vector starts empty
    wd = ctx.eng.bx(core).whole_defs(rl)
    rep.check(len(wd) == 1 and wd[0][2] == 'call' and callee_decl(wd[0][3]).split('::')[-1] in ('with_capacity', 'new'), RULE, RULE + '/core/starts-empty',
              'the result vector is created empty once', 'the result vector is not created empty by a single constructor', ctx.where(core))
    # verify_batch appends chunk results in chunk order and returns them
    vls = result_local(ctx, vb)
    if len(vls) != 1:
        rep.anchor_missing(RULE, RULE + '/verify_batch/result-vector', 'cannot identify the result vector of verify_batch')
        return
    vl = next(iter(vls))
    vevs = ctx.eng.bx(vb).events_on(('L', vl))
    good = len(vevs) == 1 and vevs[0]['decl'] in ('std::vec::Vec::<T, A>::append', 'std::iter::Extend::extend', 'std::vec::Vec::<T, A>::extend_from_slice')
    src_ok = False
    if good:
        a = ctx.eng.operand(vb, vevs[0]['bb'], TERM_IDX, vevs[0]['args'][0])
        src_ok = any(x.tag == 'call' and x[1] == core.path for x in walk(a))
    rep.check(good and src_ok, RULE, RULE + '/verify_batch/append-in-order', 'verify_batch appends each chunk\'s results (in chunk order) to the vector it returns',
              'verify_batch does not simply append the core verifier\'s results: %s' % [e['decl'] for e in vevs], ctx.where(vb))


# ------------------------------------------------------------------------------------------------------------
def r3(ctx, vb, core):
    rep = ctx.rep
    rows = guard_table(ctx, vb)
    atoms = [(r['ctx'], a, r) for r in rows for a in r['atoms'] if r['eff'] != 'bypass']
    def has(atom):
        return [r for c, a, r in atoms if a == atom and not c]
    for nm, atom in (('non-empty statements', ('cmp', 'Le', '1', 'len(p2)')), ('non-empty proofs', ('cmp', 'Le', '1', 'len(p3)')),
                     ('non-empty transcripts', ('cmp', 'Le', '1', 'len(p1)')), ('|statements| == |proofs|', ('cmp', 'Eq', 'len(p2)', 'len(p3)')),
                     ('|transcripts| == |statements|', ('cmp', 'Eq', 'len(p1)', 'len(p2)'))):
        hit = has(atom)
        alt = has(('cmp', 'Eq', 'len(p1)', 'len(p3)')) if atom == ('cmp', 'Eq', 'len(p1)', 'len(p2)') else []
        rep.check(bool(hit or alt), 'R-C03-3', 'R-C03-3/verify_batch/%s' % nm, 'verify_batch refuses unless %s' % nm,
                  'verify_batch has no dominating guard enforcing %s' % nm, ctx.where(vb, hit[0]['guard'].bb) if hit else ctx.where(vb))
    cons = msm.consistency_fn(ctx, 'R-C03-3')
    if cons is None:
        return
    rep.saw_body(cons)
    # the consistency function is called before any other work of the core verifier and its error is propagated
    cfgc = ctx.cfgof(core)
    csite = [bb for bb, t in ctx.calls(core) if callee_name(t) == cons.path]
    msite = msm.msm_sites(ctx, core)
    ok_dom = len(csite) == 1 and msite and cfgc.dominates(csite[0], msite[0][0])
    propagated = any(g.cond.tag == 'discr' and any(x.tag == 'call' and x[1] == cons.path for x in walk(g.cond)) for g in ctx.guards(core))
    rep.check(bool(ok_dom and propagated), 'R-C03-3', 'R-C03-3/core/consistency-first', 'the consistency check dominates verification and its error is propagated',
              'the consistency check does not dominate the verdict or its error is dropped', ctx.where(core))
    rows = guard_table(ctx, cons)
    flat = [(r['ctx'], a, r) for r in rows for a in r['atoms']]

    def member_ctx(c):
        """is the context a quantification over every batch member other than (at most) the reference member 0?"""
        fa = [x for x in c if x[0] == 'forall']
        if not unconditional(c):
            return False
        for f in fa:
            s = f[1]
            if 'p1' in s and 'rev(' not in s and 'take(' not in s and 'step_by' not in s and 'filter' not in s:
                if 'skip(' in s:
                    import re
                    m = re.search(r'skip\((.*),(\d+)\)', s)
                    if not m or int(m.group(2)) > 1:
                        continue
                return True
        return False

    def find_eq(field, elem_side, ref_side):
        for c, a, r in flat:
            if a[0] == 'cmp' and a[1] == 'Eq' and r['eff'] != 'bypass':
                for x, y in ((a[2], a[3]), (a[3], a[2])):
                    if elem_side in x and field in x and ref_side in y and field in y and member_ctx(c):
                        fa = [z[1] for z in c if z[0] == 'forall' and 'p1' in z[1]]
                        if ('<skip>' in x) == any('skip(' in f for f in fa):
                            return r
        return None
    for nm, field in (('blinding generators', '.g_base_vec'), ('value generator', '.h_base'), ('bit length', '.gens_capacity'), ('extension degree', '.extension_degree')):
        r = find_eq(field, 'each(p1)', "p1['first']")
        rep.check(r is not None, 'R-C03-3', 'R-C03-3/consistency/%s' % nm, 'every member\'s %s is compared with member 0\'s' % nm,
                  'no guard compares every member\'s %s with member 0\'s' % nm, ctx.where(cons, r['guard'].bb) if r else ctx.where(cons))
    # len(d1) of every proof (first and others) against the extension degree
    d_first = [r for c, a, r in flat if a[0] == 'cmp' and a[1] == 'Eq' and any("len(p2['first'].d1)" in x for x in a[2:4]) and any('.extension_degree' in x for x in a[2:4]) and not [y for y in c if y[0] == 'forall']]
    def aligned(c, side):
        """the element on `side` is skipped exactly as the quantified iterator is (statement i is paired with proof i)"""
        fa = [x[1] for x in c if x[0] == 'forall' and 'p1' in x[1]]
        ctx_skip = any('skip(' in f for f in fa)
        whole_skip = any(f.startswith('skip(') for f in fa)
        return ('<skip>' in side) == ctx_skip and (whole_skip or not ctx_skip)
    d_rest = [r for c, a, r in flat if a[0] == 'cmp' and a[1] == 'Eq' and any('len(each(p2).d1' in x for x in a[2:4]) and any('.extension_degree' in x for x in a[2:4]) and member_ctx(c)
              and all(aligned(c, x) for x in a[2:4] if 'each(p2)' in x)]
    rep.check(bool(d_first), 'R-C03-3', 'R-C03-3/consistency/d1-first', 'len(d1) of the first proof is compared with the extension degree',
              'len(d1) of the first proof is not compared with the extension degree', ctx.where(cons))
    rep.check(bool(d_rest), 'R-C03-3', 'R-C03-3/consistency/d1-rest', 'len(d1) of every other proof is compared with the extension degree',
              'len(d1) of the remaining proofs is not compared with the extension degree', ctx.where(cons))
    # prefix comparisons of the vector generators against the selected (largest) member
    prefix_guards(ctx, 'R-C03-3', cons, flat)


def vector_generators_fixed(ctx):
    """(True, why) when two parameter objects can only hold the same point at the same (party, index) position: the vectors of
    BulletproofGens are not public, the struct is built only by its constructor (whose derivation R-C11-1 decides) and by Clone, and
    nothing else writes the vectors.  Then comparing them across batch members is redundant, and its absence refuses nothing less."""
    facts = ctx.facts
    adt = next((a for pth, a in facts.adts.items() if pth.endswith('::BulletproofGens')), None)
    if adt is None:
        return False, 'BulletproofGens not found'
    fields = {f['name']: f for f in adt['variants'][0]['fields']}
    vecs = [n for n, f in fields.items() if f['ty'].startswith('std::vec::Vec<std::vec::Vec<')]
    if len(vecs) < 2 or any(fields[n].get('vis') == 'Public' for n in vecs):
        return False, 'the generator vectors are public fields'
    for b in facts.fns():
        builder = b.path.endswith('BulletproofGens::<P>::new') or (b.impl_trait == 'std::clone::Clone' and 'BulletproofGens' in (b.impl_self or ''))
        for blk in b.blocks:
            for st in blk['stmts']:
                if st['k'] != 'assign':
                    continue
                rv = st['rv']
                if rv['k'] == 'aggregate' and rv['kind'].get('path', '').endswith('::BulletproofGens') and not builder:
                    return False, 'BulletproofGens is also built in %s' % b.path
                names = [e.get('name') for e in st['place']['p'] if e['k'] == 'field']
                if any(n in vecs for n in names) and not builder:
                    return False, 'a generator vector is written in %s' % b.path
                if rv['k'] == 'ref' and rv.get('mut') and any(e.get('name') in vecs for e in rv['place']['p'] if e['k'] == 'field') and not builder:
                    return False, 'a generator vector is borrowed mutably in %s' % b.path
    return True, 'every BulletproofGens is built by its constructor or cloned, and its vectors are private and never written elsewhere'


def prefix_guards(ctx, rule, cons, flat=None):
    rep = ctx.rep
    if flat is None:
        rows = guard_table(ctx, cons)
        flat = [(r['ctx'], a, r) for r in rows for a in r['atoms']]
    fixed, fixed_why = vector_generators_fixed(ctx)
    # what the closure of an `any(..)` over the zipped vectors tests: the accept form of `any(|(a, b)| a != b)` is "every pair is equal"
    deep_rows = guard_table(ctx, cons, deep=True)
    wrong_pred = set()
    for i_, r_ in enumerate(deep_rows):
        for a_ in r_['atoms']:
            if a_[0] == 'pred' and a_[1] == 'any' and a_[3] is False:
                kids = [k_ for k_ in deep_rows if k_['parent'] == i_]
                if kids and not all(x[0] == 'cmp' and x[1] == 'Eq' for k_ in kids for x in k_['atoms']):
                    wrong_pred.add(str(a_[2][0]))
    for nm, fld in (('G vector', '.g_vec'), ('H vector', '.h_vec')):
        hit = None
        why = 'no `any(a != b)` guard over the zipped generator iterators'
        harmless, others = [], []
        for c, a, r in flat:
            if r['eff'] != 'bypass' and fld in repr(a) and a[0] == 'pred' and a[1] == 'any' and str(a[2][0]) in wrong_pred:
                others.append((a, r))            # `any` with another predicate than inequality: refuses members that agree
                continue
            if r['eff'] != 'bypass' and fld in repr(a):
                # a prefix comparison (zip + any(a != b), or its loop form) with whichever member never refuses a consistent batch;
                # any other condition on the vectors may
                pre = (a[0] == 'pred' and a[1] == 'any' and a[3] is False and str(a[2][0]).startswith('zip(') and str(a[2][0]).count(fld) >= 2) or \
                      (a[0] == 'cmp' and a[1] == 'Eq' and a[2].startswith('each(') and a[3].startswith('each(') and any(x[0] == 'forall' and x[1].startswith('zip(') for x in c))
                (harmless if pre else others).append((a, r))
            s = None
            if a[0] == 'pred' and a[1] == 'any' and a[3] is False and r['eff'] != 'bypass':
                s = a[2][0]
            elif a[0] == 'cmp' and a[1] == 'Eq' and r['eff'] != 'bypass' and a[2].startswith('each(') and a[3].startswith('each('):
                # the same comparison written as a loop over the zipped iterators with an early `return Err` on the first difference
                zs = [x[1] for x in c if x[0] == 'forall' and x[1].startswith('zip(') and fld in x[1]]
                if zs and fld in a[2] and fld in a[3]:
                    s = zs[0]
                    c = tuple(x for x in c if not (x[0] == 'forall' and x[1] == zs[0]))
            if s is not None:
                if 'each(p1)' in s and fld in s and s.count(fld) >= 2 and s.startswith('zip('):
                    foralls = [x for x in c if x[0] == 'forall']
                    # the only member exempt from the comparison is the selected one itself (index test)
                    only_self = unconditional(c, lambda x: x[0] == 'cmp' and x[1] == 'Ne' and any(y.startswith('idx(') for y in x[2:4]))
                    whole = only_self and any('p1' in x[1] and 'skip(' not in x[1] and 'take(' not in x[1] for x in foralls)
                    other = 'idx(' in s or "p1[" in s
                    # the member compared with is the selected one: the two sources of the zipped iterators are the walking member and
                    # `statements[X]` with X the index the exemption test names -- not member 0
                    import re as _re
                    srcs = _re.findall(r'array:(.*?)\.generators\.bp_gens' + _re.escape(fld), s)
                    sel = [x for x in srcs if not x.startswith('each(')]
                    exempt = [y for x in c if x[0] == 'cmp' and x[1] == 'Ne' for y in x[2:4] if not y.startswith('idx(p1)')]
                    first = bool(sel) and all(x in ("p1['first']", 'p1[0]') for x in sel)
                    if first and not any(e_ in ('0', "'first'") for e_ in exempt):
                        why = 'every member is compared with member 0 (%s), not with the selected largest member' % sel[0]
                        continue
                    if sel and exempt and not any(x == 'p1[%s]' % e_ for x in sel for e_ in exempt) and all(x.startswith('p1[') for x in sel):
                        why = 'the member compared with (%s) is not the one exempted from the comparison (%s)' % (sel[0], exempt[0])
                        continue
                    if whole and other:
                        hit = r
                    else:
                        why = 'the comparison does not range over every member against the selected member'
        if hit is None and fixed and not others:
            # nothing to refuse: the vectors agree by construction, and what is there (if anything) is a prefix comparison
            rep.ok(rule, '%s/consistency/prefix/%s' % (rule, nm.split()[0]),
                   'the %s generators of two members agree at every common position by construction (%s); %s' % (
                       nm, fixed_why, 'the comparison present is a prefix comparison and refuses nothing valid (%s)' % why if harmless else 'no comparison is needed'),
                   ctx.where(cons))
            continue
        if hit is None and others:
            why = 'a condition on the vectors that is not a prefix comparison (%s) may refuse a batch whose members differ only in capacity' % (others[0][0],)
        rep.check(hit is not None, rule, '%s/consistency/prefix/%s' % (rule, nm.split()[0]),
                  'the %s generators of every member are compared element-wise (prefix) with those of the selected largest member' % nm,
                  '%s generators: %s' % (nm, why), ctx.where(cons, hit['guard'].bb) if hit else ctx.where(cons))


def per_member_independence(ctx, RULE='R-C03-6'):
    """The per-proof loop of the verifier core carries nothing from one member to the next except the accumulators of the single gate,
    the result vector and the weight RNG.  Any other local that is created before the loop and written inside it makes the handling
    of member i depend on the members before it: the batch verdict then depends on the order and mixture of the batch (a scratch
    buffer that keeps entries of a larger, earlier proof), which is neither "iff every member verifies on its own" nor completeness
    for every ordering."""
    rep = ctx.rep
    from . import weights
    g = weights.gate(ctx, RULE)
    if g is None:
        return
    v, gbb, args = g
    cfg = ctx.cfgof(v)
    ix = ctx.eng.bx(v)
    ws, _ = weights.weight_atoms(ctx, v, [args[1], args[2]])
    if len(ws) != 1:
        rep.anchor_missing(RULE, RULE + '/weight', 'no unique weight atom: the per-proof loop is not identified')
        return
    wbb = ws[0][3][0][1]
    hs = cfg.loop_of.get(wbb, [])
    if not hs:
        rep.anchor_missing(RULE, RULE + '/loop', 'the weight is not drawn inside a loop')
        return
    L = hs[0]
    blocks = cfg.loops[L]
    # root-level updates of the gate's arguments inside the loop (updates of temporaries nested in their values do not count)
    in_gate = {e.id for e in weights.accumulation_events(ctx, v, list(args[1:]), L)}
    results = result_local(ctx, v)
    carried = {}
    for e in ix.events():
        if e['bb'] in blocks:
            for r in e['roots']:
                if r[0] == 'L' and r[1] > v.argc:
                    carried.setdefault(r[1], []).append(e)
    n = 0
    for l, evs in sorted(carried.items()):
        if not [d for d in ix.whole_defs(l) if d[0] not in blocks]:
            continue                    # created inside the loop: per-member
        ty = v.local_ty(l)
        if any(ty.startswith(p_) or ('<' + p_) in ty[:40] for p_ in ('std::iter::', 'std::slice::Iter', 'std::slice::Chunks', 'std::vec::IntoIter', 'itertools::', 'std::ops::Range', '&mut std::iter::', '&mut std::slice::')):
            continue                    # the iterators that drive the loop
        n += 1
        name = v.local_name(l) or ('_%d' % l)
        key = '%s/carried/%s' % (RULE, name if v.local_name(l) else ty[:40])
        reaches = any(ctx.eng.event_term(v, e).id in in_gate for e in evs)
        is_result = l in results
        is_rng = any(e['bb'] == wbb for e in evs)
        # a scratch buffer emptied before anything else touches it in the iteration carries capacity, not state
        resets = [e for e in evs if (e.get('decl') or '').split('::')[-1] == 'clear']
        is_reset = any(all(e2 is e or cfg.dominates(e['bb'], e2['bb']) for e2 in evs) for e in resets)
        rep.check(reaches or is_result or is_rng or is_reset, RULE, key,
                  '`%s` persists across members as %s' % (name, 'an accumulator of the gate' if reaches else 'the result vector' if is_result else 'the weight RNG' if is_rng else 'a buffer cleared at the start of every iteration'),
                  '`%s` (%s) is created before the per-proof loop and written inside it (%s), but is neither an accumulator of the gate, nor the result vector, nor the weight RNG: '
                  'what is computed for one member depends on the members before it' % (name, ty[:50], sorted({(e.get('decl') or e['kind']).split('::')[-1] for e in evs})[:5]),
                  ctx.where(v, evs[0]['bb']))
    rep.floor(RULE, 'locals carried across members (accumulators, results, weight RNG)', n, 6)
    # a second cursor: an iterator created before the loop and advanced by hand inside it stays in step with the members only if it is
    # advanced exactly once in every iteration -- advanced under a condition on the member (only for seeded ones), member i reads the
    # entry that belongs to an earlier member
    from bpsa.terms import ELEM_NEXT
    lp = ctx.loops(v).get(L)
    for bb in sorted(blocks):
        t = v.block[bb]['term']
        if t['k'] != 'call' or callee_decl(t) not in ELEM_NEXT or bb == getattr(lp, 'driver_bb', None):
            continue
        if cfg.loop_of.get(bb, [None])[-1] != L:
            continue                    # drives an inner loop
        a0 = t['args'][0] if t['args'] else None
        if a0 is None or a0.get('k') not in ('copy', 'move'):
            continue
        roots = ix.place_roots_value(a0['place'], frozenset())
        outside = [r for r in roots if r[0] == 'L' and r[1] > v.argc and [d for d in ix.whole_defs(r[1]) if d[0] not in blocks]]
        if not outside:
            continue
        every = ctx.every_iteration(v, lp, bb) if lp is not None else False
        name = v.local_name(outside[0][1]) or '_%d' % outside[0][1]
        rep.check(every, RULE, '%s/cursor/%s' % (RULE, name), 'the side cursor `%s` is advanced once in every iteration of the per-proof loop' % name,
                  'the iterator `%s`, created before the per-proof loop, is advanced inside it only on some paths: the entry a member reads depends on which members came before' % name,
                  ctx.where(v, bb))


def run(ctx):
    _run(ctx)
    from . import C08
    from .common import shared
    shared(ctx, C08.run, 'R-C08', 'R-C03-4')
    per_member_independence(ctx)
    # R-C03-5 (= R-C04-3/designated): what a member is verified against in a batch is what it is verified against alone
    from . import C04, wire
    vb_ = wire.entry(ctx, 'verifier', 'R-C03-5')
    if vb_ is not None:
        mine_, _, _ = wire.proof_events(ctx, vb_, 'R-C03-5')
        shared(ctx, lambda c: C04.designated_member_data(c, vb_, mine_, 'R-C04-3'), 'R-C04-3', 'R-C03-5')
    # R-C03-7: the member that sizes the whole batch (scalar vectors, generator table) is the largest one in every ordering: the
    # (length, index) selection starts at member 0 and is replaced exactly when a member exceeds the length carried so far
    msm.check_consistency_pair(ctx, 'R-C03-7')
