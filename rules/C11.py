"""C11 Generators are derived as specified (derivation dataflow and constants).

R-C11-1  BulletproofGens::new: per party i the label is [tag, LE32(i)] with i the loop index (checked u32 conversion), tag 'G' (0x47)
         for the chain extended into the G vector and 'H' (0x48) for the H vector; each chain is take(gens_capacity) of a chain built
         from that label
R-C11-2  GeneratorsChain::new absorbs b"GeneratorsChain" then the label into SHAKE256; next() maps 64 XOF bytes through
         from_uniform_bytes
R-C11-3  the precomputed table is built from interleave(flatten(G), flatten(H)) -- G first -- of the very vectors stored in the struct
R-C11-4  each blinding generator i is hash_from_bytes_sha3_512("RISTRETTO_MASKING_BASEPOINT_" ++ decimal(i)), i counting from
         ExtensionDegree::MINIMUM, stored at the zipped position; the compressed array is the element-wise compress() at the same index; the
         value generator and its compressed form are dalek's RISTRETTO_BASEPOINT_{POINT,COMPRESSED}; SHA3-512 / 64-byte uniform map
R-C11-5  COUNT == MAXIMUM - MINIMUM + 1 == number of enum variants; discriminants are 1..=6
"""
from bpsa.facts import callee_decl, callee_name
from bpsa.normal import canon
from bpsa.terms import walk, short, TERM_IDX, mk_elem, T

LEVEL_TEXT = ('Static analysis (value terms and evaluated constants over MIR). Decides that every generator family is derived by the documented, '
              'domain-separated hash-to-group construction with the right labels, indices and primitives, that the precomputed table represents the '
              'stored vectors in interleaved order, and that compressed forms are compress() of the same points. Does not decide pairwise '
              'distinctness of the resulting points (a hash-function property); determinism is C18.')
ASSUMPTIONS = ['SHAKE256 / SHA3-512 / from_uniform_bytes are the documented primitives', 'byteorder::LittleEndian::write_u32 writes the 4-byte little-endian encoding']
RULE_TEXT = 'one obligation per derivation fact; non-trivial = decided from a value term or constant'


def strip(t):
    while t.tag == 'mut':
        t = t[1]
    return t


def _proj_chain(ctx, b, ev):
    """(base local, [field indices]) of the place the mutated receiver of event `ev` was taken from: follows single definitions
    (`x = move (y.1).0`, `r = &mut *x`) and accumulates the field projections, outermost first"""
    ix = ctx.eng.bx(b)
    if 'node' not in ev or 'mutarg' not in ev:
        return None
    a = ev['node']['args'][ev['mutarg']]
    if a['k'] not in ('copy', 'move'):
        return None
    l = a['place']['l']
    proj = [x['i'] for x in a['place']['p'] if x['k'] == 'field']
    for _ in range(8):
        if l <= b.argc:
            break
        ds = ix.defs.get(l, [])
        if len(ds) != 1 or ds[0][2] != 'assign':
            break
        rv = ds[0][3]['rv']
        if rv['k'] == 'ref':
            p = rv['place']
        elif rv['k'] in ('use', 'copyforderef') and (rv.get('op') or {}).get('k') in ('copy', 'move'):
            p = rv['op']['place']
        elif rv['k'] == 'copyforderef' and 'place' in rv:
            p = rv['place']
        else:
            break
        proj = [x['i'] for x in p['p'] if x['k'] == 'field'] + proj
        l = p['l']
    return l, proj


def zipped_component(ctx, body, e):
    """the collection whose element is mutated by event e, when that element is a component of the element the loop (or the closure
    handed to `for_each` / `try_for_each`) receives: navigates the field projections of the element binding through the enumerate / zip
    structure of the iterator"""
    if e.get('kind') == 'closure':
        inner, cb = e.get('inner'), e.get('cbody')
        if inner is None or cb is None or inner.get('kind') == 'closure' or e.get('closure_local') is None:
            return None
        it = ctx.eng.applied_to(body, e['bb'], e['closure_local'])
        pc = _proj_chain(ctx, cb, inner)
        if it is None or pc is None or pc[0] != 2:
            return None
        cur, fields = strip(it), pc[1]
    else:
        pc = _proj_chain(ctx, body, e)
        if pc is None or not pc[1]:
            return None
        lps = ctx.enclosing_loops(body, e['bb'])
        if not lps or lps[-1].iter_term is None:
            return None
        cur, fields = strip(lps[-1].iter_term), pc[1][1:]          # the first projection is the payload of Some
    while cur.tag == 'adapt' and cur[1] in ('by_ref', 'into_iter'):
        cur = strip(cur[2])
    for i in fields:
        if cur.tag == 'enumerate':
            if i != 1:
                return None
            cur = strip(cur[1])
        elif cur.tag == 'zip':
            if i not in (0, 1):
                return None
            cur = strip(cur[1 + i])
        else:
            return None
    return cur


def skeleton_adapters(t):
    """adapters applied to the iterator structure itself (not those inside the fill events of the underlying vectors)"""
    out = []
    stack = [t]
    seen = set()
    while stack:
        x = stack.pop()
        if x.id in seen:
            continue
        seen.add(x.id)
        if x.tag in ('adapt', 'via'):
            out.append(x[1])
        if x.tag == 'mut':
            stack.append(x[1])
            continue
        if x.tag == 'closure':
            continue
        for a in x.args:
            if hasattr(a, 'tag'):
                stack.append(a)
    return out


def run(ctx):
    rep = ctx.rep
    new = ctx.fn('BulletproofGens::<P>::new', 'R-C11-1')
    if new is not None:
        r1(ctx, new)
        r3(ctx, new)
    r2(ctx)
    r4(ctx)
    r5(ctx)
    r6(ctx)


def r6(ctx):
    """R-C11-6: the iterator views hand out the same generators as the vectors and the table: every function that builds an
    `AggregatedGensIter` over `g_vec` / `h_vec` of a `BulletproofGens` starts it at (party 0, generator 0) and bounds it by the caller's
    (n, m) as given -- or clamped to the object's own (`gens_capacity`, `party_capacity`), each against its own side."""
    import re as _re
    rep = ctx.rep
    n = 0
    for b in ctx.facts.fns():
        if b.is_closure or 'BulletproofGens' not in (b.impl_self or ''):
            continue
        rt = ctx.eng.return_term(b)
        for a in [x for x in walk(rt) if x.tag == 'adt' and x[1].split('::')[-1] == 'AggregatedGensIter']:
            f = {k: canon(v) for k, v in a[2]}
            arr = f.get('array', '')
            if not _re.match(r'^p1\.(g_vec|h_vec)$', arr):
                continue
            n += 1
            which = arr.split('.')[-1]
            ok_n = bool(_re.match(r'^(p\d+|min\(p\d+,p1\.gens_capacity\)|min\(p1\.gens_capacity,p\d+\))$', f.get('n', '')))
            ok_m = bool(_re.match(r'^(p\d+|min\(p\d+,p1\.party_capacity\)|min\(p1\.party_capacity,p\d+\))$', f.get('m', '')))
            pn = _re.findall(r'p(\d+)', f.get('n', '').replace('p1.', ''))
            pm = _re.findall(r'p(\d+)', f.get('m', '').replace('p1.', ''))
            distinct = bool(pn) and bool(pm) and pn != pm
            start = f.get('party_idx') == '0' and f.get('gen_idx') == '0'
            rep.check(ok_n and ok_m and distinct and start, 'R-C11-6', 'R-C11-6/%s/%s' % (b.path.split('::')[-1], which),
                      'the iterator over %s starts at (0, 0) and is bounded by the caller\'s (n, m): n=%s, m=%s' % (which, f.get('n'), f.get('m')),
                      'the iterator over %s is built with n=%s, m=%s, party_idx=%s, gen_idx=%s: it does not walk the first m parties\' first n generators' % (
                          which, f.get('n'), f.get('m'), f.get('party_idx'), f.get('gen_idx')), ctx.where(b))
    rep.floor('R-C11-6', 'iterator views over the generator vectors', n, 2)


def label_cells(ctx, lab):
    """the bytes of a chain label, one cell per byte: ('lit', value) or (source canon, byte k of the source, source width, source term);
    None when a write is not understood.  Reads a literal array (bytes may be picked from `x.to_le_bytes()`), later stores of a constant
    at a constant index, and 4-byte little-endian writes / copies into a constant sub-range."""
    from . import bytelayout, ilen
    from bpsa.terms import ev_site
    base = strip(lab)
    try:
        cells = []
        if base.tag == 'array':
            for a in base.args:
                a0 = strip(a)
                if a0.tag == 'const' and isinstance(a0[1], int) and not isinstance(a0[1], bool):
                    cells.append(('lit', a0[1]))
                elif a0.tag == 'elemat' and strip(a0[2]).tag == 'const' and isinstance(strip(a0[2])[1], int):
                    src = strip(a0[1])
                    w = ilen.clen(src)
                    if not ilen.is_const(w):
                        return None
                    cells.append((canon(src), strip(a0[2])[1], w.get((), 0), src))
                else:
                    return None
        elif base.tag == 'repeatv' and str(base[2]).isdigit() and strip(base[1]).tag == 'const':
            cells = [('lit', strip(base[1])[1])] * int(base[2])
        else:
            return None
        for e in (lab[2] if lab.tag == 'mut' else ()):
            if e.tag != 'ev':
                continue
            bkey, bb = ev_site(e)
            body = ctx.facts.by_key.get(bkey)
            if body is None:
                return None
            if e[1] == 'store':
                # the index of the stored element, from the statement itself
                sidx = e[4][-1][0] if e[4] and len(e[4][-1]) == 1 else None
                st = body.block[bb]['stmts'][sidx] if sidx is not None and sidx < len(body.block[bb]['stmts']) else None
                off = None
                for p_ in (st['place']['p'] if st else []):
                    if p_['k'] == 'cindex' and not p_.get('from_end'):
                        off = p_['off']
                    elif p_['k'] == 'index':
                        it_ = strip(ctx.eng.local(body, bb, sidx, p_['l']))
                        if it_.tag == 'const' and isinstance(it_[1], int) and not isinstance(it_[1], bool):
                            off = it_[1]
                v = strip(e[3][0])
                if off is None or not (v.tag == 'const' and isinstance(v[1], int)) or not (0 <= off < len(cells)):
                    return None
                cells[off] = ('lit', v[1])
                continue
            nm = e[2].split('::')[-1]
            if nm in ('index_mut', 'get_mut', 'as_mut', 'deref_mut', 'as_mut_slice'):
                continue
            if nm in ('copy_from_slice', 'clone_from_slice', 'write_u32') and e[3]:
                recv = ctx.args(body, bb)[0]
                lay = bytelayout.Layout(lambda site: None)
                r0 = strip(recv)
                if r0.tag != 'elemat':
                    return None
                rb = ilen.range_bounds(r0[2], r0[1])
                if rb is None or not ilen.is_const(rb[0]) or not ilen.is_const(rb[1]):
                    return None
                lo, hi = rb[0].get((), 0), rb[1].get((), 0)
                val = strip(e[3][-1])
                if nm == 'write_u32':
                    if hi - lo != 4 or 'LittleEndian' not in ' '.join(str(x) for x in (callee_name(t2) for _, t2 in ctx.calls(body) if callee_decl(t2).endswith('write_u32'))):
                        return None
                    src_cells = [('LE32:' + canon(val), k, 4, val) for k in range(4)]
                else:
                    w = ilen.clen(val)
                    if not ilen.is_const(w) or w.get((), 0) != hi - lo:
                        return None
                    src_cells = [(canon(val), k, hi - lo, val) for k in range(hi - lo)]
                if not (0 <= lo <= hi <= len(cells)):
                    return None
                cells[lo:hi] = src_cells
                continue
            return None
        return cells
    except (ilen.NoLen, bytelayout.Unknown, KeyError, IndexError, TypeError):
        return None


def r1(ctx, new):
    rep = ctx.rep
    # chain constructions in the constructor and in the private helpers it delegates to (arguments in the constructor's vocabulary)
    chains = [(fr, bb, t, a) for (fr, bb, t, a) in ctx.flat_calls(new, lambda n, t: n.endswith('GeneratorsChain::<P>::new'))]
    rep.floor('R-C11-1', 'chain constructions', len(chains), 2)
    ix = ctx.eng.bx(new)
    rt = ctx.eng.return_term(new)
    agg = [x for x in walk(rt) if x.tag == 'adt' and x[1].endswith('BulletproofGens::BulletproofGens')]
    fields = dict(agg[0][2]) if agg else {}
    tags = {}
    frames = ctx.frames(new)
    for n, (fr, bb, t, cargs) in enumerate(chains):
        lab = cargs[0]
        where = ctx.where(fr.body, bb)
        base = strip(lab)
        evs = lab[2] if lab.tag == 'mut' else ()
        full_site = fr.site + ((fr.body.key, bb),)
        # which vector receives this chain?  the extend event whose (helper-expanded) value contains this call
        target = None
        for e in ix.events():
            if e['decl'] == 'std::iter::Extend::extend':
                et = ctx.eng.event_term(new, e)
                if any(x.tag == 'call' and x[3] and tuple(x[3]) == tuple(full_site) for x in walk(ctx.eng.expand(et, stop={callee_name(t)}))):
                    # which of the stored vectors does the extended element belong to?
                    if e.get('mutarg', 0) != 0:
                        continue
                    coll = zipped_component(ctx, new, e)
                    for nm in ('g_vec', 'h_vec'):
                        ft = fields.get(nm)
                        if ft is not None and coll is not None and strip(ft) is coll:
                            target = nm
                    takes = [x for x in walk(et) if x.tag == 'adapt']
                    tk = [x for x in takes if x[1] == 'take']
                    cap_ok = len(takes) == 1 and len(tk) == 1 and strip(tk[0][3]).tag == 'param' and strip(tk[0][3])[2] == 1 and strip(tk[0][2]).tag == 'call'
                    rep.check(cap_ok, 'R-C11-1', 'R-C11-1/chain%d/take-capacity' % n, 'chain %d is extended as take(gens_capacity) of the fresh chain (a prefix)' % n,
                              'chain %d is consumed through %s' % (n, [x[1] for x in takes]), ctx.where(new, e['bb']))
        # array shape: 5 bytes, first is the tag
        ok_shape = base.tag == 'array' and len(base.args) == 5 and all(x.tag == 'const' for x in base.args)
        tag = base.args[0][1] if ok_shape else None
        if base.tag == 'repeatv' and str(base[2]) == '5' and base[1].tag == 'const':
            # [c; 5]
            ok_shape, tag = True, base[1][1]
        stores = [e for e in evs if e.tag == 'ev' and e[1] == 'store']
        for e in stores:
            v = e[3][0]
            if v.tag == 'const':
                tag = v[1]
        tags[target or 'chain%d' % n] = tag
        # the index bytes: byteorder's LittleEndian::write_u32 or copy_from_slice(&idx.to_le_bytes())
        wr = [e for e in evs if e.tag == 'ev' and e[1] == 'call' and (e[2].endswith('write_u32') or e[2].split('::')[-1] in ('copy_from_slice', 'clone_from_slice'))]
        le = False
        idx_ok = False
        det = ''
        if wr:
            val = wr[0][3][-1]
            if wr[0][2].endswith('write_u32'):
                le = any('LittleEndian' in callee_name(t2) for f2 in frames for _, t2 in f2.calls() if callee_decl(t2).endswith('write_u32'))
            else:
                le = any(x.tag == 'call' and x[1].endswith('<impl u32>::to_le_bytes') for x in walk(val))
            conv = [x for x in walk(val) if x.tag == 'call' and x[1].endswith('try_from')]
            idxs = [x for x in walk(val) if x.tag == 'index']
            idx_ok = bool(conv) and bool(idxs) and not ctx.adapters(val)
            det = short(val, 100)
        # the bytes written are label[1..5]
        rng_ok = any(callee_decl(t2).endswith('index_mut') and canon(f2.args(b2)[1]) in ('range(1,5)', 'range(1,None)') for f2 in frames for b2, t2 in f2.calls())
        pure = False
        if base.tag == 'array' and len(base.args) == 5 and base.args[0].tag == 'const' and not evs:
            # the label written as one expression: [tag, b0, b1, b2, b3] with b_k = idx.to_le_bytes()[k]
            src = None
            pure = True
            for k, x in enumerate(base.args[1:]):
                x = strip(x)
                good_k = x.tag == 'elemat' and x[2].tag == 'const' and x[2][1] == k and strip(x[1]).tag == 'call' and strip(x[1])[1].endswith('<impl u32>::to_le_bytes')
                if not good_k or (src is not None and strip(x[1]) is not src):
                    pure = False
                    break
                src = strip(x[1])
            if pure:
                tag = base.args[0][1]
                tags[target or 'chain%d' % n] = tag
                conv = [y for y in walk(src) if y.tag == 'call' and y[1].endswith('try_from')]
                idxs = [y for y in walk(src) if y.tag == 'index']
                pure = bool(conv) and bool(idxs) and not ctx.adapters(src)
                det = short(src, 100)
        # the label evaluated byte by byte decides whenever it can be evaluated (a literal with bytes stored later at constant positions,
        # 4-byte writes / copies into a constant sub-range): the recognisers above only name the spelling
        cells = label_cells(ctx, lab)
        if cells is not None:
            pure, ok_shape = False, False
            tag = cells[0][1] if cells and cells[0][0] == 'lit' else None
            tags[target or 'chain%d' % n] = tag
            det = 'bytes %s' % [c[:3] if c[0] != 'lit' else c for c in cells]
            if len(cells) == 5 and cells[0][0] == 'lit' and all(c[0] != 'lit' for c in cells[1:]):
                srcs = {c[0] for c in cells[1:]}
                if len(srcs) == 1 and [c[1] for c in cells[1:]] == [0, 1, 2, 3] and all(c[2] == 4 for c in cells[1:]):
                    sterm = cells[1][3]
                    le_ = any(x.tag == 'call' and x[1].endswith('<impl u32>::to_le_bytes') for x in walk(sterm)) or cells[1][0].startswith('LE32:')
                    conv = [y for y in walk(sterm) if y.tag == 'call' and y[1].endswith('try_from')]
                    idxs = [y for y in walk(sterm) if y.tag == 'index']
                    if le_ and conv and idxs and not ctx.adapters(sterm):
                        pure = True
                        tag = cells[0][1]
                        tags[target or 'chain%d' % n] = tag
                        det = short(sterm, 100)
        rep.check(pure or (ok_shape and len(wr) == 1 and le and idx_ok and rng_ok), 'R-C11-1', 'R-C11-1/chain%d/label' % n,
                  'label %d is [tag, LE32(party index)] with the party index = checked u32 of the loop index (%s)' % (n, det),
                  'label %d: 5-byte array=%s, one little-endian 4-byte write=%s/%s, into bytes 1..5=%s, index is the loop index=%s (%s)' % (n, ok_shape, len(wr), le, rng_ok, idx_ok, det), where)
    rep.check(tags.get('g_vec') == 0x47 and tags.get('h_vec') == 0x48, 'R-C11-1', 'R-C11-1/tags', 'the G vector uses tag 0x47 (\'G\') and the H vector tag 0x48 (\'H\')',
              'label tags by target vector: %s (expected g_vec: 0x47, h_vec: 0x48)' % {k: (hex(v) if isinstance(v, int) else v) for k, v in tags.items()}, ctx.where(new))
    # the loop ranges over all parties: zip(g_vec.iter_mut(), h_vec.iter_mut()).enumerate()
    lps = [lp for lp in ctx.loops(new).values() if lp.iter_term is not None and lp.iter_term.tag == 'enumerate']
    ok = bool(lps) and not ctx.adapters(lps[0].iter_term) and lps[0].driver_only_exit
    shown = short(lps[0].iter_term, 100) if lps else None
    if not lps:
        # the same walk with the counter spelled out: `(0..party_count).zip(g_vec.iter_mut().zip(h_vec.iter_mut()))`, the count being the
        # (checked u32 of the) party capacity -- position i of the range meets vector i
        for lp in ctx.loops(new).values():
            it0 = strip(lp.iter_term) if lp.iter_term is not None else None
            if it0 is None or it0.tag != 'zip':
                continue
            sides = [strip(it0[1]), strip(it0[2])]
            rk = [k for k in (0, 1) if sides[k].tag == 'range' and strip(sides[k][1]).tag == 'const' and strip(sides[k][1])[1] == 0]
            if len(rk) == 1:
                bound = strip(sides[rk[0]][2])
                while bound.tag == 'call' and bound[1].split('::')[-1] in ('try_from', 'from', 'into') and len(bound[2]) == 1:
                    bound = strip(bound[2][0])
                whole_count = bound.tag == 'param' and bound[2] == 2
                other = sides[1 - rk[0]]
                if whole_count and other.tag == 'zip' and not ctx.adapters(lp.iter_term) and lp.driver_only_exit:
                    lps = [lp]
                    ok = True
                    shown = short(lp.iter_term, 100)
                    break
    if not lps:
        # the same iteration handed to for_each / try_for_each (which stops early on an error only): the iterator the filling closure is
        # applied to
        its = []
        for e in ix.events():
            if e.get('kind') == 'closure' and e.get('closure_local') is not None and e['decl'] == 'std::iter::Extend::extend':
                it = ctx.eng.applied_to(new, e['bb'], e['closure_local'])
                if it is not None:
                    its.append(strip(it))
        if its:
            shown = short(its[0], 100)
            ok = all(x.tag == 'enumerate' and not ctx.adapters(x) for x in its)
    rep.check(ok, 'R-C11-1', 'R-C11-1/all-parties', 'the derivation loop enumerates every party vector', 'the party loop is %s' % shown, ctx.where(new))


def hasher_inputs(t):
    """(constructor term, [absorbed data terms in order]) of a hasher value, for the imperative (`h.update(x)`), the builder
    (`H::default().chain(x)`, normalised by the engine) and the one-shot (`H::digest(x)`) styles; None if not recognised"""
    t0 = t
    while t0.tag == 'call' and t0[1].split('::')[-1] in ('into', 'from', 'finalize', 'finalize_xof', 'finalize_fixed') and t0[2]:
        t0 = t0[2][0]
    if t0.tag == 'call' and t0[1].split('::')[-1] == 'digest' and len(t0[2]) == 1:
        return t0, [t0[2][0]]
    if t0.tag == 'mut':
        ins = []
        for e in t0[2]:
            if e.tag == 'ev' and e[1] == 'call' and e[2].split('::')[-1] in ('update', 'chain', 'chain_update') and e[3]:
                ins.append(e[3][-1])
            elif e.tag == 'ev':
                return None
        return strip(t0), ins
    return None


def r2(ctx):
    rep = ctx.rep
    cn = ctx.fn('GeneratorsChain::<P>::new', 'R-C11-2')
    if cn is not None:
        rt = ctx.eng.return_term(cn)
        agg = [x for x in walk(rt) if x.tag == 'adt' and x[1].endswith('GeneratorsChain::GeneratorsChain')]
        reader = dict(agg[0][2]).get('reader') if agg else None
        hi = hasher_inputs(reader) if reader is not None else None
        shake = any('Shake256' in l['ty'] for l in cn.locals)
        xof = reader is not None and reader.tag == 'call' and reader[1].endswith('finalize_xof')
        seq = [canon(ctx.eng.expand(strip(a))) for a in hi[1]] if hi else None
        rep.check(shake and xof and seq == ["b'GeneratorsChain'", 'p1'], 'R-C11-2', 'R-C11-2/chain-new',
                  'the chain absorbs b"GeneratorsChain" then the label into SHAKE256 and switches to XOF output', 'chain construction absorbs %s (SHAKE256: %s, XOF: %s)' % (seq, shake, xof), ctx.where(cn))
        rep.check(hi is not None and hi[0].tag == 'call' and not hi[0][2], 'R-C11-2', 'R-C11-2/same-hasher', 'both absorptions act on one freshly constructed hasher',
                  'the hasher the reader is taken from is %s' % (short(hi[0], 80) if hi else None), ctx.where(cn))
    nx = [b for b in ctx.facts.fns() if b.path.endswith('GeneratorsChain<P> as std::iter::Iterator>::next')]
    if not nx:
        rep.anchor_missing('R-C11-2', 'R-C11-2/next', 'GeneratorsChain::next not found')
    else:
        b = nx[0]
        rd = [(bb, ctx.args(b, bb)) for bb, t in ctx.calls(b) if callee_decl(t).endswith('XofReader::read')]
        fu = [(bb, ctx.args(b, bb)) for bb, t in ctx.calls(b) if callee_decl(t).endswith('from_uniform_bytes')]
        ok = len(rd) == 1 and len(fu) == 1 and canon(strip(rd[0][1][1])) == "repeatv(0,'64')" and fu[0][1][0].tag == 'mut' and any(e.tag == 'ev' and e[2].endswith('read') for e in fu[0][1][0][2])
        rep.check(ok, 'R-C11-2', 'R-C11-2/next', 'next() reads 64 XOF bytes and maps them through from_uniform_bytes', 'next() is %s -> %s' % ([canon(a[1]) for _, a in rd], [canon(a[0]) for _, a in fu]), ctx.where(b))


def r3(ctx, new):
    rep = ctx.rep
    pre = [(bb, t) for bb, t in ctx.calls(new) if callee_decl(t).endswith('VartimePrecomputedMultiscalarMul::new')]
    if len(pre) != 1:
        rep.anchor_missing('R-C11-3', 'R-C11-3/precomp', 'expected one precomputation constructor call, found %d' % len(pre))
        return
    bb = pre[0][0]
    a = strip(ctx.args(new, bb)[0])
    rt = ctx.eng.return_term(new)
    agg = [x for x in walk(rt) if x.tag == 'adt' and x[1].endswith('BulletproofGens::BulletproofGens')]
    fields = dict(agg[0][2]) if agg else {}
    ok = a.tag == 'interleave'
    det = short(a, 160)
    if ok:
        g_side, h_side = a[1], a[2]
        def base_vec(side):
            # flatten(map(vec, |v| v.iter()))  or  flatten(vec.iter())
            s = strip(side)
            if s.tag == 'flatten':
                s = strip(s[1])
            while s.tag == 'adapt' and s[1] in ('iter', 'into_iter', 'by_ref') and len(s.args) >= 3:
                s = strip(s[2])
            cands = [s]
            if s.tag == 'map':
                # flatten(map(vec, |v| v.iter())): the vector under the per-element iter() closure
                s2 = strip(s[1])
                while s2.tag == 'adapt' and s2[1] in ('iter', 'into_iter', 'by_ref') and len(s2.args) >= 3:
                    s2 = strip(s2[2])
                cands.append(s2)
            return cands
        gvs, hvs = base_vec(g_side), base_vec(h_side)
        fg, fh = strip(fields.get('g_vec')) if fields.get('g_vec') is not None else None, strip(fields.get('h_vec')) if fields.get('h_vec') is not None else None
        gi = [i for i, x in enumerate(gvs) if x is fg]
        hi = [i for i, x in enumerate(hvs) if x is fh]
        # both sides read the stored vectors in the same way (both directly, or both through the per-element iter() closure)
        ok = bool(gi) and bool(hi) and bool(set(gi) & set(hi)) and fg is not fh and not skeleton_adapters(a)
        det = 'G side from %s, H side from %s' % (short(gvs[-1], 60), short(hvs[-1], 60))
    rep.check(ok, 'R-C11-3', 'R-C11-3/precomp', 'the table is built from interleave(flatten(g_vec), flatten(h_vec)) of the vectors stored in the struct (G first)',
              'the table is built from %s' % det, ctx.where(new, bb))
    for nm in ('gens_capacity', 'party_capacity'):
        f = fields.get(nm)
        rep.check(f is not None and strip(f).tag == 'param', 'R-C11-3', 'R-C11-3/field/%s' % nm, 'field %s stores the constructor argument' % nm, 'field %s is %s' % (nm, short(f, 60) if f is not None else None), ctx.where(new))


def fmt_template_pieces(tpl, args):
    """pieces of a `format_args!` template in the compiler's byte encoding: `<len> <literal bytes>` runs, 0xC0.. argument
    placeholders (taken in order), 0x00 terminator; None when the bytes do not parse that way"""
    out, i, k = [], 0, 0
    while i < len(tpl):
        b = tpl[i]
        if b == 0 and i == len(tpl) - 1:
            return out
        if b < 0x80 and b > 0:
            lit = tpl[i + 1:i + 1 + b]
            if len(lit) != b:
                return None
            out.append(lit)
            i += 1 + b
        elif b == 0xc0:
            if k >= len(args):
                return None
            out.append(args[k])
            k += 1
            i += 1
        else:
            return None
    return out if tpl and tpl[-1] != 0 else None


def string_pieces(t):
    """a byte/str value as a concatenation: [bytes | ('dec', term)] ; None when the construction is not recognised.
    `"lit".to_owned() + &i.to_string()`, `format!("lit{}", i)` and `[a, b].concat()` give the same pieces."""
    t = strip(t)
    if t.tag == 'const' and isinstance(t[1], (bytes, str)):
        return [t[1] if isinstance(t[1], bytes) else t[1].encode()]
    if t.tag == 'binop' and t[1] == 'Add':
        if any(strip(x).tag == 'const' and isinstance(strip(x)[1], int) and not isinstance(strip(x)[1], bool) for x in (t[2], t[3])):
            return [('dec', t)]          # an integer sum rendered into the string (`(MINIMUM + i).to_string()`), not a concatenation
        a, b = string_pieces(t[2]), string_pieces(t[3])
        return a + b if a is not None and b is not None else None
    if t.tag in ('index', 'param', 'cast', 'elem', 'field'):
        # an integer rendered into the string (the conversion call is transparent in value terms; its presence is checked separately)
        return [('dec', t)]
    if t.tag == 'call':
        nm = t[1].split('::')[-1]
        if nm in ('to_owned', 'as_bytes', 'as_str', 'deref', 'as_ref', 'borrow', 'into', 'from', 'clone', 'to_vec', 'into_bytes', 'must_use') and len(t[2]) == 1:
            return string_pieces(t[2][0])
        if nm in ('concat', 'join') and len(t[2]) == 1 and strip(t[2][0]).tag == 'array':
            out = []
            for x in strip(t[2][0]).args:
                px = string_pieces(x)
                if px is None:
                    return None
                out += px
            return out
        if nm == 'to_string' and len(t[2]) == 1:
            inner = string_pieces(t[2][0])
            return inner if inner is not None else [('dec', t[2][0])]
        if nm == 'format' and len(t[2]) == 1:
            a = strip(t[2][0])
            # fmt::Arguments::new(template, &[Argument::new_display(x), ..])
            if a.tag == 'call' and len(a[2]) == 2 and strip(a[2][0]).tag == 'const' and isinstance(strip(a[2][0])[1], bytes) and strip(a[2][1]).tag == 'array':
                fargs = []
                for x in strip(a[2][1]).args:
                    x = strip(x)
                    if not (x.tag == 'call' and x[1].split('::')[-1] == 'new_display' and len(x[2]) == 1):
                        return None
                    x0 = strip(x[2][0])
                    # `{}` of a string constant is the string itself; of anything else, its Display rendering
                    fargs.append((x0[1] if isinstance(x0[1], bytes) else x0[1].encode()) if x0.tag == 'const' and isinstance(x0[1], (bytes, str)) else ('dec', x[2][0]))
                ps = fmt_template_pieces(strip(a[2][0])[1], fargs)
                if ps is None:
                    return None
                merged = []
                for p_ in ps:
                    if isinstance(p_, bytes) and not p_:
                        continue
                    if isinstance(p_, bytes) and merged and isinstance(merged[-1], bytes):
                        merged[-1] = merged[-1] + p_
                    else:
                        merged.append(p_)
                return merged
    return None


def canon_pieces(ps):
    return [p if isinstance(p, bytes) else ('dec', canon(p[1])) for p in ps] if ps is not None else None


def r4(ctx):
    rep = ctx.rep
    facts = ctx.facts
    # the initialiser closures of the two once-cells: the one storing points hashed from labels, and the one compressing them
    mb = cb = None
    inits = []
    for st in facts.statics:
        owner = facts.fn.get(st['path'].rsplit('::', 1)[0])
        if owner is not None:
            for c in facts.closures_of(owner):
                inits.append((st, owner, c))
    for st, owner, c in inits:
        if c.parent != owner.path:
            continue            # closures nested in an initialiser are analysed as part of it
        names = {callee_decl(t).split('::')[-1] for c2 in [c] + facts.closures_of(c) for _, t in ctx.calls(c2)}
        if 'hash_from_bytes_sha3_512' in names:
            mb, mb_owner = c, owner
        elif 'compress' in names:
            cb = c
    hf = ctx.fn('CurvePointProtocol::hash_from_bytes_sha3_512', 'R-C11-4')
    pg = ctx.fn('create_pedersen_gens_with_extension_degree', 'R-C11-4')
    if mb is None or cb is None:
        rep.anchor_missing('R-C11-4', 'R-C11-4/initialisers', 'initialiser closures of the blinding-generator statics not found')
    else:
        rep.saw_body(mb)
        rep.saw_body(cb)
        # the store may sit in the initialiser itself (a `for` loop) or in a closure it hands to for_each: look in every frame
        st = [(fr, e) for fr in ctx.frames(mb) if all(f_.kind != 'call' for f_ in fr.chain()) for e in ctx.eng.bx(fr.body).events() if e['kind'] == 'store']
        ok = False
        det = ''
        covered = None          # (verdict, detail) of "every slot of the array receives a generator", when the form is recognised
        if len(st) == 1:
            fr1, ev1 = st[0]
            b1 = fr1.body
            t = ctx.eng.event_term(b1, ev1)
            val = ctx.eng.expand(fr1.lift(t[3][0]), stop={hf.path} if hf is not None else ())
            c = canon(val)
            det = c
            # the hashed label, whichever way the string is put together
            hcall = strip(val)
            label = None
            if hcall.tag == 'call' and hcall[1].endswith('hash_from_bytes_sha3_512') and len(hcall[2]) == 1:
                label = hcall[2][0]
            elif hcall.tag == 'call' and hcall[1].endswith('from_uniform_bytes') and len(hcall[2]) == 1:
                # the hash-to-group helper inlined: from_uniform_bytes(SHA3-512(label)) (the primitive itself is judged by R-C11-4/hash-to-group)
                hi0 = hasher_inputs(strip(hcall[2][0]))
                if hi0 is not None and len(hi0[1]) == 1 and hf is not None and any(callee_name(t2) == hf.path for _, t2 in ctx.calls(mb)):
                    label = hi0[1][0]
            pieces = canon_pieces(string_pieces(label)) if label is not None else None
            # the integer is rendered in decimal: through Display (to_string / format!("{}"))
            scope = [mb] + [c2 for c2 in ctx.facts.reachable_from([mb])]
            dec = any(callee_decl(t2) == 'std::string::ToString::to_string' or callee_decl(t2).endswith('::new_display') for b_ in scope for _, t2 in ctx.calls(b_))
            # the iteration: the array slots zipped with the degrees 1.., in a `for` loop or handed to for_each; the slot written is the
            # partner of the degree rendered into the label
            z, whole = None, False
            lp1 = [l for l in ctx.loops(b1).values() if ev1['bb'] in l.blocks and l.iter_term is not None]
            if lp1:
                z = strip(fr1.lift(lp1[-1].iter_term))
                whole = lp1[-1].driver_only_exit
            elif fr1.kind == 'closure' and fr1.parent is not None:
                cs = ctx.closure_site(b1)
                if cs is not None and not cs[3]['place']['p']:
                    itz = ctx.eng.applied_to(cs[0], cs[1], cs[3]['place']['l'])
                    z = strip(fr1.parent.lift(itz)) if itz is not None else None
                    whole = True
            zipped = False
            want_idx = None
            if z is not None and z.tag == 'zip' and not ctx.adapters(z) and whole:
                # coverage: the label side does not end before the array does (an open range, or a closed one with as many values as slots)
                import re as _re
                m_ = _re.search(r';\s*(\d+)\]$', mb.locals[0]['ty'])
                nslots = int(m_.group(1)) if m_ else None
                for sd in (strip(z[1]), strip(z[2])):
                    mr = _re.match(r'^range\((\d+),(None|\d+)\)$', canon(sd))
                    if mr and nslots is not None:
                        covered = (mr.group(2) == 'None' or int(mr.group(2)) - int(mr.group(1)) >= nslots,
                                   'label range %s against %d slots' % (canon(sd), nslots))
            if z is not None and z.tag == 'zip' and not ctx.adapters(z) and whole:
                sides = [strip(z[1]), strip(z[2])]
                rk = [k for k in (0, 1) if canon(sides[k]) == 'range(1,None)']
                if len(rk) == 1:
                    place = ev1['place']
                    ptr = fr1.lift(ctx.eng.local(b1, ev1['bb'], ev1['idx'], place['l'])) if [pe['k'] for pe in place['p']] == ['deref'] else None
                    slot = mk_elem(ctx.eng, z[2 - rk[0]])
                    zipped = ptr is not None and strip(ptr) is strip(slot)
                    want_idx = canon(mk_elem(ctx.eng, z[1 + rk[0]]))
            ok = dec and zipped and pieces in ([b'RISTRETTO_MASKING_BASEPOINT_', ('dec', 'idx(range(1,None))')], [b'RISTRETTO_MASKING_BASEPOINT_', ('dec', want_idx)])
            det = '%s with label pieces %s (slot zipped with the degree: %s)' % (c[:120], pieces, zipped)
        elif not st:
            # no store: `core::array::from_fn(|i| hash(label(MINIMUM + i)))` -- slot i is what the closure returns for i
            rt0 = strip(ctx.eng.return_term(mb))
            if rt0.tag == 'call' and rt0[1].endswith('array::from_fn') and len(rt0[2]) == 1 and strip(rt0[2][0]).tag == 'closure':
                k0 = T('index', T('const', 'from_fn'))
                val = ctx.eng.expand(ctx.eng.apply(strip(rt0[2][0]), (k0,)), stop={hf.path} if hf is not None else ())
                c = canon(val)
                hcall = strip(val)
                label = None
                if hcall.tag == 'call' and hcall[1].endswith('hash_from_bytes_sha3_512') and len(hcall[2]) == 1:
                    label = hcall[2][0]
                elif hcall.tag == 'call' and hcall[1].endswith('from_uniform_bytes') and len(hcall[2]) == 1:
                    hi0 = hasher_inputs(strip(hcall[2][0]))
                    if hi0 is not None and len(hi0[1]) == 1 and hf is not None and any(callee_name(t2) == hf.path for _, t2 in ctx.calls(mb)):
                        label = hi0[1][0]
                pieces = canon_pieces(string_pieces(label)) if label is not None else None
                scope = [mb] + [c2 for c2 in ctx.facts.reachable_from([mb])]
                dec = any(callee_decl(t2) == 'std::string::ToString::to_string' or callee_decl(t2).endswith('::new_display') for b_ in scope for _, t2 in ctx.calls(b_))
                one_plus = {canon(T('binop', 'Add', T('const', 1), k0)), canon(T('binop', 'Add', k0, T('const', 1)))}
                ok = dec and pieces is not None and len(pieces) == 2 and pieces[0] == b'RISTRETTO_MASKING_BASEPOINT_' and pieces[1][0] == 'dec' and pieces[1][1] in one_plus
                det = '%s with label pieces %s (array::from_fn: slot i holds the value for i)' % (c[:120], pieces)
                covered = (True, 'array::from_fn fills every slot')
        rep.check(ok, 'R-C11-4', 'R-C11-4/blinding-generators', 'generator i = hash_from_bytes_sha3_512("RISTRETTO_MASKING_BASEPOINT_" ++ decimal(i)), i = 1.. zipped with the array slots',
                  'blinding generators are derived as %s' % det, ctx.where(mb))
        # every slot is filled: a slot left at its placeholder is the identity (or a copy of another generator), and the transcript refuses
        # the identity -- the extension degrees that use that slot can no longer be proven at all
        if covered is not None:
            rep.check(covered[0], 'R-C11-4', 'R-C11-4/all-slots', 'every slot of the blinding-generator array receives a derived point (%s)' % covered[1],
                      'the derivation stops before the last slot of the array (%s): the remaining generators keep their placeholder value' % covered[1], ctx.where(mb))
        elif ok:
            rep.ok('R-C11-4', 'R-C11-4/all-slots', 'every slot of the blinding-generator array receives a derived point (implied by the derivation form)', ctx.where(mb))
        else:
            rep.idiom_absent('R-C11-4', 'R-C11-4/all-slots', 'the loop that fills the blinding-generator array is not in a recognised form: coverage of the slots not decided')
        # the store may sit in the initialiser itself (a `for` loop) or in a closure it hands to for_each: look in every frame
        st2 = [(fr, e) for fr in ctx.frames(cb) if all(f_.kind != 'call' for f_ in fr.chain()) for e in ctx.eng.bx(fr.body).events() if e['kind'] == 'store']
        ok2 = False
        det2 = ''
        if len(st2) == 1:
            fr2, ev2 = st2[0]
            b2 = fr2.body
            t = ctx.eng.event_term(b2, ev2)
            val = fr2.lift(t[3][0])
            det2 = canon(val)
            same_index = False
            place = ev2['place']
            idxl = [e['l'] for e in place['p'] if e['k'] == 'index']
            if idxl:
                # arr[i] = point.compress() with (i, point) from enumerate over the uncompressed array
                it = fr2.lift(ctx.eng.local(b2, ev2['bb'], ev2['idx'], idxl[0]))
                same_index = it.tag == 'index' and any(x.tag == 'elem' and x[1] is it[1] for x in walk(val))
            elif [pe['k'] for pe in place['p']] == ['deref']:
                # `*slot = point.compress()` with (slot, point) the element of zip(arr.iter_mut(), points), in a `for` loop or a
                # for_each closure: the slot written is the zip partner of the point compressed
                ptr = fr2.lift(ctx.eng.local(b2, ev2['bb'], ev2['idx'], place['l']))
                z = None
                whole = False
                lp2 = [l for l in ctx.loops(b2).values() if ev2['bb'] in l.blocks and l.iter_term is not None]
                if lp2:
                    z = strip(fr2.lift(lp2[-1].iter_term))
                    whole = lp2[-1].driver_only_exit
                elif fr2.kind == 'closure' and fr2.parent is not None:
                    cs = ctx.closure_site(b2)
                    if cs is not None and not cs[3]['place']['p']:
                        itz = ctx.eng.applied_to(cs[0], cs[1], cs[3]['place']['l'])
                        z = strip(fr2.parent.lift(itz)) if itz is not None else None
                        whole = True
                if z is not None and z.tag == 'zip' and not ctx.adapters(z):
                    els = [mk_elem(ctx.eng, z[1]), mk_elem(ctx.eng, z[2])]
                    slot_k = [k for k in (0, 1) if strip(ptr) is strip(els[k])]
                    if len(slot_k) == 1:
                        other = els[1 - slot_k[0]]
                        same_index = whole and any(x is other or x is strip(other) for x in walk(val))
            ok2 = det2.startswith('compress(each(get_or_init(') and same_index and any(callee_name(t2) == mb_owner.path for _, t2 in ctx.calls(cb))
        elif not st2:
            # no store at all: the array is built by `core::array::from_fn(|i| points[i].compress())` -- slot i is what the closure
            # returns for i, so the closure applied to a symbolic index must be compress(uncompressed[that index])
            rt = strip(ctx.eng.return_term(cb))
            if rt.tag == 'call' and rt[1].endswith('array::from_fn') and len(rt[2]) == 1 and strip(rt[2][0]).tag == 'closure':
                k = T('index', T('const', 'from_fn'))
                val = strip(ctx.eng.apply(strip(rt[2][0]), (k,)))
                det2 = canon(val)
                same_index = False
                if val.tag == 'call' and val[1].split('::')[-1] == 'compress' and len(val[2]) == 1:
                    src = strip(val[2][0])
                    same_index = src.tag == 'elemat' and strip(src[2]) is k and canon(strip(src[1])).startswith('get_or_init(')
                ok2 = same_index and any(callee_name(t2) == mb_owner.path for _, t2 in ctx.calls(cb))
        rep.check(ok2, 'R-C11-4', 'R-C11-4/compressed-generators', 'compressed[i] = compress(generator[i]) for the same enumerate index over the uncompressed array',
                  'compressed generators are %s' % det2, ctx.where(cb))
    if hf is not None:
        sha = any('Sha3_512' in l['ty'] for l in hf.locals) or any('Sha3_512' in callee_name(t) or 'Sha3_512' in ' '.join(t['func'].get('gargs', [])) for _, t in ctx.calls(hf))
        fu = [ctx.args(hf, bb)[0] for bb, t in ctx.calls(hf) if callee_decl(t).endswith('from_uniform_bytes')]
        hi = hasher_inputs(strip(fu[0])) if len(fu) == 1 else None
        ups = [canon(strip(x)) for x in hi[1]] if hi else []
        ok = sha and ups == ['p1'] and len(fu) == 1 and hi is not None
        rep.check(ok, 'R-C11-4', 'R-C11-4/hash-to-group', 'hash_from_bytes_sha3_512 = from_uniform_bytes(SHA3-512(input))', 'hash-to-group is SHA3-512=%s over %s' % (sha, ups), ctx.where(hf))
    if pg is not None:
        rt = ctx.eng.return_term(pg)
        agg = [x for x in walk(rt) if x.tag == 'adt' and x[1].endswith('PedersenGens::PedersenGens')]
        f = dict(agg[0][2]) if agg else {}
        hb, hc = f.get('h_base'), f.get('h_base_compressed')
        ok = hb is not None and hb.tag == 'item' and hb[1].endswith('RISTRETTO_BASEPOINT_POINT') and hc is not None and hc.tag == 'item' and hc[1].endswith('RISTRETTO_BASEPOINT_COMPRESSED')
        rep.check(ok, 'R-C11-4', 'R-C11-4/value-generator', 'the value generator is RISTRETTO_BASEPOINT_POINT with RISTRETTO_BASEPOINT_COMPRESSED',
                  'value generator: %s / %s' % (short(hb, 60) if hb is not None else None, short(hc, 60) if hc is not None else None), ctx.where(pg))
        gb = ctx.fn('ristretto::get_g_base', 'R-C11-4', required=False)
        # what the Pedersen generators are built from, whatever helper hands it over and in whatever shape (a tuple, a private struct,
        # inline): the two vectors stored in the struct, with local helpers expanded
        va, vb = f.get('g_base_vec'), f.get('g_base_compressed_vec')
        if va is not None and vb is not None:
            def whole(t):
                # copies and full-range views of a vector are the vector: `v[..].to_owned()`, `v.to_vec()`, `v.clone()`
                t = strip(t)
                while True:
                    if t.tag == 'call' and t[1].split('::')[-1] in ('to_owned', 'to_vec', 'clone', 'into', 'from', 'as_slice', 'deref', 'as_ref', 'borrow') and len(t[2]) == 1:
                        t = strip(t[2][0])
                    elif t.tag == 'elemat' and canon(strip(t[2])).startswith('RangeFull'):
                        t = strip(t[1])
                    else:
                        return t
            a, b = whole(ctx.eng.expand(va)), whole(ctx.eng.expand(vb))
            rtg = T('tuple', a, b)
            ok = True
            if ok:
                sa = [x for x in walk(a) if x.tag == 'static']
                sb = [x for x in walk(b) if x.tag == 'static']
                ra, rb = canon(a).split('[')[-1], canon(b).split('[')[-1]
                ok = bool(sa) and bool(sb) and sa[0][1] != sb[0][1] and mb is not None and cb is not None and sa[0][1].startswith(mb_owner.path + '::') and sb[0][1].startswith(cb.path.rsplit('::', 1)[0] + '::') and ra == rb and 'RangeTo' in ra
            rep.check(ok, 'R-C11-4', 'R-C11-4/same-prefix', 'points and compressed points handed out are the same prefix [..degree] of the two arrays', 'the Pedersen generators are built from %s' % short(rtg, 200), ctx.where(gb if gb is not None else pg))


def r5(ctx):
    rep = ctx.rep
    adt = ctx.facts.adts.get('generators::pedersen_gens::ExtensionDegree')
    if adt is None:
        rep.anchor_missing('R-C11-5', 'R-C11-5/adt', 'enum ExtensionDegree not found')
        return
    ds = sorted(int(v['discr']) for v in adt['variants'])
    # COUNT as evaluated by the compiler: the length of the arrays held by the statics' initialisers
    counts = set()
    for b in ctx.facts.fns():
        if b.is_closure and any(st['path'].rsplit('::', 1)[0] == b.parent for st in ctx.facts.statics):
            # (the array type the initialiser returns spells the evaluated length, however the array is filled)
            import re as _re
            m_ = _re.search(r';\s*(\d+)\]$', b.locals[0]['ty'])
            if m_:
                counts.add(int(m_.group(1)))
            for blk in b.blocks:
                for s in blk['stmts']:
                    if s['k'] == 'assign' and s['rv']['k'] == 'repeat':
                        try:
                            counts.add(int(str(s['rv']['n']).strip('"\'')))
                        except ValueError:
                            counts.add(s['rv']['n'])
    ok = ds == list(range(1, 7)) and counts == {len(ds)} and len(ds) == ds[-1] - ds[0] + 1
    rep.check(ok, 'R-C11-5', 'R-C11-5/count', 'discriminants are 1..=6 and COUNT (array length %s) == MAXIMUM - MINIMUM + 1 == number of variants' % sorted(counts, key=str),
              'discriminants %s, evaluated COUNT %s' % (ds, sorted(counts, key=str)), adt['span']['file'])
