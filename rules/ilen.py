"""Small symbolic length arithmetic: integer-valued terms and collection lengths as polynomials over canonical atoms.

Used where a buffer is carved into fixed-size slots that are then paired (zip) with a collection: the pairing covers the whole
collection only if the number of slots equals the collection's length, which is a statement about products and quotients of sizes.
"""
import re
from bpsa.normal import canon
from .poly import pmul, padd


class NoLen(Exception):
    pass


ENGINE = None          # set by the caller that needs closures applied (sum over a map)


def _strip(t):
    while t.tag in ('mut', 'via') and True:
        if t.tag == 'mut':
            t = t[1]
        else:
            t = t[2]
    return t


# invariants of validated types, as rewrites of canonical atoms (established by the constructors: R-C17-1)
INVARIANTS = [
    # RangeWitness::init: every opening has `extension_degree` blinding factors
    (re.compile(r'^len\(each\((.+)\.openings\)\.r\)$'), r'\1.extension_degree'),
    # RangeStatement::init: one promise slot per commitment
    (re.compile(r'^len\((.+)\.minimum_value_promises\)$'), r'len(\1.commitments)'),
    (re.compile(r'^len\((.+)\.commitments_compressed\)$'), r'len(\1.commitments)'),
]


def atom(name):
    for rx, rep in INVARIANTS:
        m = rx.match(name)
        if m:
            name = rx.sub(rep, name)
    return {(name,): 1}


def const(c):
    return {(): c} if c else {}


CTX = None             # set by the caller that needs loop information (sums accumulated by a loop)


def _loop_sum(t, depth):
    """`let mut n = c; for x in xs { n += g(x) }`: the value of n after the loop is c + sum over xs of g, i.e. c + len(xs) * g when g does
    not depend on the element (after the type invariants).  Recognised on the value after the loop (phi of the initial value and the
    last update) and on the updated value itself."""
    if ENGINE is None or CTX is None or depth > 40:
        return None
    upd = None
    if t.tag == 'phi' and len(t.args) == 2:
        for x, y in ((t.args[0], t.args[1]), (t.args[1], t.args[0])):
            if x.tag == 'binop' and x[1] == 'Add' and y.tag == 'const':
                upd = x
    elif t.tag == 'binop' and t[1] == 'Add':
        upd = t
    if upd is None:
        return None
    lv = g = None
    for a, b in ((upd[2], upd[3]), (upd[3], upd[2])):
        if a.tag == 'lv':
            lv, g = a, b
    if lv is None:
        return None
    try:
        defs = ENGINE.lv_defs(lv)
    except Exception:
        return None
    inits = [d for d in defs if d.tag == 'const' and isinstance(d[1], int) and not isinstance(d[1], bool)]
    upds = [d for d in defs if d is upd]
    if len(defs) != 2 or len(inits) != 1 or len(upds) != 1:
        return None
    body = ENGINE.facts.by_key.get(lv[1])
    lp = CTX.loops(body).get(lv[3]) if body is not None else None
    if lp is None or lp.iter_term is None or not lp.driver_only_exit:
        return None
    gv = ival(g, depth + 1)
    from bpsa.terms import mk_elem
    ce = canon(mk_elem(ENGINE, lp.iter_term))
    for mono in gv:
        for a in mono:
            if ce and ce in a:
                raise NoLen('summand depends on the element: %s' % a)
    return padd(const(inits[0][1]), pmul(icount(lp.iter_term, depth + 1), gv))


def ival(t, depth=0):
    """polynomial of an integer-valued term"""
    if depth > 60:
        raise NoLen('depth')
    t0 = t
    t = _strip(t)
    k = t.tag
    if k == 'const' and isinstance(t[1], int) and not isinstance(t[1], bool):
        return const(t[1])
    if k == 'cast':
        return ival(t[2], depth + 1)
    if k == 'discr':
        return atom(canon(t[1]))
    acc = _loop_sum(t, depth)
    if acc is not None:
        return acc
    if k == 'binop' and t[1] in ('Add', 'Sub', 'Mul'):
        a, b = ival(t[2], depth + 1), ival(t[3], depth + 1)
        return pmul(a, b) if t[1] == 'Mul' else padd(a, b, 1 if t[1] == 'Add' else -1)
    if k == 'tuple' and len(t.args) == 2 and t.args[1].tag == 'opaque':
        return ival(t.args[0], depth + 1)           # (value, overflow flag) of a checked operation
    if k == 'field' and t[1] == '0' and _strip(t[2]).tag == 'tuple':
        return ival(_strip(t[2]).args[0], depth + 1)
    if k == 'call':
        nm = t[1].split('::')[-1]
        if nm in ('checked_mul', 'saturating_mul', 'wrapping_mul') and len(t[2]) == 2:
            return pmul(ival(t[2][0], depth + 1), ival(t[2][1], depth + 1))
        if nm in ('checked_add', 'saturating_add', 'wrapping_add') and len(t[2]) == 2:
            return padd(ival(t[2][0], depth + 1), ival(t[2][1], depth + 1))
        if nm in ('checked_sub',) and len(t[2]) == 2:
            return padd(ival(t[2][0], depth + 1), ival(t[2][1], depth + 1), -1)
        if nm == 'len' and len(t[2]) == 1:
            return clen(t[2][0], depth + 1)
        if nm == 'sum' and len(t[2]) == 1 and _strip(t[2][0]).tag == 'map' and ENGINE is not None:
            m0 = _strip(t[2][0])
            cl = m0[2]
            while cl.tag == 'mut':
                cl = cl[1]
            if cl.tag == 'closure':
                return sum_over(ENGINE, m0[1], cl)
        if nm == 'size_of' and not t[2]:
            raise NoLen('size_of of an unknown type')
        if nm in ('try_from', 'from', 'into', 'try_into') and len(t[2]) == 1:
            return ival(t[2][0], depth + 1)
    return atom(canon(t))


def clen(t, depth=0):
    """polynomial of the length of a collection / slice term"""
    if depth > 60:
        raise NoLen('depth')
    if t.tag == 'mut':
        for e in t[2]:
            if e.tag == 'ev' and e[1] == 'call' and e[2].split('::')[-1] in ('push', 'pop', 'extend', 'extend_from_slice', 'append', 'truncate', 'resize', 'insert', 'remove', 'clear', 'drain', 'retain'):
                raise NoLen('length-changing event %s' % e[2].split('::')[-1])
        return clen(t[1], depth + 1)
    if t.tag == 'via':
        return clen(t[2], depth + 1)
    k = t.tag
    if k == 'repeatv':
        n = t[2]
        if isinstance(n, (int, str)) and str(n).isdigit():
            return const(int(n))
        return ival(n, depth + 1)
    if k == 'call' and t[1].split('::')[-1] == 'from_elem' and len(t[2]) == 2:
        return ival(t[2][1], depth + 1)
    if k == 'array':
        return const(len(t.args))
    if k == 'elem':
        src = _strip(t[1])
        if src.tag == 'adapt' and src[1] in ('chunks_exact', 'chunks_exact_mut') and len(src.args) >= 3:
            return ival(src[3], depth + 1)
    if k == 'field' and t[1] in ('0', '1'):
        src = _strip(t[2])
        if src.tag == 'adapt' and src[1] in ('split_at', 'split_at_mut', 'split_at_checked', 'split_at_mut_checked') and len(src.args) >= 3:
            n = ival(src[3], depth + 1)
            return n if t[1] == '0' else padd(clen(src[2], depth + 1), n, -1)
    if k == 'elemat':
        rb = range_bounds(t[2], t[1], depth + 1)
        if rb is not None:
            return padd(rb[1], rb[0], -1)
    if k == 'const' and isinstance(t[1], (bytes, bytearray, str)):
        return const(len(t[1]))
    if k == 'field' and t[1].isdigit() and _strip(t[2]).tag == 'elem' and _strip(_strip(t[2])[1]).tag == 'array':
        # component of an element of a literal array of tuples: the same length for every element, or not a length
        arr = _strip(_strip(t[2])[1])
        ls = set()
        for e_ in arr.args:
            e0 = _strip(e_)
            if e0.tag != 'tuple' or int(t[1]) >= len(e0.args):
                raise NoLen('array element')
            p_ = clen(e0.args[int(t[1])], depth + 1)
            ls.add(tuple(sorted(p_.items())))
        if len(ls) == 1:
            return dict(ls.pop())
        raise NoLen('elements of different lengths')
    if k == 'call' and t[1].split('::')[-1] in ('to_vec', 'to_owned', 'into_vec', 'as_slice', 'as_ref', 'deref', 'borrow', 'as_mut', 'deref_mut', 'as_bytes_slice') and len(t[2]) == 1:
        return clen(t[2][0], depth + 1)
    if k == 'call' and ENGINE is not None and t[1] in ENGINE.facts.fn and depth < 20:
        # a crate helper returning a collection: its (success) value
        t1 = ENGINE.expand(t)
        if t1 is not t:
            return clen(t1, depth + 1)
    if k == 'call':
        m = re.search(r'<impl (u|i)(8|16|32|64|128)>::to_(le|be|ne)_bytes$', t[1])
        if m:
            return const(int(m.group(2)) // 8)
        if t[1].endswith('Scalar::as_bytes') or t[1].endswith('Scalar::to_bytes') or t[1].endswith('as_fixed_bytes'):
            return const(32)
    if k in ('param', 'field', 'elem', 'elemat', 'upvar', 'call'):
        return atom('len(%s)' % canon(t))
    raise NoLen('collection ' + k)


def range_bounds(r, base, depth=0):
    """(lo, hi) polynomials of the half-open index range a range term selects from `base`, or None when `r` is not a range"""
    r = _strip(r)
    if r.tag == 'range':
        lo = ival(r[1], depth + 1)
        hi = clen(base, depth + 1) if (r[2].tag == 'const' and r[2][1] is None) else ival(r[2], depth + 1)
        return lo, hi
    if r.tag == 'adt' and r[2]:
        nm = r[1].split('::')[-1]
        f = {k_: v for k_, v in r[2]}
        if nm == 'RangeTo' and 'end' in f:
            return const(0), ival(f['end'], depth + 1)
        if nm == 'RangeToInclusive' and 'end' in f:
            return const(0), padd(ival(f['end'], depth + 1), const(1))
        if nm == 'RangeFrom' and 'start' in f:
            return ival(f['start'], depth + 1), clen(base, depth + 1)
        if nm == 'Range' and 'start' in f and 'end' in f:
            return ival(f['start'], depth + 1), ival(f['end'], depth + 1)
    if r.tag == 'adt' and r[1].endswith('RangeFull::RangeFull'):
        return const(0), clen(base, depth + 1)
    if r.tag == 'call' and r[1].endswith('RangeInclusive::<Idx>::new') and len(r[2]) == 2:
        return ival(r[2][0], depth + 1), padd(ival(r[2][1], depth + 1), const(1))
    return None


def cvals(t, depth=0):
    """the finite set of values an integer term can take when it is built from constants, +, -, * and phi; None otherwise"""
    if depth > 40:
        return None
    t = _strip(t)
    k = t.tag
    if k == 'const' and isinstance(t[1], int) and not isinstance(t[1], bool):
        return {t[1]}
    if k == 'cast':
        return cvals(t[2], depth + 1)
    if k == 'phi':
        out = set()
        for a in t.args:
            v = cvals(a, depth + 1)
            if v is None:
                return None
            out |= v
        return out if len(out) <= 64 else None
    if k == 'binop' and t[1] in ('Add', 'Sub', 'Mul'):
        a, b = cvals(t[2], depth + 1), cvals(t[3], depth + 1)
        if a is None or b is None:
            return None
        out = {(x + y if t[1] == 'Add' else x - y if t[1] == 'Sub' else x * y) for x in a for y in b}
        return out if len(out) <= 64 else None
    if k == 'tuple' and len(t.args) == 2 and t.args[1].tag == 'opaque':
        return cvals(t.args[0], depth + 1)
    if k == 'field' and t[1] == '0' and _strip(t[2]).tag == 'tuple':
        return cvals(_strip(t[2]).args[0], depth + 1)
    if k == 'call' and t[1].split('::')[-1] == 'len' and len(t[2]) == 1:
        try:
            p = clen(t[2][0], depth + 1)
        except NoLen:
            return None
        return {p.get((), 0)} if is_const(p) else None
    return None


def is_const(p):
    return set(p) <= {()}


def ge0(p):
    """sufficient test for p >= 0 when every atom is a non-negative quantity: no negative coefficient"""
    return all(c >= 0 for c in p.values())


def sum_over(eng, coll, closure):
    """sum(map(coll, closure)) when the closure's value does not depend on the element after the type invariants: len(coll) * value"""
    from bpsa.terms import mk_elem, T, walk
    el = mk_elem(eng, coll)
    v = ival(eng.apply(closure, (el,)))
    # element-independent?  no atom may mention the element
    ce = canon(el)
    for mono in v:
        for a in mono:
            if ce in a:
                raise NoLen('summand depends on the element: %s' % a)
    return pmul(clen(coll), v)


def icount(it, depth=0):
    """polynomial of the number of items an iterator term yields"""
    t = it
    while t.tag == 'mut':
        t = t[1]
    if t.tag == 'adapt' and t[1] in ('chunks_exact', 'chunks_exact_mut') and len(t.args) >= 3:
        total, c = clen(t[2], depth + 1), ival(t[3], depth + 1)
        if set(c) != {()}:
            # division by a symbolic chunk size: exact only if the total is that size times something
            for m, co in c.items():
                pass
            q = pdiv(total, c)
            if q is None:
                raise NoLen('the buffer length is not a multiple of the chunk size')
            return q
        cc = c[()]
        if cc == 0 or any(co % cc for co in total.values()):
            raise NoLen('the buffer length is not a multiple of the chunk size')
        return {m: co // cc for m, co in total.items()}
    if t.tag in ('map', 'enumerate'):
        return icount(t[1], depth + 1)
    if t.tag == 'range' and not (t[2].tag == 'const' and t[2][1] is None):
        return padd(ival(t[2], depth + 1), ival(t[1], depth + 1), -1)
    if t.tag == 'adapt' and t[1] == 'take' and len(t.args) >= 3:
        return ival(t[3], depth + 1)           # an upper bound, which is what a capacity argument needs
    if t.tag == 'adapt' and t[1] in ('copied', 'cloned', 'rev', 'by_ref'):
        return icount(t[2], depth + 1)
    return clen(it, depth + 1)


def pdiv(a, b):
    """exact quotient a / b of polynomials when b divides a with a polynomial quotient found by trying a = b * q for q linear in
    the atoms of a; None otherwise (only the shapes that occur: b = record size, a = record size * count)"""
    # try: a == b * (single atom or constant)
    atoms = {x for m in a for x in m}
    cands = [const(1)] + [{(x,): 1} for x in sorted(atoms)]
    for q in cands:
        if pmul(b, q) == a:
            return q
    return None
