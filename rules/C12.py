"""C12 Proof validity does not depend on generator capacity (structural).

R-C12-1  must-not taint: party_capacity and gens_capacity reach only loop bounds / take counts in BulletproofGens::new, never the label
         bytes or the chain seeds; chains are consumed as prefixes
R-C12-2  padding and table have one origin (prover and verifier)      [= R-C01-2]; the padding count, read as a polynomial over bit
         length, aggregation factor and capacity (helper calls looked through), is 2*bits*capacity - 2*bits*aggregation factor
R-C12-3  the prefix comparisons of the vector generators are made against the selected largest member and zip the two iterators directly
R-C12-5  the capacity-dependent code (consistency function, generator iterators, padding) has no undischarged panic site
R-C12-4  must-not taint: nothing absorbed into the proof transcript depends on the aggregation capacity of the parameters object
         (a proof made under one capacity must replay under another)
"""
from bpsa.facts import callee_decl, callee_name
from bpsa.normal import canon
from bpsa.terms import walk, short, TERM_IDX, is_term
from . import msm
from .C03 import prefix_guards

LEVEL_TEXT = ('Static analysis (must-not dependence of generator labels on capacities; one-origin dataflow rule for table and padding at both mixed MSMs; '
              'guard normal forms of the prefix comparisons). Decides that generator j of party i is derived independently of the requested capacities and that '
              'prover and verifier size their static scalar vectors from the same statement whose table they use, padded by exactly the number of table entries the proof does not use. Does not decide numeric equality of '
              'verification results across capacities. Also: the verifier core rejects on nothing that mentions the capacity of the parameters '
              '(R-C01-6), and the redundant comparison of vector generators across batch members, if present, is a prefix comparison.')
ASSUMPTIONS = ['an `enumerate` index is independent of the bound of the enumerated range', 'Iterator::take yields a prefix']
RULE_TEXT = 'one obligation per label sink, per MSM argument relation, per prefix guard; non-trivial = decided from a term'


def depends_on_param(t, body, idxs):
    """does term t depend on one of the parameters, ignoring enumerate/range *indices* (whose values do not depend on the bound)?"""
    seen = set()
    stack = [t]
    while stack:
        x = stack.pop()
        if is_term(x):
            if x.id in seen:
                continue
            seen.add(x.id)
            if x.tag == 'index':
                continue
            if x.tag == 'param' and x[1] == body.key and x[2] in idxs:
                return True
            stack.extend(x.args)
        elif isinstance(x, tuple):
            stack.extend(x)
    return False


def run(ctx):
    rep = ctx.rep
    new = ctx.fn('BulletproofGens::<P>::new', 'R-C12-1')
    if new is not None:
        # chain constructions in the constructor or a private helper of it, labels in the constructor's vocabulary
        chains = ctx.flat_calls(new, lambda n, t: n.endswith('GeneratorsChain::<P>::new'))
        rep.floor('R-C12-1', 'chain seeds', len(chains), 2)
        for n, (fr, bb, t, a) in enumerate(chains):
            lab = a[0]
            dep = depends_on_param(lab, new, {1, 2})
            rep.check(not dep, 'R-C12-1', 'R-C12-1/label/%d' % n, 'chain label %d does not depend on gens_capacity or party_capacity: %s' % (n, short(lab, 120)),
                      'chain label %d depends on a capacity parameter: %s' % (n, short(lab, 200)), ctx.where(fr.body, bb))
        # positive control: the capacities do reach the take counts / loop bounds
        uses = 0
        # (in the constructor itself, in private helpers of it and in the closures it hands to iterator consumers; arguments lifted
        # into the constructor's vocabulary)
        for (fr, bb, t, a_) in ctx.flat_calls(new, lambda n, t: callee_decl(t) in ('std::iter::Iterator::take', 'std::iter::Iterator::map')):
            if any(depends_on_param(a, new, {1, 2}) for a in a_):
                uses += 1
        rep.floor('R-C12-1', 'capacity uses as extents (positive control)', uses, 3)
        # chains consumed as prefixes only
        for bb, t in ctx.calls(new):
            if callee_decl(t) == 'std::iter::Extend::extend':
                a = ctx.args(new, bb)[1]
                ads = ctx.adapters(a)
                if any(x.tag == 'call' and x[1].endswith('GeneratorsChain::<P>::new') for x in walk(ctx.eng.expand(a, stop={c[2] and callee_name(c[2]) for c in chains}))):
                    rep.check(ads == ['take'], 'R-C12-1', 'R-C12-1/prefix/%d' % bb, 'the chain is consumed as a prefix (take only)', 'the chain is consumed through %s' % ads, ctx.where(new, bb))
    # aggregated iterator hands out generator (party, index) by position, independent of capacity: n, m only bound the walk
    # ---- R-C12-2
    p = ctx.fn('RangeProof::<P>::prove_with_rng', 'R-C12-2')
    if p is not None:
        res = msm.check_one_origin(ctx, 'R-C12-2', p, 'prover')
        if res:
            st = res[0]['statement']
            rep.check(st is not None and st.tag == 'param' and 'RangeStatement' in p.local_ty(st[2]), 'R-C12-2', 'R-C12-2/prover/statement', 'table and padding come from the statement parameter',
                      'table/padding statement is %s' % (short(st, 80) if st is not None else None), ctx.where(p, res[0]['bb']))
            # static vectors are sized by bits * |commitments| of the same statement
            static = res[0]['static']
            caps = [x for x in walk(static) if x.tag == 'call' and x[1].endswith('with_capacity')]
            ok = bool(caps) and all(any(y.tag == 'field' and y[1] == 'gens_capacity' for y in walk(c)) and any(y.tag == 'field' and y[1] == 'commitments' for y in walk(c)) for c in caps)
            rep.check(ok, 'R-C12-2', 'R-C12-2/prover/vector-length', 'the bit vectors are sized bits * |commitments| of that statement', 'bit vectors are sized %s' % [short(c, 80) for c in caps], ctx.where(p, res[0]['bb']))
    msm.check_verify_msm(ctx, 'R-C12-2')
    # ---- R-C12-3
    cons = msm.consistency_fn(ctx, 'R-C12-3')
    if cons is not None:
        prefix_guards(ctx, 'R-C12-3', cons)

    # ---- R-C12-4 the transcript does not see the capacity
    from . import wire
    for role in ('prover', 'verifier'):
        body = wire.entry(ctx, role, 'R-C12-4')
        if body is None:
            continue
        evs = [e for e in wire.entry_trace(ctx, body) if e.kind in ('append', 'append_u64', 'rekey')]
        # (the prover's own messages A, L, R are points computed with the zero-padded table: the padding count mentions the capacity
        # but multiplies zeros; the rule concerns the parameters and statement data that are absorbed as they are)
        evs = [e for e in evs if e.data() is not None and not any(x.tag == 'call' and 'multiscalar_mul' in x[1] for x in walk(e.data()))]
        bad = [e for e in evs if any(x.tag == 'field' and x[1] == 'party_capacity' for x in walk(e.data()))]
        rep.floor('R-C12-4', '%s absorptions examined' % role, len(evs), 10)
        rep.check(not bad, 'R-C12-4', 'R-C12-4/%s/transcript' % role, 'none of the %d absorptions of the %s depends on the parameters\' aggregation capacity' % (len(evs), role),
                  'the %s absorbs data that depends on the aggregation capacity: %s' % (role, [((e.label() or b'?').decode('latin1'), short(e.data(), 80)) for e in bad[:3]]),
                  ctx.where(bad[0].body, bad[0].bb) if bad else ctx.where(body))

    # ---- R-C12-5 mixed capacities are refused or handled, never a panic: the capacity-dependent code (consistency function, generator
    # iterators and their accessors, padding) has no undischarged panic site (same enumeration as C16, rooted here)
    from . import panics
    roots5 = []
    if cons is not None:
        roots5.append(cons)
    for suffix in ('BulletproofGens::<P>::g_iter', 'BulletproofGens::<P>::h_iter', 'compute_generator_padding'):
        b_ = ctx.fn(suffix, 'R-C12-5', required=False)
        if b_ is not None:
            roots5.append(b_)
    if roots5:
        panics.check_panic_sites(ctx, 'R-C12-5', roots5, floor=0)
    # R-C12-4 (= R-C01-6): the verifier core rejects on nothing that depends on the capacity of the parameters (or on any other content
    # of a statement): a proof made under one capacity is not turned away under another
    from . import C01
    from .common import shared
    shared(ctx, lambda c: C01.verifier_content_tests(c, 'R-C01-6'), 'R-C01-6', 'R-C12-4')
