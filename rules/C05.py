"""C05 Statement binding (necessary structural conditions).

R-C05-1  every component is verdict-relevant: each proof field and each statement component has a must-executed use on the verdict path
         that flows into a transcript absorption preceding a challenge, an argument of the gate MSM, or an equality guard against the
         batch's reference member; points have both (absorbed and multiplied): the stored *compressed* view of a point is what the
         transcript absorbs (not a recompression of the other view, which would leave the stored field bound by nothing)
R-C05-2  whole use: each such use consumes the whole collection in order; zipped collections have a length-equality guard or a
         constructor invariant
R-C05-3  the proof's extension-degree tag is tied to d1 at the only two construction sites of the proof type (prover, decoder)
R-C05-4  the two views of one datum agree: compressed vectors are the whole, in-order compress() map of the uncompressed ones at their
         only construction sites
R-C05-5  rejection, not panic: shared with C16 (verification entry points)
R-C05-6  = R-C04-1..4: binding rests on the Fiat-Shamir schedule -- every component is absorbed, into the caller's transcript (its initial
         state is kept: nothing replaces or re-creates it), before the challenges that use it
R-C05-7  = R-C17-3 for RangeStatement::init: the statement the verifier reads stores the caller's generators, commitments and promises
"""
from bpsa.facts import callee_decl, callee_name
from bpsa.normal import canon
from bpsa.terms import ev_site, walk, short, TERM_IDX, mk_elem
from .common import guard_table, unconditional
from . import wire, msm, weights, C04
from .weights import strip

LEVEL_TEXT = ('Static whole-use dataflow analysis. Decides that no proof element and no statement field is ignored by the verifier: each one reaches the '
              'transcript (before a challenge that is used) and/or the final multiscalar check, whole and in order, with the length guards that make '
              'positional pairing meaningful, and that dual representations are built from one another. Does not decide inequality of group elements '
              'after an alteration.'
              " Also runs C04's transcript-schedule rules and the stored-field rule of the statement constructor.")
ASSUMPTIONS = ['a datum that enters the Fiat-Shamir transcript or the gate MSM with a non-zero random coefficient changes the verdict with overwhelming probability when altered']
RULE_TEXT = 'one obligation per component and use kind; non-trivial = decided from data / argument terms'

ALLOWED = {'chunks', 'chunks_mut'}


def _run(ctx):
    rep = ctx.rep
    g = weights.gate(ctx, 'R-C05-1')
    vb = wire.entry(ctx, 'verifier', 'R-C05-1')
    if g is None or vb is None:
        return
    v, gbb, args = g
    mine, other, allev = wire.proof_events(ctx, vb, 'R-C05-1')
    st_idx = [i for i in range(1, vb.argc + 1) if 'RangeStatement' in vb.local_ty(i)]
    pr_idx = [i for i in range(1, vb.argc + 1) if 'RangeProof<' in vb.local_ty(i)]
    cls = {}
    last_ch = max([i for i, e in enumerate(mine) if e.kind == 'challenge'] or [-1])
    for i, e in enumerate(mine):
        if e.kind == 'challenge' or i > last_ch:
            continue
        c, good, det = C04.classify(ctx, vb, 'verifier', e, st_idx, pr_idx, {})
        if c and good and (e.must or c.startswith('promise')):
            cls.setdefault(c, []).append(e)

    samplers = set(weights.rejection_samplers(ctx))
    from .C06 import challenge_functions
    cut_calls = samplers | challenge_functions(ctx)

    def direct_uses(a):
        """sub-terms of the values accumulated into a gate argument, not looking inside the batch weight or the challenges (a
        datum that merely influences those is bound through the transcript, which is judged separately)"""
        out = []
        seen = set()
        stack = []
        for x in walk(a):
            if x.tag == 'ev' and x[3]:
                stack.append(x[3][0])
        if a.tag != 'mut':
            stack.append(a)
        while stack:
            x = stack.pop()
            if not hasattr(x, 'tag'):
                if isinstance(x, tuple):
                    stack.extend(x)
                continue
            if x.id in seen:
                continue
            seen.add(x.id)
            if x.tag == 'call' and x[1] in cut_calls:
                continue
            if x.tag == 'call' and x[1] in ctx.facts.fn and x[1] not in cut_calls:
                stack.append(ctx.eng.return_term(ctx.facts.fn[x[1]]))      # crate-local helper (e.g. decompression of L / R)
            out.append(x)
            stack.extend(x.args)
        return out

    def in_gate(field, arg_idx, need_elem):
        """(present, whole, offending adapters): field occurs directly in the values fed into the gate argument(s)"""
        present, whole, bads = False, False, []
        for ai in arg_idx:
            us = direct_uses(args[ai])
            hits = [x for x in us if x.tag == 'field' and x[1] == field]
            if not hits:
                continue
            present = True
            bad = [x for x in us if x.tag in ('adapt', 'via') and x[1] not in ALLOWED and directly_wraps(x, field)]
            el = (not need_elem) or any(x.tag == 'elem' and strip(x[1]).tag == 'field' and strip(x[1])[1] == field for x in us) \
                or any(x.tag == 'map' and strip(x[1]).tag == 'field' and strip(x[1])[1] == field for x in us) \
                or any(x.tag == 'ev' and x[2].split('::')[-1] in ('extend', 'extend_from_slice') and x[3] and strip(x[3][0]).tag == 'field' and strip(x[3][0])[1] == field for x in walk(args[ai]))
            if not bad and el:
                whole = True
            bads.extend(x[1] for x in bad)
        return present, whole, bads

    # ---- proof components
    for f, kinds in (('a', 'point'), ('a1', 'point'), ('b', 'point'), ('li', 'points'), ('ri', 'points'), ('r1', 'scalar'), ('s1', 'scalar'), ('d1', 'scalars')):
        if kinds.startswith('point'):
            absorbed = bool(cls.get(f))
            rep.check(absorbed, 'R-C05-1', 'R-C05-1/proof.%s/transcript' % f, 'proof.%s is absorbed into the transcript before a challenge (whole)' % f,
                      'proof.%s is not absorbed (whole, on every path) before the last challenge' % f, ctx.where(vb))
            present, whole, bad = in_gate(f, [3], kinds == 'points')
            rep.check(present and whole, 'R-C05-1', 'R-C05-1/proof.%s/gate' % f, 'proof.%s (decompressed) is a dynamic point of the gate MSM (whole)' % f,
                      'proof.%s does not reach the gate MSM whole (present=%s, adapters=%s)' % (f, present, bad), ctx.where(v, gbb))
        else:
            present, whole, bad = in_gate(f, [1, 2], kinds == 'scalars')
            rep.check(present and whole, 'R-C05-1', 'R-C05-1/proof.%s/gate' % f, 'proof.%s enters the scalars of the gate MSM (whole)' % f,
                      'proof.%s does not enter the gate scalars whole (present=%s, adapters=%s)' % (f, present, bad), ctx.where(v, gbb))
    # ---- statement components
    for c in ('h_base', 'g_bases', 'bit_length', 'extension_degree', 'aggregation', 'commitments', 'promise', 'promise-none'):
        rep.check(bool(cls.get(c)), 'R-C05-1', 'R-C05-1/statement.%s/transcript' % c, 'statement datum `%s` is absorbed into the transcript before a challenge' % c,
                  'statement datum `%s` is not absorbed (whole, on every path)' % c, ctx.where(vb))
    # the statement carries two views of its points, both public fields: the decompressed one is bound by the gate (below), the compressed
    # one only by the transcript -- which must therefore absorb the stored compressed field itself, not a recompression of the other view
    for cf, cname in (('h_base_compressed', 'h_base'), ('g_base_compressed_vec', 'g_bases'), ('commitments_compressed', 'commitments')):
        evs_c = cls.get(cname, [])
        okc = any(cf in ctx.fields_of(e.data()) for e in evs_c)
        rep.check(okc, 'R-C05-1', 'R-C05-1/statement.%s/transcript-field' % cf, 'the stored field `%s` is what the transcript absorbs as `%s`' % (cf, cname),
                  'the transcript absorbs %s as `%s`: the stored field `%s` is bound by nothing, altering it alone goes unnoticed' % (
                      [short(e.data(), 80) for e in evs_c][:2], cname, cf), ctx.where(vb))
    for f, need_elem, ai in (('commitments', True, [3]), ('g_base_vec', False, [3]), ('h_base', False, [3]), ('minimum_value_promises', True, [2]), ('precomp', False, [0])):
        present, whole, bad = in_gate(f, ai, need_elem)
        rep.check(present and whole, 'R-C05-1', 'R-C05-1/statement.%s/gate' % f, 'statement component %s enters the gate MSM (whole)' % f,
                  'statement component %s does not enter the gate MSM whole (present=%s, adapters=%s)' % (f, present, bad), ctx.where(v, gbb))
    # bit length is used in the gate scalars (2^bits - 1, d vector length)
    present, _, _ = in_gate('gens_capacity', [1, 2], False)
    rep.check(present, 'R-C05-1', 'R-C05-1/statement.bit_length/gate', 'the bit length enters the gate scalars', 'the bit length does not enter the gate scalars', ctx.where(v, gbb))

    # ---- R-C05-2 length-equality obligations for zipped collections
    rows = guard_table(ctx, v)
    atoms = [a for r in rows for a in r['atoms'] if r['eff'] != 'bypass']
    from . import msm_pairs
    lr = any({next(iter(fa)) if len(fa) == 1 else None, next(iter(fb)) if len(fb) == 1 else None} == {'len(each(p3).li)', 'len(each(p3).ri)'} and r['eff'] != 'bypass'
             for (r, fa, fb) in msm_pairs.len_eq_guards(ctx, v))
    rep.check(lr, 'R-C05-2', 'R-C05-2/len-L-eq-len-R', 'L and R are zipped under a dominating len(L) == len(R) guard', 'no guard makes zip(L, R) exhaustive', ctx.where(v))
    cons = msm.consistency_fn(ctx, 'R-C05-2')
    if cons is not None:
        crow = guard_table(ctx, cons)
        def aligned(r, a):
            fa = [x[1] for x in r['ctx'] if x[0] == 'forall' and 'p1' in x[1]]
            ctx_skip = any('skip(' in f for f in fa)
            whole = any(f.startswith('skip(') for f in fa) or not ctx_skip
            sides = [x for x in a[2:4] if 'each(p2)' in x]
            return whole and unconditional(r) and all(('<skip>' in x) == ctx_skip for x in sides)
        d1g = [a for r in crow for a in r['atoms'] if a[0] == 'cmp' and a[1] == 'Eq' and 'd1' in a[2] + a[3] and 'extension_degree' in a[2] + a[3] and aligned(r, a)]
        rep.check(len(d1g) >= 2, 'R-C05-2', 'R-C05-2/len-d1', 'd1 is zipped with the blinding-generator scalars under len(d1) == extension degree guards (first and every other member, proof i paired with statement i)',
                  'only %d guard(s) tie len(d1) to the extension degree' % len(d1g), ctx.where(cons))
    init = ctx.fn('RangeStatement::<P>::init', 'R-C05-2')
    if init is not None:
        irow = guard_table(ctx, init)
        inv = any(a == ('cmp', 'Eq', 'len(p2)', 'len(p3)') for r in irow for a in r['atoms'] if r['eff'] == 'dom' and unconditional(r))
        rep.check(inv, 'R-C05-2', 'R-C05-2/promises-commitments', 'promises are paired with commitments under the constructor invariant |promises| == |commitments|',
                  'RangeStatement::init does not enforce |promises| == |commitments|', ctx.where(init))
        # ---- R-C05-4 dual views
        rt = ctx.eng.return_term(init)
        agg = [x for x in walk(rt) if x.tag == 'adt' and x[1].endswith('RangeStatement::RangeStatement')]
        if agg:
            f = dict(agg[0][2])
            cc = f.get('commitments_compressed')
            ok = False
            det = short(cc, 160) if cc is not None else None
            if cc is not None and cc.tag == 'mut':
                pushes = [e for e in cc[2] if e.tag == 'ev' and e[2].endswith('::push')]
                if len(pushes) == 1:
                    val = pushes[0][3][0]
                    pbb = pushes[0][4][0][1]
                    lps = ctx.enclosing_loops(init, pbb)
                    whole = bool(lps) and lps[-1].iter_term is not None and not ctx.shape_adapters(lps[-1].iter_term) and lps[-1].driver_only_exit and ctx.every_iteration(init, lps[-1], pbb)
                    src = strip(lps[-1].iter_term) if lps else None
                    ok = whole and src is not None and src.tag == 'param' and src[2] == 2 and canon(val) == 'compress(each(p2))' and strip(f.get('commitments')).tag == 'param' and strip(f.get('commitments'))[2] == 2
            if cc is not None and strip(cc).tag == 'map':
                # iterator form: commitments.iter().map(compress).collect()
                m = strip(cc)
                src = strip(m[1])
                ok = not ctx.shape_adapters(m[1]) and src.tag == 'param' and src[2] == 2 and canon(mk_elem(ctx.eng, m)) == 'compress(each(p2))' \
                    and strip(f.get('commitments')).tag == 'param' and strip(f.get('commitments'))[2] == 2
            rep.check(ok, 'R-C05-4', 'R-C05-4/commitments', 'commitments_compressed is the whole, in-order compress() map of the stored commitments', 'commitments_compressed is %s' % det, ctx.where(init))
    # Pedersen generators: compressed[i] = compress(point[i]) (R-C11-4) and the same prefix is handed out
    from . import C11
    C11.r4(ctx)

    # ---- R-C05-3 the tag is tied to d1
    nsite = 0
    for b in ctx.facts.fns():
        if b.impl_trait == 'std::clone::Clone':
            continue
        for blk in b.blocks:
            if blk['cleanup']:
                continue
            for si, s in enumerate(blk['stmts']):
                if s['k'] == 'assign' and s['rv']['k'] == 'aggregate' and s['rv']['kind'].get('path') == 'range_proof::RangeProof':
                    nsite += 1
                    fs = dict(zip(s['rv']['kind']['fields'], s['rv']['ops']))
                    tag = ctx.eng.operand(b, blk['i'], si, fs['extension_degree'])
                    d1 = ctx.eng.operand(b, blk['i'], si, fs['d1'])
                    rngs = generator_ranges(ctx.eng.expand(d1), ctx)
                    tag_x = ctx.eng.expand(tag)
                    ok = bool(rngs) and all(any(y is tag or y is tag_x for y in walk(r[2])) and r[1].tag == 'const' and r[1][1] == 0 for r in rngs)
                    fn = b.path.split('::')[-1]
                    rep.check(ok, 'R-C05-3', 'R-C05-3/%s' % fn, '%s builds d1 with exactly `tag` many components (0..tag) and stores that tag' % fn,
                              '%s: d1 ranges %s but the stored tag is %s' % (fn, [short(r, 60) for r in rngs], short(tag, 60)), ctx.where(b, blk['i']))
    rep.floor('R-C05-3', 'construction sites of the proof type', nsite, 2)
    # the verifier never reads the tag field (it relies on len(d1)): positive statement for the record
    reads = sum(1 for b in ctx.facts.reachable_from([vb]) for blk in b.blocks for s in blk['stmts'] if s['k'] == 'assign' and 'extension_degree' in str(s['rv']) and 'RangeProof' in str(s['rv']))
    rep.note('verifier reads of proof.extension_degree: %d' % reads)


def generator_ranges(t, ctx=None):
    """ranges that drive the element generation of a collection term: follows zip / map / phi / mut structure only; a vector
    created empty and filled by a push in a loop over a range is driven by that range"""
    out = []
    stack = [t]
    seen = set()
    while stack:
        x = stack.pop()
        if x.id in seen:
            continue
        seen.add(x.id)
        k = x.tag
        if k == 'range':
            out.append(x)
        elif k in ('zip', 'chain', 'interleave'):
            stack.extend([x[1], x[2]])
        elif k in ('map', 'enumerate', 'mut', 'adapt', 'via'):
            stack.append(x[2] if k in ('adapt', 'via') else x[1])
            if k == 'mut' and ctx is not None:
                for e in x[2]:
                    if e.tag == 'ev' and e[1] == 'call' and e[2].endswith('::push') and e[4]:
                        bkey, pbb = ev_site(e)
                        body = ctx.facts.by_key.get(bkey)
                        lps = ctx.enclosing_loops(body, pbb) if body is not None else []
                        if lps and lps[-1].iter_term is not None and lps[-1].driver_only_exit and ctx.every_iteration(body, lps[-1], pbb):
                            stack.append(lps[-1].iter_term)
        elif k == 'phi':
            stack.extend(x.args)
    return out


def directly_wraps(adapter, field):
    """adapter's iterator argument is (a clone / iter of) the field's collection itself, not something merely depending on it"""
    t = strip(adapter[2])
    while t.tag in ('enumerate', 'map', 'adapt', 'via', 'elem'):
        t = strip(t[2] if t.tag in ('adapt', 'via') else t[1])
    return t.tag == 'field' and t[1] == field

def run(ctx):
    _run(ctx)
    from . import C04, C17
    from .common import shared
    shared(ctx, C04.run, 'R-C04', 'R-C05-6')
    shared(ctx, lambda c: C17.stored_fields(c, only={'RangeStatement::<P>::init': ['generators', 'commitments', 'minimum_value_promises']}), 'R-C17-3', 'R-C05-7')
    shared(ctx, lambda c: C17.copies_are_complete(c, only=('RangeStatement', 'RangeParameters', 'PedersenGens', 'BulletproofGens', 'RangeProof')), 'R-C17-3', 'R-C05-7')


def thorough(rep):
    from . import witness
    witness.run(rep, 'C05', ['c05'])
