"""Sink-based discovery of the prover's blinding-nonce roles (shared by C13 and C09).

Roles are found from their *sinks*: the scalar vectors paired positionally with the blinding generators (g_bases) in the
multiscalar multiplications / accumulation loops that build the five proof points A, L, R, A1, B."""
from bpsa.facts import callee_decl, callee_name
from bpsa.normal import canon
from bpsa.terms import walk, short, TERM_IDX, T, mk_elem


def strip(t):
    while t.tag == 'mut':
        t = t[1]
    return t


_NF = {}


def nonce_fns(ctx):
    """crate functions (not closures) that derive a scalar from a keyed Blake2b MAC with personalisation: the seed-nonce
    derivation, found structurally (no name anchor)"""
    k = id(ctx.facts)
    if k not in _NF:
        _NF.clear()
        out = set()
        sites = ctx.facts.callers_decl.get('blake2::Blake2bMac::<OutSize>::new_with_salt_and_personal', [])
        for (b, bb, t) in sites:
            root = ctx.facts.root_fn(b)
            if root is not None and 'Scalar' in root.locals[0]['ty']:
                out.add(root.path)
        _NF[k] = out
    return _NF[k]


def flatten_chain(t):
    t0 = strip(t)
    if t0.tag == 'chain':
        return flatten_chain(t0[1]) + flatten_chain(t0[2])
    return [t]


def mentions(t, field):
    return any(x.tag == 'field' and x[1] == field for x in walk(t))


def is_blinding_gens(t):
    return (mentions(t, 'g_base_vec')) and not mentions(t, 'g_vec') and not mentions(t, 'h_vec') and not mentions(t, 'h_base')


class Role(object):
    def __init__(self, name, vec, where, point):
        self.name = name          # provisional name from the sink: A / L / R / A1 / B
        self.vec = vec            # term of the scalar vector
        self.where = where
        self.point = point
        self.alts = []            # [{'kind': 'nonce'|'rng'|'other', 'label':.., 'j':.., 'k':.., 'site':.., 'per_element': bool}]


def alternatives(t):
    if t.tag == 'mut' and t[1].tag == 'phi':
        t = t[1]
    if t.tag == 'phi':
        out = []
        for x in t.args:
            out.extend(alternatives(x))
        return out
    return [t]


def analyse_generator(ctx, prover, alt, samplers):
    """classify one alternative of a role vector: how is each element produced?"""
    eng = ctx.eng
    info = {'kind': 'other', 'label': None, 'j': None, 'k': None, 'site': None, 'per_element': False, 'term': alt}
    a = strip(alt)
    el = None
    if a.tag == 'map' and strip(a[1]).tag == 'range' and a[2].tag == 'closure':
        info['per_element'] = not ctx.shape_adapters(a[1])
        info['range'] = canon(strip(a[1]))
        el = eng.apply(a[2], (T('index', strip(a[1])),))
        info['site'] = (a[2][1], tuple(a[2][3]) if len(a[2].args) > 2 else ())
    elif a.tag == 'repeatv' and len(a.args) >= 3 and a[3] == 'each-call':
        # `repeat_with(|| draw()).take(n).collect()`: n elements, each from its own call of the closure
        info['per_element'] = True
        info['range'] = canon(T('range', T('const', 0), strip(a[2]) if hasattr(a[2], 'tag') else T('const', a[2])))
        el = a[1]
        info['site'] = 'repeat_with'
    elif alt.tag == 'mut' and a.tag == 'call' and a[1].split('::')[-1] in ('with_capacity', 'new'):
        pushes = [e for e in alt[2] if e.tag == 'ev' and e[2].endswith('::push')]
        fills = [e for e in alt[2] if e.tag == 'ev' and e[2].split('::')[-1] in ('extend', 'extend_from_slice', 'append', 'resize', 'insert')]
        if len(pushes) == 1 and not fills:
            # the push may sit in a private helper the vector was built by: its frame rewrites the loop bound into the prover's terms
            bkey, bb = pushes[0][4][-1]
            fr = next((f for f in ctx.frames(prover, stop=set(nonce_fns(ctx)) | set(samplers)) if f.body.key == bkey and tuple(f.site) == tuple(pushes[0][4][:-1])), None)
            pbody = fr.body if fr is not None else prover
            lps = ctx.enclosing_loops(pbody, bb)
            if lps and lps[-1].iter_term is not None and strip(lps[-1].iter_term).tag == 'range':
                itl = fr.lift(lps[-1].iter_term) if fr is not None else lps[-1].iter_term
                info['per_element'] = not ctx.shape_adapters(itl) and ctx.every_iteration(pbody, lps[-1], bb)
                info['range'] = canon(strip(itl))
            el = pushes[0][3][0]
            info['site'] = '%s@bb%d%s' % (pbody.path, bb, '' if len(pushes[0][4]) == 1 else '<-%s' % (tuple(pushes[0][4][:-1]),))
    if el is None:
        return [info]
    outs = []
    for e in alternatives(el):
        i2 = dict(info)
        i2['elem'] = e
        es = strip(e)
        if es.tag == 'call' and es[1] in nonce_fns(ctx):
            i2['kind'] = 'nonce'
            args = es[2]
            lab = strip(args[1])
            i2['label'] = lab[1] if lab.tag == 'const' else None
            i2['seed'] = args[0]
            i2['j'] = args[2]
            i2['k'] = args[3]
            i2['site'] = (i2['site'], es[3])
        elif es.tag == 'call' and es[1] in samplers:
            i2['kind'] = 'rng'
            i2['rng'] = es[2][0] if es[2] else None
            i2['site'] = (i2['site'], es[3])
        outs.append(i2)
    return outs


def discover(ctx, prover, rule):
    """[Role] for the blinding components of A, L, R, A1, B"""
    rep = ctx.rep
    eng = ctx.eng
    roles = []
    from . import msm, weights
    samplers = weights.rejection_samplers(ctx)
    # A: the mixed MSM
    sites = msm.msm_sites(ctx, prover)
    if sites:
        a = ctx.args(prover, sites[0][0])
        if is_blinding_gens(a[3]):
            roles.append(Role('A', a[2], ctx.where(prover, sites[0][0]), 'a'))
    # L, R: plain MSMs whose points include the blinding generators
    for bb, t in ctx.calls(prover, decl='curve25519_dalek::traits::VartimeMultiscalarMul::vartime_multiscalar_mul'):
        a = ctx.args(prover, bb)
        sc, pt = flatten_chain(a[0]), flatten_chain(a[1])
        for i, p in enumerate(pt):
            if is_blinding_gens(p) and i < len(sc) and len(sc) == len(pt):
                # which proof vector receives this point?
                roles.append(Role('LR@%d' % bb, sc[i], ctx.where(prover, bb), None))
                roles[-1].bb = bb
    # A1, B: accumulation loops over zip(g_bases, vec)
    for h, lp in sorted(ctx.loops(prover).items()):
        it = lp.iter_term
        if it is None:
            continue
        s = strip(it)
        if s.tag == 'zip' and is_blinding_gens(s[1]) and not ctx.shape_adapters(it):
            # the loop body adds g * x to a point accumulator
            evs = [e for e in eng.bx(prover).events() if e['bb'] in lp.blocks and e['decl'].endswith('add_assign')]
            if evs:
                r = Role('ACC@%d' % h, s[2], ctx.where(prover, h), None)
                r.acc_roots = evs[0]['roots']
                r.bb = evs[0]['bb']
                roles.append(r)
            else:
                # .. or computes `acc = acc + g * x` with acc carried around the loop (the accumulator of a fold)
                for bb_, t_ in ctx.calls(prover, decl='std::ops::Add::add'):
                    if bb_ not in lp.blocks:
                        continue
                    lvs = [strip(a_) for a_ in ctx.args(prover, bb_)]
                    lvs = [a_ for a_ in lvs if a_.tag == 'lv' and a_[3] == h]
                    if lvs:
                        r = Role('ACC@%d' % h, s[2], ctx.where(prover, h), None)
                        r.acc_roots = frozenset([('L', lvs[0][2])])
                        r.acc_lv = (lvs[0][2], h)
                        r.bb = bb_
                        roles.append(r)
                        break
    stop = set(nonce_fns(ctx)) | set(samplers)
    for r in roles:
        # a vector produced by a private helper is analysed as what the helper returns
        r.vec_expanded = eng.expand(r.vec, stop=stop)
        for alt in alternatives(r.vec_expanded):
            r.alts.extend(analyse_generator(ctx, prover, alt if alt.tag != 'phi' else alt, samplers))
    return roles, samplers
