"""C19 Wire compatibility with the released 0.4.0 protocol (constants, primitives, order).

R-C19-1  transcript schedule incl. label bytes, event kinds (validated / plain append, u64 / bytes), order and loop sharing (which
         absorptions are interleaved per element, which come one whole sequence after the other) == frozen table
R-C19-2  nonce derivation = Blake2bMac512::new_with_salt_and_personal(key, salt = [], persona = label) with
         key = 0x00 || seed(32) || ['j' || LE32(j)] || ['k' || LE32(k)] in that order, output through from_bytes_mod_order_wide;
         labels alpha dL dR d eta
R-C19-3  generator constants and primitives (rules of C11)
R-C19-4  byte layout of proofs and element size 32, degree byte first (rules of C15 R-C15-1..4)
R-C19-5  challenge = from_bytes_mod_order_wide of 64 challenge bytes
The frozen table is the pinned tree's own (crate version 0.4.0): a change of any entry is, by definition, a wire change.
"""
from bpsa.facts import callee_decl, callee_name
from bpsa.normal import canon
from .ilen import NoLen as ilen_NoLen
from bpsa.terms import walk, short, TERM_IDX
from . import wire, C11, C15, roles as R, weights

LEVEL_TEXT = ('Static analysis (boundary-event trace, container-order model, evaluated constants). Decides that every wire-visible constant, '
              'primitive, label, absorption order, loop sharing of absorptions and byte layout equals the frozen 0.4.0 table. Does not decide that recorded proofs verify or that an '
              'independent implementation interoperates (behaviour of two programs).')
ASSUMPTIONS = ['the frozen table below is the released 0.4.0 protocol (taken from the pinned tree)', 'dependency primitives (merlin, blake2, sha3, dalek) are unchanged (Cargo.lock is part of the facts hash)']
RULE_TEXT = 'one obligation per table entry; non-trivial = compared against a constant / term extracted from MIR'


def strip(t):
    while t.tag == 'mut':
        t = t[1]
    return t


def path_layout(ctx, n, bb):
    """[(scenario, runs, expected runs)] of the MAC key on every path from the entry of the nonce function to the MAC call, or None when
    the function is not loop-free / a write is not understood (the caller then falls back to the sequence-of-appends form)"""
    from bpsa import paths
    from . import bytelayout
    vs = paths.views(ctx.facts, ctx.eng, n, bb)
    if not vs:
        return None
    out = []
    for pv in vs:
        taken = {}
        for blk, val in pv.taken:
            t = n.block[blk]['term']
            c = canon(ctx.eng.operand(n, blk, TERM_IDX, t['discr']))
            taken[c] = val
        have = {}
        for nm, p_ in (('j', 3), ('k', 4)):
            v = taken.get('discr(p%d)' % p_)
            if v is None:
                return None             # the path does not test the optional index: not the idiom this rule reads
            have[nm] = (v == '1')

        def recv(site, pv=pv):
            if not site or site[0] != n.key:
                return None
            a_ = pv.args(site[1])
            return a_[0] if a_ else None
        lay = bytelayout.Layout(recv, expand=lambda t_: ctx.eng.expand(t_))
        try:
            key = pv.args(bb)[0]
            cells = lay.buf(key)
        except (bytelayout.Unknown, ilen_NoLen) as e:
            ctx.rep.note('nonce key layout not decided per path (%s); falling back to the append-sequence form' % e)
            return None
        got = [g.replace('encode_usize(', 'LE32(').replace('to_le_bytes(try_from(', 'LE32((') for g in bytelayout.runs(cells)]
        got = [g.replace('LE32((', 'LE32(')[:-1] if g.startswith('LE32((') else g for g in got]
        want = [repr(b'\x00'), 'as_bytes(p1)']
        if have['j']:
            want += [repr(b'j'), 'LE32(p3)']
        if have['k']:
            want += [repr(b'k'), 'LE32(p4)']
        out.append(('j=%s,k=%s' % (have['j'], have['k']), got, want))
    return out


def nonce_derivation(ctx):
    """R-C19-2: the MAC call, its key layout, index encoding and output reduction (shared with C10: recovery is keyed by the whole seed)"""
    rep = ctx.rep
    nb = [ctx.facts.fn[x] for x in sorted(R.nonce_fns(ctx))]
    if not nb:
        rep.anchor_missing('R-C19-2', 'R-C19-2/nonce-fn', 'no function constructs a Blake2b MAC with salt and personalisation')
    else:
        n = nb[0]
        rep.saw_body(n)
        mac = [(bb, t) for bb, t in ctx.calls(n) if callee_decl(t) == 'blake2::Blake2bMac::<OutSize>::new_with_salt_and_personal']
        if len(mac) != 1:
            rep.anchor_missing('R-C19-2', 'R-C19-2/mac', 'expected one Blake2bMac::new_with_salt_and_personal call, found %d' % len(mac))
        else:
            bb, t = mac[0]
            a = ctx.args(n, bb)
            outsz = ' '.join(t['func'].get('gargs', []))
            import re
            bits = ''.join(x[1] for x in re.findall(r'B[01]', outsz))
            is512 = 'U64' in outsz or (bits and int(bits, 2) == 64)
            salt = strip(a[1])
            persona = strip(a[2])
            rep.check(salt.tag == 'array' and len(salt.args) == 0, 'R-C19-2', 'R-C19-2/salt-empty', 'the salt is empty', 'salt is %s' % short(salt, 60), ctx.where(n, bb))
            rep.check(persona.tag == 'param' and persona[2] == 2, 'R-C19-2', 'R-C19-2/persona-is-label', 'the personalisation is the label', 'personalisation is %s' % short(persona, 60), ctx.where(n, bb))
            rep.check(is512, 'R-C19-2', 'R-C19-2/blake2b-512', 'the MAC is Blake2b with 64-byte output', 'MAC output size: %s' % outsz, ctx.where(n, bb))
            key = a[0]
            decided = path_layout(ctx, n, bb)
            if decided is not None:
                bad = [(sc, got, want) for sc, got, want in decided if got != want]
                rep.check(not bad, 'R-C19-2', 'R-C19-2/key-layout', 'key = 0x00 || seed || [if j: "j" || LE32(j)] || [if k: "k" || LE32(k)] on each of the %d paths to the MAC (byte layout decided per path)' % len(decided),
                          'key layout: %s' % ['%s: %s (expected %s)' % b for b in bad], ctx.where(n, bb))
                rep.check(len(decided) == 4, 'R-C19-2', 'R-C19-2/key-starts-empty', 'the four combinations of optional indices each have one path and nothing else is in the key',
                          '%d paths reach the MAC, expected the four combinations of optional indices' % len(decided), ctx.where(n, bb))
            if decided is None:
                evs = [e for e in (key[2] if key.tag == 'mut' else ()) if e.tag == 'ev']
                seq = []
                raw = []
                for e in evs:
                    op = e[2].split('::')[-1]
                    v = e[3][0] if e[3] else None
                    site_bb = e[4][0][1]
                    raw.append((op, v, [(cnd, arms) for (sw, cnd, arms, tg) in ctx.path_conditions(n, site_bb) if cnd.tag == 'discr']))
                # a loop over a literal array of k items is the k-fold repetition of its body, item by item
                arr_elems = {}
                for op, v, cds in raw:
                    for t0 in [v] + [c for c, _ in cds]:
                        for x in (walk(t0) if t0 is not None else ()):
                            if x.tag == 'elem' and strip(x[1]).tag == 'array' and strip(x[1]).args:
                                arr_elems[x.id] = x
                unrolled = []
                if len(arr_elems) == 1:
                    el = list(arr_elems.values())[0]
                    inloop = [any(y is el for t0 in [v] + [c for c, _ in cds] if t0 is not None for y in walk(t0)) for op, v, cds in raw]
                    first = inloop.index(True)
                    last = len(inloop) - 1 - inloop[::-1].index(True)
                    unrolled = raw[:first]
                    for item in strip(el[1]).args:
                        for op, v, cds in raw[first:last + 1]:
                            unrolled.append((op, ctx.eng.subst_term(v, el, item) if v is not None else None, [(ctx.eng.subst_term(c, el, item), a) for c, a in cds]))
                    unrolled += raw[last + 1:]
                    raw = unrolled
                for op, v, cds in raw:
                    c = canon(v) if v is not None else ''
                    if op == 'push' and c.isdigit():
                        # one pushed byte is the one-byte string
                        op, c = 'append', repr(bytes([int(c)]))
                    seq.append((op, c, tuple(canon(cnd) + str(arms) for cnd, arms in cds if cnd[1].tag == 'param')))
                want = [
                    ('append', "b'\\x00'", ()),
                    ('extend_from_slice', 'as_bytes(p1)', ()),
                    ('append', "b'j'", ("discr(p3)('1',)",)),
                    ('append', 'encode_usize(p3)', ("discr(p3)('1',)",)),
                    ('append', "b'k'", ("discr(p4)('1',)",)),
                    ('append', 'encode_usize(p4)', ("discr(p4)('1',)",)),
                ]
                got = [(op, c, tuple(x for x in cd if x.startswith('discr(p3)') or x.startswith('discr(p4)'))) for op, c, cd in seq]
                # `extend`/`append`/`extend_from_slice` are interchangeable ways to add bytes
                norm = lambda op: 'add' if op in ('append', 'extend', 'extend_from_slice') else op
                same = lambda g, w: g == w or (w.startswith('encode_usize(') and g == 'to_le_bytes(try_from(%s))' % w[len('encode_usize('):-1])
                ok = len(got) == len(want) and all(norm(g[0]) == norm(w[0]) and same(g[1], w[1]) and g[2] == w[2] for g, w in zip(got, want))
                rep.check(ok, 'R-C19-2', 'R-C19-2/key-layout', 'key = 0x00 || seed || [if j: "j" || LE32(j)] || [if k: "k" || LE32(k)]',
                          'key is assembled as %s' % got, ctx.where(n, bb))
                base = strip(key)
                rep.check(base.tag == 'call' and base[1].endswith('with_capacity'), 'R-C19-2', 'R-C19-2/key-starts-empty', 'the key buffer starts empty', 'key buffer base is %s' % short(base, 60), ctx.where(n, bb))
        enc = [b for b in ctx.facts.fns() if b.path.endswith('encode_usize')]
        if enc:
            e = enc[0]
            rt = ctx.eng.return_term(e)
            c = canon(rt)
            ok = 'to_le_bytes(' in c and 'try_from(p1)' in c and any('TryFrom<usize> for u32' in callee_name(t) for _, t in ctx.calls(e))
            rep.check(ok, 'R-C19-2', 'R-C19-2/index-encoding', 'indices are encoded as LE32 of a checked u32 conversion', 'index encoding is %s' % c[:160], ctx.where(e))
        else:
            rep.idiom_absent('R-C19-2', 'R-C19-2/index-encoding', 'no encode_usize helper: index encoding not decided here (R-C19-2/key-layout covers the key terms)')
        fh = [b for b in ctx.facts.fns() if b.path.endswith('ScalarProtocol>::from_hasher_blake2b')]
        if fh:
            f = fh[0]
            calls = [callee_decl(t).split('::')[-1] for _, t in ctx.calls(f)]
            ok = 'finalize_fixed' in calls and 'from_bytes_mod_order_wide' in calls and any("[u8; 64]" in l['ty'] for l in f.locals)
            rep.check(ok, 'R-C19-2', 'R-C19-2/output', 'the nonce is from_bytes_mod_order_wide of the 64-byte MAC output', 'nonce output path calls %s' % calls, ctx.where(f))
            used = any(callee_name(t) == f.path for _, t in ctx.calls(n)) if nb else False
            rep.check(used, 'R-C19-2', 'R-C19-2/output-used', 'nonce() returns that reduction', 'nonce() does not use the wide reduction helper', ctx.where(n))


def run(ctx):
    rep = ctx.rep
    # ---- R-C19-1
    for role in ('prover', 'verifier'):
        body = wire.entry(ctx, role, 'R-C19-1')
        if body is None:
            continue
        slots = wire.match_schedule(ctx, 'R-C19-1', body, role, wire.SCHEDULE + (wire.VERIFIER_TAIL if role == 'verifier' else []))
        if slots:
            # label -> datum: each labelled message carries the datum the released layout puts there (N = bit length, T = extension
            # degree, M = number of commitments, ..)
            from . import C04
            cls = C04.event_classes(ctx, body, role)
            for slot, evs_ in sorted(slots.items()):
                if slot in ('domsep', 'r1', 's1', 'd1') or slot is None or slot.startswith('_'):
                    continue
                for e_ in evs_:
                    c_, det_ = cls.get(id(e_), (None, ''))
                    want = {slot} if slot != 'promise' else {'promise', 'promise-none'}
                    rep.check(c_ in want, 'R-C19-1', 'R-C19-1/%s/datum/%s' % (role, (e_.label() or b'?').decode('latin1')),
                              'message %r carries the %s' % (e_.label(), slot),
                              'message %r carries %s, the released layout puts the %s there' % (e_.label(), ('the ' + c_) if c_ else ('an unrecognised datum (%s)' % det_[:80]), slot),
                              ctx.where(e_.body, e_.bb))
        if slots and slots.get('domsep'):
            d = slots['domsep'][0].data()
            rep.check(d.tag == 'const' and d[1] == wire.DOMSEP, 'R-C19-1', 'R-C19-1/%s/domain-separator' % role, 'domain separator message is %r' % wire.DOMSEP,
                      'domain separator message is %s' % short(d, 80), ctx.where(slots['domsep'][0].body, slots['domsep'][0].bb))

    # ---- R-C19-2 nonce derivation
    nonce_derivation(ctx)
    # labels of the five roles (prover side) and of the recoverer
    p = ctx.fn('RangeProof::<P>::prove_with_rng', 'R-C19-2')
    if p is not None:
        roles, _ = R.discover(ctx, p, 'R-C19-2')
        labs = sorted(a['label'] for r in roles for a in r.alts if a['kind'] == 'nonce' and a['label'])
        rep.check(labs == sorted(wire.NONCE_LABELS), 'R-C19-2', 'R-C19-2/labels/prover', 'prover nonce labels are %s' % [l.decode() for l in labs], 'prover nonce labels are %s' % labs, ctx.where(p))
    g = weights.gate(ctx, 'R-C19-2')
    if g is not None:
        v = g[0]
        nfn = R.nonce_fns(ctx)
        labs = sorted({a[1][1] for (fr, bb, t, a) in ctx.flat_calls(v, lambda n, t: n in nfn, stop=nfn) if a[1].tag == 'const'})
        rep.check(labs == sorted(wire.NONCE_LABELS), 'R-C19-2', 'R-C19-2/labels/recoverer', 'recoverer nonce labels are %s' % [l.decode() for l in labs], 'recoverer nonce labels are %s' % labs, ctx.where(v))

    # ---- R-C19-3 generators
    new = ctx.fn('BulletproofGens::<P>::new', 'R-C19-3')
    if new is not None:
        C11.r1(ctx, new)
        C11.r3(ctx, new)
    C11.r2(ctx)
    C11.r4(ctx)

    # ---- R-C19-4 byte layout
    C15.run(ctx, with_contradiction=False)
    dec = ctx.fn('RangeProof::<P>::from_bytes', 'R-C19-4')
    if dec is not None:
        sizes = [canon(ctx.args(dec, bb)[1]) for bb, t in ctx.calls(dec) if callee_decl(t).endswith('chunks_exact')]
        skip = [canon(ctx.args(dec, bb)[1]) for bb, t in ctx.calls(dec) if callee_decl(t) == 'core::slice::<impl [T]>::get']
        good = sizes == ['32'] and skip == ['range(1,None)']
        if sizes == ['32'] and not skip:
            # the tag cut off with split_first / split_at(1): what is chunked is the input without its first byte
            recv = [canon(ctx.args(dec, bb)[0]) for bb, t in ctx.calls(dec) if callee_decl(t).endswith('chunks_exact')]
            if recv and all(r_ in ('skip(p1,1)', 'p1[range(1,None)]', 'split_at(p1,1).1') for r_ in recv):
                good, skip = True, ['the first byte']
        if not sizes:
            # a hand-written cursor: the split points are the sizes (1 for the tag, 32 per element, 64 for an L/R pair)
            def cval(t):
                c = canon(t)
                if c.isdigit():
                    return int(c)
                if t.tag == 'binop' and t[1] == 'Mul' and canon(t[2]).isdigit() and canon(t[3]).isdigit():
                    return int(canon(t[2])) * int(canon(t[3]))
                return None
            pts = [cval(ctx.args(dec, bb)[1]) for bb, t in ctx.calls(dec) if callee_decl(t).split('::')[-1] in ('split_at', 'split_at_checked', 'split_first')]
            for cbody in ctx.facts.closures_of(dec):
                pts += [cval(ctx.args(cbody, bb)[1]) for bb, t in ctx.calls(cbody) if callee_decl(t).split('::')[-1] in ('split_at', 'split_at_checked')]
            sizes = sorted({str(x) for x in pts})
            tag_skipped = 1 in pts or 'range(1,None)' in skip
            good = bool(pts) and None not in pts and 32 in pts and tag_skipped and set(pts) <= {1, 32, 64}
            skip = ['split points']
        rep.check(good, 'R-C19-4', 'R-C19-4/element-size', 'elements are 32 bytes, after a 1-byte degree tag', 'element size %s after %s' % (sizes, skip), ctx.where(dec))

    # ---- R-C19-5 challenge reduction
    cb = ctx.facts.callers_decl.get('merlin::Transcript::challenge_bytes', [])
    if len(cb) == 1:
        b, bb, t = cb[0]
        a = ctx.args(b, bb)
        buf = strip(a[2]) if len(a) > 2 else None
        wide = [ctx.args(b, b2)[0] for b2, t2 in ctx.calls(b) if callee_decl(t2).endswith('from_bytes_mod_order_wide')]
        ok = buf is not None and canon(buf) == "repeatv(0,'64')" and len(wide) == 1 and wide[0].tag == 'mut' and strip(wide[0]) is buf
        rep.check(ok, 'R-C19-5', 'R-C19-5/challenge', 'a challenge is from_bytes_mod_order_wide of 64 challenge bytes', 'challenge buffer %s, reduction over %s' % (canon(buf) if buf is not None else None, [short(w, 60) for w in wide]), ctx.where(b, bb))
    else:
        rep.anchor_missing('R-C19-5', 'R-C19-5/challenge', 'expected one challenge_bytes site, found %d' % len(cb))
