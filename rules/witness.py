"""Runs the witness crate: compile-pass witnesses (`cargo +nightly check`) and compile-fail doc tests with error codes
(`cargo +nightly test --doc`, twins are no_run).  The witness crate path-depends on /repo, so it is rebuilt from the
current working tree on every run."""
import os, re, subprocess, shutil

VERIF = os.path.dirname(os.path.dirname(os.path.abspath(__file__)))
WIT = os.path.join(VERIF, 'witness')
TARGET = os.path.join(VERIF, '.cache', 'target-witness')


def _env():
    env = dict(os.environ)
    env['CARGO_TARGET_DIR'] = TARGET
    env['CARGO_NET_OFFLINE'] = 'true'
    env.pop('RUSTC_WORKSPACE_WRAPPER', None)
    env.pop('RUSTFLAGS', None)
    return env


def _sync_lock():
    repo = os.environ.get('BP_REPO', '/repo')
    src = os.path.join(repo, 'Cargo.lock')
    if os.path.exists(src):
        shutil.copyfile(src, os.path.join(WIT, 'Cargo.lock'))


def check_pass(rep, rule, items):
    """compile-pass witnesses: the witness library type-checks against the current tree"""
    _sync_lock()
    r = subprocess.run(['cargo', '+nightly', 'check', '--offline', '--lib'], cwd=WIT, env=_env(), stdout=subprocess.PIPE,
                       stderr=subprocess.STDOUT, text=True)
    ok = r.returncode == 0
    tail = '\n'.join(l for l in r.stdout.splitlines() if l.startswith('error') or '-->' in l)[:800]
    for it in items:
        if ok:
            rep.ok(rule, '%s/witness/%s' % (rule, it), 'compile-pass witness %s type-checks against the current tree' % it, 'witness/src/lib.rs')
        else:
            # only blame the items named in the error text, if any is named; else all
            rep.violation(rule, '%s/witness/%s' % (rule, it), 'compile-pass witness crate no longer type-checks: %s' % tail, 'witness/src/lib.rs')
    return ok


def run(rep, pid, prefixes):
    """compile-fail witnesses whose item name starts with one of the prefixes (case-insensitive)"""
    _sync_lock()
    r = subprocess.run(['cargo', '+nightly', 'test', '--doc', '--offline'], cwd=WIT, env=_env(), stdout=subprocess.PIPE,
                       stderr=subprocess.STDOUT, text=True)
    seen = 0
    for line in r.stdout.splitlines():
        m = re.match(r'test src/lib.rs - (\w+) \(line \d+\) - (compile fail|compile) \.\.\. (\w+)', line)
        if not m:
            continue
        name, kind, res = m.groups()
        if not any(name.lower().startswith(p.lower().replace('_', '')) for p in prefixes):
            continue
        seen += 1
        rule = 'R-%s-witness' % pid
        key = '%s/%s/%s' % (rule, name, 'fail' if kind == 'compile fail' else 'twin')
        if res == 'ok':
            rep.ok(rule, key, '%s witness %s behaves as required (%s)' % (kind, name, 'rejected with the stated error code' if kind == 'compile fail' else 'twin compiles'), 'witness/src/lib.rs')
        else:
            rep.violation(rule, key, '%s witness %s: %s' % (kind, name, 'the violating program now compiles (or fails with another error)' if kind == 'compile fail' else 'the compiling twin no longer compiles'), 'witness/src/lib.rs')
    if seen == 0:
        rep.anchor_missing('R-%s-witness' % pid, 'R-%s-witness/none' % pid, 'no witness doc test matched %s (cargo exit %d): %s' % (prefixes, r.returncode, r.stdout[-600:]))
    return seen
