"""Preconditions of the mixed precomputed multiscalar multiplication (shared by C01, C12, C16).

curve25519-dalek's precomputed Straus backend asserts
  (1) |static scalars| == number of points in the precomputed table
  (2) |dynamic scalars| == |dynamic points|
R-*-msm-1 ("padding and table have one origin"): at every vartime_mixed_multiscalar_mul call the table receiver and the
three arguments of the padding helper are projections of the same statement, and (verifier) that statement is the one
selected by the index returned from the consistency function while the per-generator scalar vectors have the length
returned with it.
R-*-msm-2 (paired-push rule): see check_dynamic_pairs.
"""
import os
from bpsa.facts import callee_decl, callee_name
from bpsa.normal import canon
from bpsa.terms import walk, short, TERM_IDX, T

MSM_DECL = 'curve25519_dalek::traits::VartimePrecomputedMultiscalarMul::vartime_mixed_multiscalar_mul'
REVIEW_PLACEHOLDER = {}


def strip_mut(t):
    while t.tag == 'mut':
        t = t[1]
    return t


def statement_of(t):
    """the statement term X such that t is a projection X.generators....  (or X.commitments)"""
    t = strip_mut(t)
    while t.tag in ('field', 'call', 'cast', 'discr'):
        if t.tag == 'field':
            if t[1] in ('generators', 'commitments', 'minimum_value_promises', 'commitments_compressed'):
                return strip_mut(t[2])
            t = strip_mut(t[2])
        elif t.tag == 'call':
            if len(t[2]) != 1:
                return None
            t = strip_mut(t[2][0])
        else:
            t = strip_mut(t[-1] if t.tag == 'cast' else t[1])
    return None


def msm_sites(ctx, body):
    return [(bb, t) for bb, t in ctx.calls(body, decl=MSM_DECL)]


def check_one_origin(ctx, rule, body, role):
    """R-msm-1 at every mixed MSM of `body`; role in ('prover', 'verifier')"""
    rep = ctx.rep
    sites = msm_sites(ctx, body)
    if not sites:
        rep.anchor_missing(rule, '%s/%s/msm' % (rule, role), 'no vartime_mixed_multiscalar_mul call in %s' % body.path)
        return None
    res = []
    for n, (bb, t) in enumerate(sites):
        a = ctx.args(body, bb)
        where = ctx.where(body, bb)
        key = '%s/%s/msm%d' % (rule, role, n)
        recv = a[0]
        st_recv = statement_of(recv)
        ok_recv = st_recv is not None and ctx.mentions_field(recv, 'precomp')
        rep.check(ok_recv, rule, key + '/table', 'table receiver is %s (statement %s)' % (short(recv, 120), short(st_recv, 80) if st_recv is not None else None),
                  'cannot identify the statement whose precomputed table is used: %s' % short(recv, 200), where)
        static = a[1]
        # the padding count: the `take(n)` applied to the repeated zero that is chained after the interleaved vectors
        st0 = strip_mut(static)
        pad = None
        padv = None
        if st0.tag == 'chain' and strip_mut(st0[2]).tag == 'adapt' and strip_mut(st0[2])[1] == 'take' and len(strip_mut(st0[2]).args) >= 3:
            pad = strip_mut(st0[2])[3]
            src = strip_mut(strip_mut(st0[2])[2])
            padv = src[1] if src.tag == 'repeat' else None
        elif st0.tag == 'chain' and strip_mut(st0[2]).tag == 'repeatv':
            # repeat(x).take(n) / repeat_with(f).take(n): n copies of x (engine normal form)
            pad = strip_mut(st0[2])[2]
            padv = strip_mut(st0[2])[1]
        if pad is None:
            rep.violation(rule, key + '/padding', 'static scalars are not padded by take(repeat(0), n): %s' % short(static, 200), where)
            continue
        roles = ('bit length', 'aggregation factor', 'capacity')
        want_fields = ('gens_capacity', 'commitments', 'party_capacity')
        # every statement-rooted datum inside the padding count must come from the statement whose table is used
        for i, wf in enumerate(want_fields):
            hits = [x for x in walk(pad) if x.tag == 'field' and x[1] == wf]
            sts = [statement_of(x) for x in hits]
            same = bool(hits) and all(s_ is not None and st_recv is not None and s_ is st_recv for s_ in sts)
            rep.check(same, rule, key + '/padding/%s' % roles[i].replace(' ', '_'),
                      'padding %s is the %s of the same statement as the table' % (roles[i], wf),
                      'padding %s is not the %s of the statement whose table is used (%s): %s' % (roles[i], wf, short(st_recv, 100) if st_recv is not None else None,
                                                                                                 [short(x, 100) for x in hits] or 'absent from the padding count'), where)
        # .. and the count itself is what the table has beyond the proof's own generators: 2 * bits * (capacity - aggregation factor)
        check_padding_count(ctx, rule, key, pad, where)
        # the padding must bound a `take` over a repeat of zero chained after the interleaved vectors
        st = strip_mut(static)
        shape_ok = st.tag == 'chain' and strip_mut(st[1]).tag == 'interleave' and ((strip_mut(st[2]).tag == 'adapt' and strip_mut(st[2])[1] == 'take') or strip_mut(st[2]).tag == 'repeatv')
        if padv is not None:
            zero = canon(padv) in ('S0', 'ZERO') or (padv.tag == 'item' and padv[1].endswith('::ZERO'))
            rep.check(zero, rule, key + '/padding-value', 'the padding scalars are zero', 'the static scalars are padded with %s, not with zero' % short(padv, 60), where)
        rep.check(shape_ok, rule, key + '/shape', 'static scalars = chain(interleave(G-scalars, H-scalars), take(repeat(0), padding))',
                  'static scalars do not have the shape chain(interleave(..), take(repeat(0), padding)): %s' % short(static, 200), where)
        res.append({'bb': bb, 'recv': recv, 'statement': st_recv, 'static': static, 'pad': pad, 'dyn_scalars': a[2], 'dyn_points': a[3]})
    return res


def check_padding_count(ctx, rule, key, pad, where):
    """the padding count as a polynomial over the three statement quantities (helper calls looked through, checked arithmetic read
    as arithmetic): the table holds 2 * bits * capacity points, the proof's own scalars cover 2 * bits * aggregation factor of them"""
    from . import ilen
    from .poly import pmul, padd
    rep = ctx.rep
    try:
        e = ctx.eng.expand(pad)
        got = ilen.ival(e)
        q = {}
        for role, wf in (('B', 'gens_capacity'), ('A', 'commitments'), ('C', 'party_capacity')):
            hits = {canon(x) for x in walk(e) if x.tag == 'field' and x[1] == wf}
            if len(hits) != 1:
                raise ilen.NoLen('%d different %s in the padding count' % (len(hits), wf))
            nm = hits.pop()
            q[role] = ilen.atom('len(%s)' % nm if wf == 'commitments' else nm)
        want = padd(pmul(ilen.const(2), pmul(q['B'], q['C'])), pmul(ilen.const(2), pmul(q['B'], q['A'])), -1)
    except ilen.NoLen as ex:
        rep.idiom_absent(rule, key + '/padding-count', 'the padding count is not an arithmetic expression over bit length, aggregation factor and capacity (%s): %s' % (ex, short(pad, 160)))
        return
    norm = lambda p_: {k: v for k, v in p_.items() if v != 0}
    rep.check(norm(got) == norm(want), rule, key + '/padding-count', 'padding count = 2 * bits * capacity - 2 * bits * aggregation factor (what the table holds beyond the proof\'s own generators)',
              'padding count is %s; the table holds 2 * bits * capacity points of which the proof uses 2 * bits * aggregation factor: expected %s' % (fmt_poly(got), fmt_poly(want)), where)


def fmt_poly(p_):
    def mono(k, v):
        names = [(x.split('.')[-1] if x.endswith(('gens_capacity', 'party_capacity')) else 'len(' + x.split('.')[-1] if x.startswith('len(') and x.endswith('commitments)') else
                  (x if len(x) < 60 else x[:28] + '..' + x[-28:])) for x in k]
        return ('%+d' % v) + ''.join('*' + n for n in names)
    return ' '.join(mono(k, v) for k, v in sorted(p_.items(), key=repr) if v != 0) or '0'


def check_verify_msm(ctx, rule):
    rep = ctx.rep
    v = verifier_core(ctx, rule)
    if v is None:
        return
    res = check_one_origin(ctx, rule, v, 'verifier')
    if not res:
        return
    r = res[0]
    where = ctx.where(v, r['bb'])
    st = r['statement']
    # the statement is statements[idx] with idx = .1 of the consistency call; vector length = .0 of the same call
    cfn = consistency_fn(ctx, rule)
    cons = [x for x in walk(st) if x.tag == 'call' and cfn is not None and x[1] == cfn.path] if st is not None else []
    idx_ok = st is not None and st.tag == 'elemat' and st[2].tag == 'field' and st[2][1] == '1' and st[2][2].tag == 'call' and st[2][2] in cons
    struct_form = None
    if not idx_ok and st is not None and cfn is not None:
        # result struct: the table's statement is the component of the consistency call that the function fills with statements[index]
        cr = consistency_result(ctx, cfn)
        calls_c = [(bb2, t2) for bb2, t2 in ctx.calls(v) if callee_name(t2) == cfn.path]
        if cr is not None and cr[3] is not None and len(calls_c) == 1:
            from bpsa.terms import project_field
            cres = ctx.result(v, calls_c[0][0])
            comp = project_field(cres, cr[3], -1)
            if strip_mut(comp) is strip_mut(st) and st.tag == 'elemat' and strip_mut(st[1]).tag == 'param':
                idx_ok = True
                struct_form = (cres, cr)
    rep.check(idx_ok, rule, rule + '/verifier/max-statement', 'table and padding come from statements[index returned by the consistency function]: %s' % short(st, 160),
              'the statement used for table/padding is not selected by the index returned from the consistency function: %s' % (short(st, 200) if st is not None else None), where)
    if idx_ok and struct_form is not None:
        # lengths: the usize component of the same result
        from bpsa.terms import project_field
        cres, cr = struct_form
        lname = None
        for b2 in cfn.blocks:
            for s2 in b2['stmts']:
                if s2['k'] == 'assign' and s2['rv']['k'] == 'aggregate' and s2['rv']['kind'].get('a') == 'adt' and cr[3] in s2['rv']['kind'].get('fields', []):
                    for fn_, o in zip(s2['rv']['kind']['fields'], s2['rv']['ops']):
                        if o['k'] in ('copy', 'move') and cfn.local_ty(o['place']['l']) == 'usize':
                            lname = fn_
        static = strip_mut(r['static'])
        il = strip_mut(static[1]) if static.tag == 'chain' else None
        lens = []
        if il is not None and il.tag == 'interleave':
            for side in (il[1], il[2]):
                s0 = strip_mut(side)
                lens.append(s0[2][1] if s0.tag == 'call' and s0[1].endswith('from_elem') and len(s0[2]) == 2 else None)
        want = project_field(cres, lname, -1) if lname else None
        lens_ok = bool(lens) and want is not None and all(l is not None and strip_mut(l) is strip_mut(want) for l in lens)
        rep.check(lens_ok, rule, rule + '/verifier/max-length', 'both per-generator scalar vectors have the length returned with the selected statement',
                  'per-generator scalar vectors are not sized by the length returned with the selected statement', where)
    elif idx_ok:
        call = st[2][2]
        static = strip_mut(r['static'])
        il = strip_mut(static[1]) if static.tag == 'chain' else None
        lens_ok = False
        det = ''
        if il is not None and il.tag == 'interleave':
            lens = []
            for side in (il[1], il[2]):
                s0 = strip_mut(side)
                if s0.tag == 'call' and s0[1].endswith('from_elem') and len(s0[2]) == 2:
                    lens.append(s0[2][1])
                else:
                    lens.append(None)
            want = T('field', '0', call)
            lens_ok = all(l is not None and l is want for l in lens)
            det = ', '.join(short(l, 80) if l is not None else 'unknown' for l in lens)
        rep.check(lens_ok, rule, rule + '/verifier/max-length', 'both per-generator scalar vectors have the length returned with that index (%s)' % det,
                  'per-generator scalar vectors are not sized by the length returned with the selected index: %s' % det, where)
    # the consistency function returns a coherent (max_mn, max_index) pair
    check_consistency_pair(ctx, rule)
    check_dynamic_pairs(ctx, rule, v, r)


def verifier_core(ctx, rule):
    """the crate function reachable from verify_batch that performs the mixed MSM"""
    vb = ctx.fn('RangeProof::<P>::verify_batch', rule)
    if vb is None:
        return None
    for b in ctx.facts.reachable_from([vb]):
        if msm_sites(ctx, b):
            ctx.rep.saw_body(b)
            return b
    ctx.rep.anchor_missing(rule, rule + '/verifier-core', 'no function reachable from verify_batch calls vartime_mixed_multiscalar_mul')
    return None


def consistency_fn(ctx, rule):
    v = verifier_core(ctx, rule)
    if v is None:
        return None
    # the local callee returning Result<(usize, usize), _> (length and index of the largest member)
    for bb, t in ctx.calls(v):
        n = callee_name(t)
        if n in ctx.facts.fn and '(usize, usize)' in ctx.facts.fn[n].locals[0]['ty']:
            return ctx.facts.fn[n]
    # however it packages its result: the crate function that the core hands its whole statement and proof slices before anything else
    # (its failure is the core's failure)
    cfg = ctx.cfgof(v)
    slices = [i for i in range(1, v.argc + 1) if v.local_ty(i).startswith('&[') and 'Transcript' not in v.local_ty(i)]
    sites = msm_sites(ctx, v)
    for bb, t in ctx.calls(v):
        n = callee_name(t)
        cal = ctx.facts.fn.get(n)
        if cal is None or cal.impl_trait or cal.is_closure:
            continue
        a = ctx.args(v, bb)
        roots = [strip_mut(x) for x in a]
        if len(a) == len(slices) and all(r.tag == 'param' and r[2] in slices for r in roots) and len({r[2] for r in roots}) == len(slices) \
                and 'Result<' in cal.locals[0]['ty'] and sites and cfg.dominates(bb, sites[0][0]):
            return cal
    ctx.rep.anchor_missing(rule, rule + '/consistency-fn', 'consistency function not found among the callees of the verifier core')
    return None


def consistency_result(ctx, c):
    """(block, length local, index local, name of the result component that designates the selected statement or None for the
    (length, index) tuple form) of the consistency function's success value"""
    ix = ctx.eng.bx(c)

    def origin(l):
        hops = 0
        while l is not None and hops < 4:
            wd = ix.whole_defs(l)
            if len(wd) == 1 and wd[0][2] == 'assign' and wd[0][3]['rv']['k'] == 'use' and wd[0][3]['rv']['op']['k'] in ('copy', 'move') and not wd[0][3]['rv']['op']['place']['p']:
                l = wd[0][3]['rv']['op']['place']['l']
                hops += 1
            else:
                break
        return l
    best = None
    tuple_best = None
    for b in c.blocks:
        if b['cleanup'] or b.get('dead'):
            continue
        for s in b['stmts']:
            if s['k'] != 'assign' or s['rv']['k'] != 'aggregate':
                continue
            kind = s['rv']['kind']
            ops = s['rv']['ops']
            if kind.get('a') == 'tuple' and len(ops) == 2 and s['place']['ty'] == '(usize, usize)':
                locs = [origin(o['place']['l']) if o['k'] in ('copy', 'move') else None for o in ops]
                if None not in locs:
                    # (the pair that is returned, not the initial value of a fold accumulator: the last one on the way to the return)
                    pos = {x: n for n, x in enumerate(ctx.cfgof(c).rpo)}
                    cand = (pos.get(b['i'], -1), b['i'], locs[0], locs[1])
                    if tuple_best is None or cand[0] > tuple_best[0]:
                        tuple_best = cand
                    continue
            if kind.get('a') == 'adt' and not kind.get('path', '').startswith('std::') and 'fields' in kind and 'ProofError' not in kind.get('path', ''):
                # a result struct: a usize component computed as a product (the length) and a statement reference obtained by indexing the
                # statements with a local (the index)
                len_l = idx_l = fname = None
                for fn_, o in zip(kind['fields'], ops):
                    if o['k'] not in ('copy', 'move') or o['place']['p']:
                        continue
                    l = origin(o['place']['l'])
                    ty = c.local_ty(l)
                    if ty == 'usize':
                        defs_t = [ctx.eng.expand(ctx.eng.rvalue(c, d[0], d[1], d[3]['rv']) if d[2] == 'assign' else ctx.eng.call_result(c, d[0])) for d in ix.whole_defs(l)]
                        if any(x.tag == 'call' and x[1].endswith('checked_mul') for dt in defs_t for x in walk(dt)):
                            len_l = l
                    elif 'RangeStatement' in ty:
                        for d in ix.whole_defs(l):
                            node = d[3]
                            t2 = node if d[2] == 'call' else None
                            if t2 is None and d[2] == 'assign':
                                # through `?`: the payload of a call result
                                src = ctx.eng.rvalue(c, d[0], d[1], node['rv'])
                                for (bb2, tt) in ctx.calls(c):
                                    if callee_decl(tt) in ('core::slice::<impl [T]>::get', 'std::ops::Index::index') and ctx.result(c, bb2) is strip_mut(src):
                                        t2 = tt
                            if t2 is not None and callee_decl(t2) in ('core::slice::<impl [T]>::get', 'std::ops::Index::index') and len(t2['args']) == 2 and t2['args'][1]['k'] in ('copy', 'move'):
                                cand = origin(t2['args'][1]['place']['l'])
                                if c.local_ty(cand) == 'usize' and len(ix.whole_defs(cand)) >= 2:
                                    idx_l, fname = cand, fn_
                if len_l is not None and idx_l is not None:
                    best = (b['i'], len_l, idx_l, fname)
    if tuple_best is not None:
        return tuple_best[1], tuple_best[2], tuple_best[3], None
    return best


def _is_statement(ctx, c, t):
    """the term is one of the statements handed to the function (an element of a parameter slice), not a number"""
    t = strip_mut(t)
    while t.tag == 'via':
        t = strip_mut(t[2])
    return t.tag in ('elem', 'elemat') and any(x.tag == 'param' for x in walk(t)) and not any(x.tag == 'call' for x in walk(t))


def _coherent(ctx, c, dbb, it, lt):
    """the length lt is len(X.commitments) * bits with X the statement whose position the index term `it` is (or lt is X itself)"""
    st = None
    for x in walk(lt):
        if x.tag == 'field' and x[1] == 'commitments':
            st = strip_mut(x[2])
    mul = any(x.tag == 'call' and x[1].endswith('checked_mul') for x in walk(lt))
    if st is None and _is_statement(ctx, c, lt):
        st, mul = strip_mut(lt), True          # the selected statement itself is carried; its length is computed from it afterwards
        while st.tag == 'via':
            st = strip_mut(st[2])
    if it is not None and it.tag == 'const' and it[1] == 0:
        return st is not None and st.tag == 'elemat' and st[2].tag == 'const' and st[2][1] in ('first', 0) and mul
    # index is the enumerate index of the iterator whose element is st
    # ... and both come from the same enumerate(zip(statements, ..)) driver
    idxs = [y for y in walk(it)] if it is not None else []
    isrc = [y[1] for y in idxs if y.tag == 'index']
    good = st is not None and mul and bool(isrc) and any(src_of_elem(st) in zip_parts(z) for z in isrc)
    if st is not None and mul and isrc and not good:
        # the index is drawn from 0..len(X) zipped, in one driver, with X itself: the position in X all the same
        X = src_of_elem(st)
        for z in isrc:
            if z.tag == 'range' and z[1].tag == 'const' and z[1][1] == 0 and z[2].tag == 'call' and z[2][1].endswith('::len') and X is not None \
                    and strip_mut(z[2][2][0]) is strip_mut(X) and set(ctx.adapters(it)) == set(ctx.adapters(lt)):
                lps = ctx.enclosing_loops(c, dbb)
                drv = lps[-1].iter_term if lps else None
                parts = set()
                for y in (walk(drv) if drv is not None else ()):
                    if y.tag == 'zip':
                        parts |= {strip_mut(p).id for p in zip_parts(y)}
                if z.id in parts and strip_mut(X).id in parts:
                    good = True
    if st is not None and mul and isrc and not good:
        # an index loop `for i in k..len(X)` with st = X[i]: the index is the position of st in X by construction of the loop
        from bpsa.terms import index_view, _view_component
        X = src_of_elem(st)
        for z in isrc:
            v_ = index_view(z) if z.tag == 'range' else None
            if v_ is not None and X is not None and _view_component(v_, X)[0] and it.tag == 'index':
                # the element must be selected with that very counter (skip(k) of the walk <-> counter from k)
                skipped = v_.tag == 'adapt' and v_[1] == 'skip'
                via_skip = 'skip' in ctx.adapters(lt)
                if skipped == via_skip:
                    good = True
    return good


_FLIP = {'Gt': 'Lt', 'Lt': 'Gt', 'Ge': 'Le', 'Le': 'Ge'}
_NEG = {'Gt': 'Le', 'Le': 'Gt', 'Ge': 'Lt', 'Lt': 'Ge'}


def _max_guard(ctx, dep, lt, carried, want_stmt=False):
    """is this controlling switch `candidate length > (or >=) the length carried so far`, taken on the arm that leads to the update?"""
    s, cond, sure, maybe = dep
    cond = strip_mut(cond)
    if cond.tag != 'binop' or cond[1] not in _FLIP:
        return False
    op, a, b = cond[1], strip_mut(cond[2]), strip_mut(cond[3])
    want = canon(strip_mut(lt))
    if want_stmt:
        # the statement itself is carried: the comparison is between the commitment counts of this member and of the carried one
        # (every member has the same bit length, so the counts order the lengths)
        def bare(y):
            y = strip_mut(y)
            while y.tag == 'via':
                y = strip_mut(y[2])
            return y

        def count_of(x):
            x = bare(ctx.eng.expand(x))
            if x.tag == 'call' and x[1].endswith('::len') and len(x[2]) == 1:
                f = bare(x[2][0])
                if f.tag == 'field' and f[1] == 'commitments':
                    return bare(f[2])
            return None
        ca, cb = count_of(a), count_of(b)
        st = bare(lt)
        if ca is not None and cb is not None and ca is st and carried(cb):
            pass
        elif ca is not None and cb is not None and cb is st and carried(ca):
            op = _FLIP[op]
        else:
            return False
        if '0' in sure and 'otherwise' not in sure:
            op = _NEG[op]
        elif '0' in sure:
            return False
        return op in ('Gt', 'Ge')

    def same(x):
        return canon(strip_mut(ctx.eng.expand(x))) == want
    if carried(b) and same(a):
        pass
    elif carried(a) and same(b):
        op = _FLIP[op]
    else:
        return False
    if '0' in sure and 'otherwise' not in sure:
        op = _NEG[op]           # the update sits on the arm where the comparison is false
    elif '0' in sure:
        return False
    return op in ('Gt', 'Ge')


def check_consistency_pair(ctx, rule):
    """The member that sizes the batch is the largest one: the returned (length, index) start as (length of member 0, 0); they are
    replaced -- together, by the length and the position of one and the same member -- exactly when that member's length exceeds
    the length carried so far; nothing else changes them.  Read in the loop form (two locals updated in one block) and in the
    accumulator form (a pair handed through `fold` / `try_fold`)."""
    rep = ctx.rep
    c = consistency_fn(ctx, rule)
    if c is None:
        return
    rep.saw_body(c)
    ix = ctx.eng.bx(c)
    cfg = ctx.cfgof(c)
    cr = consistency_result(ctx, c)
    if cr is None:
        rep.anchor_missing(rule, rule + '/consistency/pair', 'cannot find the (length, index / selected statement) result of %s' % c.path)
        return
    bb, len_l, idx_l, _fname = cr
    inits, takes, det = [], [], []
    ok = True
    carried = None
    if len(ix.whole_defs(idx_l)) >= 2:
        ldefs = {d[0]: d for d in ix.whole_defs(len_l)}
        for d in ix.whole_defs(idx_l):
            dbb = d[0]
            it = ctx.eng.rvalue(c, dbb, d[1], d[3]['rv']) if d[2] == 'assign' else None
            ld = ldefs.get(dbb)
            if ld is None:
                ok = False
                det.append('index assigned at bb%d without a length assignment in the same block' % dbb)
                continue
            lt = ctx.eng.rvalue(c, ld[0], ld[1], ld[3]['rv']) if ld[2] == 'assign' else ctx.eng.call_result(c, ld[0])
            lt = ctx.eng.expand(lt)
            (inits if it is not None and it.tag == 'const' and it[1] == 0 else takes).append((dbb, it, lt))

        def carried(x):
            return x.tag == 'lv' and x[2] == len_l
    else:
        # the pair is the accumulator of a fold: (length, index) = fields of one loop-carried tuple
        t_idx = ctx.eng.local(c, bb, TERM_IDX, idx_l)
        t_len = ctx.eng.local(c, bb, TERM_IDX, len_l)

        def carried_fields(t):
            return [(x[1], strip_mut(x[2])) for x in walk(t) if x.tag == 'field' and str(x[1]).isdigit() and strip_mut(x[2]).tag == 'lv']
        fi, fl = carried_fields(t_idx), carried_fields(t_len)
        pair = [(a, b, lv) for a, lv in fi for b, lv2 in fl if lv is lv2 and a != b]
        if not pair:
            ok = False
            det.append('the returned index is neither a local updated in a loop nor a component of a pair carried through a fold: %s' % short(t_idx, 100))
        else:
            ki, kl, lv = pair[0]
            acc_l, h = lv[2], lv[3]
            ty = c.local_ty(acc_l)
            loop_blocks = cfg.loops.get(h, set())
            # what the accumulator starts from: the tuple moved into it before the loop
            srcs, work = set(), [acc_l]
            while work:
                l = work.pop()
                if l in srcs:
                    continue
                srcs.add(l)
                for d in ix.whole_defs(l):
                    if d[0] not in loop_blocks and d[2] == 'assign' and d[3]['rv']['k'] == 'use' and d[3]['rv']['op'].get('k') in ('move', 'copy') and not d[3]['rv']['op']['place']['p']:
                        work.append(d[3]['rv']['op']['place']['l'])
            for b in c.blocks:
                if b['cleanup'] or b.get('dead') or b['i'] not in cfg.reach_set:
                    continue
                for si, s_ in enumerate(b['stmts']):
                    if s_['k'] != 'assign' or s_['place']['p'] or s_['rv']['k'] != 'aggregate' or s_['rv']['kind'].get('a') != 'tuple' or len(s_['rv']['ops']) != 2 \
                            or c.local_ty(s_['place']['l']) != ty:
                        continue
                    inside = b['i'] in loop_blocks
                    if not inside and s_['place']['l'] not in srcs:
                        continue
                    ops = s_['rv']['ops']
                    it = ctx.eng.operand(c, b['i'], si, ops[int(ki)])
                    lt = ctx.eng.expand(ctx.eng.operand(c, b['i'], si, ops[int(kl)]))
                    if not inside:
                        inits.append((b['i'], it, lt))
                        continue
                    si_, sl_ = strip_mut(it), strip_mut(lt)
                    if si_.tag == 'field' and si_[1] == ki and strip_mut(si_[2]) is lv and sl_.tag == 'field' and sl_[1] == kl and strip_mut(sl_[2]) is lv:
                        continue            # the pair handed on unchanged
                    takes.append((b['i'], it, lt))

            def carried(x):
                return x.tag == 'field' and x[1] == kl and strip_mut(x[2]) is lv
    for dbb, it, lt in inits:
        good = it is not None and it.tag == 'const' and it[1] == 0 and _coherent(ctx, c, dbb, it, lt)
        det.append('bb%d: index=%s length=%s' % (dbb, short(it, 60) if it is not None else None, short(lt, 120)))
        ok = ok and good
    guards = []
    for dbb, it, lt in takes:
        good = _coherent(ctx, c, dbb, it, lt)
        det.append('bb%d: index=%s length=%s' % (dbb, short(it, 60) if it is not None else None, short(lt, 120)))
        ok = ok and good
        deps = ctx.control_deps(c, dbb)
        gs = [d for d in deps if _max_guard(ctx, d, lt, carried, _is_statement(ctx, c, lt))]
        guards.append((dbb, deps, gs))
    if ok and (not inits or not takes):
        ok = False
        det.append('expected an initial and an updating definition of the index')
    rep.check(ok, rule, rule + '/consistency/pair', 'returned (length, index) are always assigned together from the same statement: ' + '; '.join(det),
              'returned (length, index) pair is not coherent: ' + '; '.join(det), ctx.where(c, bb))
    for dbb, deps, gs in guards:
        good = bool(gs) and len(gs) == len(deps)
        rep.check(good, rule, rule + '/consistency/max-guard',
                  'the (length, index) pair is replaced exactly when the member\'s length exceeds the length carried so far: %s' % '; '.join(short(d[1], 100) for d in gs),
                  'the update of the (length, index) pair is not guarded by `length of this member > length carried so far` alone: it is controlled by %s'
                  % ([short(d[1], 160) for d in deps] or 'no condition at all'), ctx.where(c, dbb))


def check_dynamic_pairs(ctx, rule, v, r):
    """placeholder until the paired-push rule is armed: record the sizes of the two dynamic vectors"""
    from . import msm_pairs
    msm_pairs.check(ctx, rule, v, r)


def src_of_elem(t):
    """the iterator X such that t is (a component of) elem(X), looking through `via` tags and tuple projections of zip"""
    while t.tag in ('via', 'field', 'mut'):
        t = t[2] if t.tag in ('via', 'field') else t[1]
    if t.tag == 'elem':
        x = t[1]
        return x
    return None


def zip_parts(z):
    out = [z]
    if z.tag == 'zip':
        out += zip_parts(z[1]) + zip_parts(z[2])
    return out
