"""C04 Fiat-Shamir binding: each challenge depends on everything before it (structural, modulo merlin's collision resistance).

Label values and the relative order of absorptions inside one phase are *not* part of this property (they are wire format, C19):
events are classified by the datum they absorb.
R-C04-1  every datum class (both commitment-generator kinds, bit length, extension degree, aggregation factor, every commitment,
         every promise with None as 0, A; every L and R; A1 and B) is absorbed, whole and in order, from the caller's statement /
         proof, on every accepted path; to the end (a loop that absorbs a datum element by element leaves only when the elements run
         out or by refusing); as it is (no in-place change between datum and absorption) and through encodings only (compress /
         to_bytes / as_bytes ..: a unary function that is not an encoding between a stored datum and the absorbed bytes is reported)
R-C04-2  absorbed-before-challenge: each class precedes every challenge that the protocol draws after it (y, z; each round e in
         the same iteration as its L, R; the final e)
R-C04-3  context: every event acts on the caller-supplied transcript; no fresh or cloned transcript on the proof path
R-C04-4  the prover absorbs the very messages it stores in the proof; the verifier absorbs the proof's fields
"""
from bpsa.normal import canon
from bpsa.terms import walk, short, T
from bpsa.trace import strip
from . import wire

LEVEL_TEXT = ('Static analysis (structured trace of merlin boundary calls over MIR with crate-local callees and closures spliced in). Decides that '
              'every public parameter, statement datum and prover message is absorbed into the caller\'s transcript, whole and in order, on every '
              'accepted path before each challenge that follows it in the protocol, in prover and verifier alike. Assumes merlin frames labels and '
              'lengths (distinct (label, data) sequences give distinct states); does not decide hash collision resistance. What is absorbed must be the '
              'datum itself: an in-place change (zeroize, fill, copy_from_slice, store) between the datum and the absorption is reported, so is a function that is not an encoding, and so is an absorption loop that a discarded failure can end early.')
ASSUMPTIONS = ['merlin::Transcript::append_message / append_u64 / challenge_bytes bind label and length (STROBE framing)',
               'reverse post-order of must-executed blocks respects execution order (MIR from structured source is reducible)']
RULE_TEXT = ('one obligation per datum class and role (present, whole, from the right source, on every path), one per challenge (absorbed-before), one per '
             'receiver / prover message; non-trivial = decided from a data/receiver term')

ALLOWED_ADAPTERS = {'chunks', 'chunks_mut'}
STATEMENT_CLASSES = {
    'h_base': (('h_base', 'h_base_compressed'), False),
    'g_bases': (('g_base_compressed_vec', 'g_base_vec'), True),
    'bit_length': (('gens_capacity',), False),
    'extension_degree': (('extension_degree',), False),
    'commitments': (('commitments_compressed', 'commitments'), True),
    'promise': (('minimum_value_promises',), True),
}
PROOF_SLOTS = ['a', 'li', 'ri', 'a1', 'b']
PHASE0 = ['h_base', 'g_bases', 'bit_length', 'extension_degree', 'aggregation', 'commitments', 'promise', 'promise-none', 'a']


def param_roots(t):
    return {(x[1], x[2]) for x in walk(t) if x.tag == 'param'}


def prover_message_slot(ctx, body, fields, d):
    """which proof field the absorbed datum is the compression of (prover side)"""
    comp = [x for x in walk(d) if x.tag == 'call' and x[1].endswith('Compressable::compress')]
    if not comp:
        return None
    pt = strip(comp[0][2][0])
    for slot in PROOF_SLOTS:
        stored = fields.get(slot)
        if stored is None:
            continue
        if slot in ('li', 'ri'):
            # stored: map(vec, |p| p.compress());  absorbed: compress(vec.last())
            vec = strip(pt[1]) if pt.tag == 'elemat' else None
            sv = strip(stored)
            while sv.tag == 'map':
                sv = strip(sv[1])
            if vec is not None and sv is vec:
                return slot
            # stored: vec of already-compressed points, the very value that is absorbed being pushed
            sm = stored
            while sm.tag == 'map':
                sm = sm[1]
            if sm.tag == 'mut' and any(e.tag == 'ev' and e[2].endswith('::push') and e[3] and strip(e[3][0]) is comp[0] for e in sm[2]):
                return slot
            # stored: map(vec, compress) of the raw points, absorbed: compress(that very point) before it is pushed
            if stored.tag == 'map' and sm.tag == 'mut' and any(e.tag == 'ev' and e[2].endswith('::push') and e[3] and strip(e[3][0]) is pt for e in sm[2]):
                return slot
        else:
            st = strip(stored)
            if st.tag == 'call' and st[1].endswith('Compressable::compress'):
                x0 = strip(st[2][0])
                if x0 is pt or canon(x0) == canon(pt):
                    return slot
    return None


def classify(ctx, body, role, e, st_idx, pr_idx, fields):
    """(class, well-formed?, detail) of an absorption event"""
    d = e.data()
    if d is None:
        return None, False, ''
    roots = param_roots(d)
    fs = ctx.fields_of(d)
    ads = set(ctx.adapters(d)) - ALLOWED_ADAPTERS
    from_st = any((body.key, i) in roots for i in st_idx)
    from_pr = any((body.key, i) in roots for i in pr_idx)
    has_elem = any(x.tag == 'elem' for x in walk(d))
    if not roots and strip(d).tag in ('const', 'cast'):
        zero = [x for x in walk(d) if x.tag == 'const']
        if zero and zero[0][1] == 0 and e.kind == 'append_u64':
            return 'promise-none', True, 'constant 0'
        return None, False, ''
    if role == 'prover':
        slot = prover_message_slot(ctx, body, fields, d)
        if slot:
            return slot, True, short(d, 100)
    elif from_pr:
        for slot in PROOF_SLOTS:
            if slot in fs:
                good = not ads and (slot not in ('li', 'ri') or any(x.tag == 'elem' and x[1].tag == 'field' and x[1][1] == slot for x in walk(d)))
                return slot, good, short(d, 100) + (' through %s' % sorted(ads) if ads else '')
    if from_st:
        elem_of_commitments = any(x.tag == 'elem' and x[1].tag == 'field' and x[1][1] in ('commitments', 'commitments_compressed') for x in walk(d))
        if 'commitments' in fs and not elem_of_commitments and any(x.tag == 'call' and x[1].split('::')[-1] == 'len' for x in walk(d)):
            return 'aggregation', not ads, short(d, 100)
        for cls, (fields_any, need_elem) in STATEMENT_CLASSES.items():
            if any(f in fs for f in fields_any):
                good = not ads and (has_elem or not need_elem)
                return cls, good, short(d, 100) + (' through %s' % sorted(ads) if ads else '')
    return None, False, short(d, 100)


def _step(t):
    """(kind, detail) of one access step, or None for wrappers that do not select"""
    if t.tag == 'elem':
        return ('elem',)
    if t.tag == 'elemat':
        return ('at', canon(t[2]))
    if t.tag == 'adapt':
        return ('adapt', t[1].replace('_mut', ''), tuple(canon(a) for a in t.args[2:]))
    if t.tag == 'via':
        return ('via', t[1])
    return None


def access_path(t):
    """selection steps from the root collection out to t (fields and mutation wrappers ignored)"""
    steps = []
    t = strip(t)
    while t.tag in ('elem', 'elemat', 'adapt', 'via', 'mut', 'field'):
        st = _step(t)
        if st is not None:
            steps.append(st)
        t = strip(t[2]) if t.tag in ('adapt', 'via', 'field') else strip(t[1])
    return list(reversed(steps))


def paths_to(t, root, limit=4):
    """access paths (root outward) of the maximal selection chains in t that end at `root`"""
    out = []
    for x in walk(t):
        if x.tag in ('elem', 'elemat', 'field', 'via'):
            y = strip(x)
            chain = []
            while y.tag in ('elem', 'elemat', 'adapt', 'via', 'mut', 'field'):
                st = _step(y)
                if st is not None:
                    chain.append(st)
                y = strip(y[2]) if y.tag in ('adapt', 'via', 'field') else strip(y[1])
            if y is root and chain:
                p = list(reversed(chain))
                if p not in out:
                    out.append(p)
    # keep only maximal chains
    return [p for p in out if not any(q != p and q[:len(p)] == p for q in out)][:limit]


def designated_member_data(ctx, body, mine, RULE):
    """Data of one designated member (the first statement) absorbed into *every* member's transcript stands for that member's own
    data only if the batch is refused unless the members agree on it: each such datum must be a field the consistency function
    compares between every member and the designated one.  (Otherwise a member is verified in a batch against data it is not
    verified against alone.)"""
    import re
    rep = ctx.rep
    from . import msm
    from .common import guard_table, unconditional
    cons = msm.consistency_fn(ctx, RULE)
    if cons is None:
        return
    compared = set()
    for r in guard_table(ctx, cons):
        if not any(c[0] == 'forall' for c in r['ctx']) or r['eff'] == 'bypass' or not unconditional(r):
            continue            # a comparison made for some members only does not make the members agree
        for a in r['atoms']:
            if a[0] == 'cmp' and a[1] == 'Eq':
                for x, y in ((a[2], a[3]), (a[3], a[2])):
                    m1 = re.match(r"^each\(p(\d+)\)(\.[A-Za-z0-9_.]+?)(<skip>)?$", x)
                    m2 = re.match(r"^p(\d+)\['first'\](\.[A-Za-z0-9_.]+)$", y)
                    if m1 and m2 and m1.group(1) == m2.group(1) and m1.group(2) == m2.group(2):
                        compared.add(m1.group(2))
    st_idx = [i for i in range(1, body.argc + 1) if body.local_ty(i).startswith('&[') and 'RangeStatement' in body.local_ty(i)]
    used = {}
    for e in mine:
        d = e.data()
        if d is None:
            continue
        for x in walk(d):
            if x.tag == 'field':
                c = canon(x)
                # <the statements slice, or the chunk of it handed to the core>['first'].<path>
                m = re.match(r"^(.+)\['first'\](\.[A-Za-z0-9_.]+)$", c)
                if m and any(re.search(r'(^|[^A-Za-z0-9_])p%d($|[^0-9])' % i, m.group(1)) for i in st_idx) and "['first']" not in m.group(1):
                    used.setdefault(m.group(2), e)
    # keep the maximal paths (a.b.c, not its prefixes a.b)
    paths = [p_ for p_ in used if not any(q != p_ and q.startswith(p_ + '.') for q in used)]
    for p_ in sorted(paths):
        ok = any(p_ == c_ or p_.startswith(c_ + '.') for c_ in compared)
        e = used[p_]
        rep.check(ok, RULE, '%s/verifier/designated%s' % (RULE, p_),
                  'the first statement\'s `%s`, absorbed for every member, is compared between every member and the first by the consistency function' % p_[1:],
                  'every member\'s transcript absorbs the first statement\'s `%s`, which the consistency function does not compare across members (compared: %s): a member is verified in a batch against data it is not verified against alone'
                  % (p_[1:], sorted(compared)), ctx.where(e.body, e.bb))
    rep.floor(RULE, 'fields compared across members by the consistency function', len(compared), 4)


def event_classes(ctx, body, role):
    """{id(event): datum class} for the absorptions on the caller's transcript (shared with R-C19-1: which datum goes under which label)"""
    mine, other, allev = wire.proof_events(ctx, body, 'R-C04-1')
    st_idx = [i for i in range(1, body.argc + 1) if 'RangeStatement' in body.local_ty(i)]
    pr_idx = [i for i in range(1, body.argc + 1) if 'RangeProof<' in body.local_ty(i)]
    fields = {}
    if role == 'prover':
        rt = ctx.eng.return_term(body)
        proofs = [x for x in walk(rt) if x.tag == 'adt' and x[1].endswith('RangeProof::RangeProof')]
        fields = dict(proofs[0][2]) if proofs else {}
    out = {}
    for e in mine:
        if e.kind == 'challenge':
            continue
        c, good, det = classify(ctx, body, role, e, st_idx, pr_idx, fields)
        out[id(e)] = (c, det)
    return out


def run(ctx):
    rep = ctx.rep
    for role in ('prover', 'verifier'):
        body = wire.entry(ctx, role, 'R-C04-1')
        if body is None:
            continue
        mine, other, allev = wire.proof_events(ctx, body, 'R-C04-1')
        if not mine:
            continue
        st_idx = [i for i in range(1, body.argc + 1) if 'RangeStatement' in body.local_ty(i)]
        pr_idx = [i for i in range(1, body.argc + 1) if 'RangeProof<' in body.local_ty(i)]
        fields = {}
        if role == 'prover':
            rt = ctx.eng.return_term(body)
            proofs = [x for x in walk(rt) if x.tag == 'adt' and x[1].endswith('RangeProof::RangeProof')]
            if not proofs:
                rep.anchor_missing('R-C04-4', 'R-C04-4/prover/aggregate', 'no RangeProof aggregate in the prover\'s return value')
                continue
            fields = dict(proofs[0][2])
        base = min(len(e.loops) for e in mine)
        chal = [i for i, e in enumerate(mine) if e.kind == 'challenge']
        if len(chal) < 4:
            rep.violation('R-C04-2', 'R-C04-2/%s/challenges' % role, 'only %d challenge draws on the caller\'s transcript (expected y, z, one per round, final)' % len(chal), ctx.where(body))
            continue
        top = [i for i in chal if len(mine[i].loops) == base]
        rnd = [i for i in chal if len(mine[i].loops) > base]
        if len(top) < 3 or not rnd:
            rep.violation('R-C04-2', 'R-C04-2/%s/challenge-structure' % role, 'challenge structure is %d straight-line and %d per-round draws (expected >= 3 and >= 1)' % (len(top), len(rnd)), ctx.where(body))
            continue
        first_ch, last_ch = top[0], top[-1]
        cls = {}
        for i, e in enumerate(mine):
            if e.kind == 'challenge':
                continue
            c, good, det = classify(ctx, body, role, e, st_idx, pr_idx, fields)
            if c is not None:
                cls.setdefault(c, []).append((i, e, good, det))
        # ---- R-C04-1 presence and well-formedness
        for c in PHASE0 + ['li', 'ri', 'a1', 'b']:
            hits = cls.get(c, [])
            key = 'R-C04-1/%s/%s' % (role, c)
            if not hits:
                rep.violation('R-C04-1', key, '%s: nothing absorbs the datum `%s` into the transcript: challenges do not depend on it' % (role, c), ctx.where(body))
                continue
            i, e, good, det = hits[0]
            conditional_ok = c in ('promise', 'promise-none')
            rep.check(good and (e.must or conditional_ok), 'R-C04-1', key, '%s absorbs `%s` (whole, from the caller\'s data): %s' % (role, c, det),
                      '%s absorbs `%s` defectively (%s): %s' % (role, c, 'not on every path' if not (e.must or conditional_ok) else 'not the whole datum of the caller', det), ctx.where(e.body, e.bb))
        # a datum absorbed element by element is absorbed to the end: every way out of the loop other than running out of elements refuses
        for c in PHASE0 + ['li', 'ri', 'a1', 'b']:
            for (i, e, good, det) in cls.get(c, [])[:1]:
                early = []
                for lpid in e.loops:
                    if lpid[0] != 'L':
                        continue
                    lb = ctx.facts.by_key.get(lpid[1])
                    lp = ctx.loops(lb).get(lpid[2]) if lb is not None else None
                    if lp is not None and lp.driver_bb is not None and not lp.driver_only_exit:
                        early.append((lb, lp))
                if e.loops and any(l[0] == 'L' for l in e.loops):
                    rep.check(not early, 'R-C04-1', 'R-C04-1/%s/%s/to-the-end' % (role, c), 'the loop that absorbs `%s` ends only when its elements run out (or by refusing)' % c,
                              'the loop that absorbs `%s` can be left early without refusing (a failure inside it is discarded): the elements after that point are never absorbed' % c,
                              ctx.where(early[0][0], early[0][1].header) if early else ctx.where(e.body, e.bb))
        # what is absorbed is the datum, not a copy that was overwritten between the datum and the absorption
        spoiled = [(e, wire.overwritten(e.data())) for e in mine if e.kind != 'challenge' and e.data() is not None]
        spoiled = [(e, o) for e, o in spoiled if o]
        rep.check(not spoiled, 'R-C04-1', 'R-C04-1/%s/integrity' % role, 'every absorbed value reaches the transcript as it is taken from its datum (no in-place change in between)',
                  'absorbed values changed in place before the absorption: %s' % [(e.label(), o) for e, o in spoiled][:4],
                  ctx.where(spoiled[0][0].body, spoiled[0][0].bb) if spoiled else ctx.where(body))
        # .. and as an encoding of the datum: no other function of a stored datum stands between it and the absorbed bytes
        rec = [(e, wire.recoded(e.data())) for e in mine if e.kind in ('append', 'append_u64') and e.data() is not None]
        rec = [(e, o) for e, o in rec if o]
        rep.check(not rec, 'R-C04-1', 'R-C04-1/%s/encoding' % role, 'every stored datum is absorbed through encodings only (compress / to_bytes / as_bytes ..)',
                  'a stored datum is absorbed through a function that is not an encoding, so different data may be absorbed as the same bytes: %s' % [(e.label(), o) for e, o in rec][:4],
                  ctx.where(rec[0][0].body, rec[0][0].bb) if rec else ctx.where(body))
        # the two promise alternatives are the only conditional absorptions
        cond = [e for i, e in enumerate(mine) if e.kind != 'challenge' and not e.must]
        pr_events = {id(x[1]) for c in ('promise', 'promise-none') for x in cls.get(c, [])}
        extra_cond = [e for e in cond if id(e) not in pr_events]
        rep.check(not extra_cond and len(pr_events) == 2, 'R-C04-1', 'R-C04-1/%s/conditional' % role, 'the only conditional absorptions are the two promise alternatives (Some(v) -> v, None -> 0)',
                  'conditional absorptions: %s; promise alternatives: %d' % ([(e.kind, e.label()) for e in extra_cond], len(pr_events)), ctx.where(body))
        # ---- R-C04-2 order
        def first_index(c):
            return cls[c][0][0] if c in cls else None
        for c in PHASE0:
            i = first_index(c)
            if i is None:
                continue
            rep.check(i < first_ch, 'R-C04-2', 'R-C04-2/%s/%s-before-y' % (role, c), '`%s` is absorbed before the first challenge' % c,
                      '`%s` is absorbed after the first challenge is drawn: y/z do not depend on it' % c, ctx.where(mine[i].body, mine[i].bb))
        for r_i in rnd:
            ch = mine[r_i]
            same = [j for c in ('li', 'ri') for (j, e, g, d) in cls.get(c, []) if e.loops == ch.loops and j < r_i]
            classes = {c for c in ('li', 'ri') for (j, e, g, d) in cls.get(c, []) if e.loops == ch.loops and j < r_i}
            rep.check(classes == {'li', 'ri'} and ch.must, 'R-C04-2', 'R-C04-2/%s/round' % role, 'each round challenge is drawn after that round\'s L and R in the same iteration',
                      'a round challenge is drawn after only %s of that iteration' % sorted(classes), ctx.where(ch.body, ch.bb))
            rep.check(r_i > top[1] if len(top) > 1 else True, 'R-C04-2', 'R-C04-2/%s/round-after-yz' % role, 'round challenges follow y and z', 'a round challenge precedes y/z', ctx.where(ch.body, ch.bb))
        for c in ('a1', 'b'):
            i = first_index(c)
            if i is None:
                continue
            rep.check(max(rnd) < i < last_ch, 'R-C04-2', 'R-C04-2/%s/%s-before-final' % (role, c), '`%s` is absorbed after the rounds and before the final challenge' % c,
                      '`%s` is not absorbed between the last round challenge and the final challenge' % c, ctx.where(mine[i].body, mine[i].bb))
        for i in top:
            rep.check(mine[i].must, 'R-C04-2', 'R-C04-2/%s/challenge-%d-unconditional' % (role, top.index(i)), 'challenge #%d is drawn on every accepted path' % top.index(i),
                      'challenge #%d is conditional' % top.index(i), ctx.where(mine[i].body, mine[i].bb))
        # ---- R-C04-3 receivers
        roots = {wire.root_of(e.receiver()) for e in mine}
        one = len(roots) == 1 and next(iter(roots)).tag == 'param'
        rep.check(one, 'R-C04-3', 'R-C04-3/%s/receiver' % role, 'all %d per-proof transcript events act on the caller-supplied transcript parameter %s' % (
            len(mine), short(next(iter(roots)), 40) if roots else None), 'transcript events act on several objects: %s' % [short(r, 60) for r in roots], ctx.where(body))
        # positional alignment: the transcript an event acts on is reached from the caller's slice the same way as the member
        # (statement / proof) whose data it absorbs -- member i is bound to transcript i
        naligned, bad_al = 0, []
        for e in mine:
            d = e.data()
            if d is None:
                continue
            rs = access_path(e.receiver())
            for x in walk(d):
                if x.tag == 'param' and x[1] == body.key and body.local_ty(x[2]).startswith('&[') and 'Transcript' not in body.local_ty(x[2]):
                    for ds in paths_to(d, x):
                        pre = ds[:len(rs)]
                        if any(k[0] == 'at' for k in pre):
                            continue            # data of a designated member (the first statement's generators): same for every proof
                        naligned += 1
                        if pre != rs:
                            bad_al.append((e, rs, pre))
        if role == 'verifier':
            rep.floor('R-C04-3', 'member-data absorptions compared for alignment', naligned, 8)
            designated_member_data(ctx, body, mine, 'R-C04-3')
        rep.check(not bad_al, 'R-C04-3', 'R-C04-3/%s/aligned' % role, 'every absorption acts on the transcript at the position of the member it absorbs (%d compared)' % naligned,
                  'transcript and member are reached differently: %s' % [((e.label() or b'?').decode('latin1'), r, p) for e, r, p in bad_al[:2]],
                  ctx.where(bad_al[0][0].body, bad_al[0][0].bb) if bad_al else ctx.where(body))
        news = [e for e in other if e.kind in ('transcript_new', 'transcript_clone')]
        allowed = [e for e in news if e.kind == 'transcript_new' and role == 'verifier' and not any(wire.root_of(x.receiver()) is e.result for x in mine)]
        # the challenges must be drawn from the caller's transcript, never from a fresh one
        ch_roots = {wire.root_of(mine[i].receiver()) for i in chal}
        rep.check(len(news) == len(allowed) and all(r.tag == 'param' for r in ch_roots), 'R-C04-3', 'R-C04-3/%s/fresh-transcripts' % role,
                  'challenges are drawn from the caller\'s transcript; no transcript is created or cloned on the proof path (verifier-weight transcript: %d)' % len(allowed),
                  'a fresh or cloned transcript is involved: %s' % [(e.kind, e.label()) for e in news if e not in allowed], ctx.where(body))
        # ---- R-C04-4
        for slot in PROOF_SLOTS:
            hits = cls.get(slot, [])
            if hits:
                i, e, good, det = hits[0]
                rep.check(good, 'R-C04-4', 'R-C04-4/%s/%s' % (role, slot),
                          ('the prover absorbs compress() of the point it stores as proof.%s' if role == 'prover' else 'the verifier absorbs field %s of the caller\'s proof (whole, in order)') % slot,
                          '%s: absorbed %s is %s' % (role, slot, det), ctx.where(e.body, e.bb))
