"""C04 Fiat-Shamir binding: each challenge depends on everything before it (structural, modulo merlin's collision resistance).

R-C04-1  schedule: the per-proof transcript events of prover and verifier match the protocol schedule, with the data slots filled
         from the statement / parameters / proof (whole collections, in order)
R-C04-2  absorbed-before-challenge: every datum class precedes, on every accepted path, each challenge drawn after it
R-C04-3  context: every event acts on the caller-supplied transcript
R-C04-4  prover messages absorbed are the ones stored in the proof; verifier absorbs the proof's fields
"""
from bpsa.normal import canon
from bpsa.terms import walk, short, T
from bpsa.trace import strip
from . import wire

LEVEL_TEXT = ('Static analysis (structured trace of merlin boundary calls over MIR with crate-local callees and closures spliced in). Decides that '
              'every public parameter, statement datum and prover message is absorbed into the caller\'s transcript, whole and in order, on every '
              'accepted path before each challenge that follows it in the protocol, in prover and verifier alike. Assumes merlin frames labels and '
              'lengths (distinct (label, data) sequences give distinct states); does not decide hash collision resistance.')
ASSUMPTIONS = ['merlin::Transcript::append_message / append_u64 / challenge_bytes bind label and length (STROBE framing)',
               'reverse post-order of must-executed blocks respects execution order (MIR from structured source is reducible)']
RULE_TEXT = ('one obligation per schedule position per role (kind, label, loop depth, must-ness, validation), one per data slot, one per challenge '
             '(absorbed-before), one per receiver; non-trivial = decided from a data/receiver term')

ALLOWED_ADAPTERS = {'chunks', 'chunks_mut'}
# slot -> (fields that must occur in the data term (any of), source: 'statement' | 'proof')
SLOTS = {
    'h_base': (('h_base', 'h_base_compressed'), 'statement'),
    'g_bases': (('g_base_compressed_vec', 'g_base_vec'), 'statement'),
    'bit_length': (('gens_capacity',), 'statement'),
    'extension_degree': (('extension_degree',), 'statement'),
    'aggregation': (('commitments', 'commitments_compressed'), 'statement'),
    'commitments': (('commitments_compressed', 'commitments'), 'statement'),
    'promise': (('minimum_value_promises',), 'statement'),
}
PROOF_SLOTS = ['a', 'li', 'ri', 'a1', 'b']
ELEMENT_SLOTS = {'g_bases', 'commitments', 'promise', 'li', 'ri'}


def param_roots(t):
    return {(x[1], x[2]) for x in walk(t) if x.tag == 'param'}


def run(ctx):
    rep = ctx.rep
    for role in ('prover', 'verifier'):
        body = wire.entry(ctx, role, 'R-C04-1')
        if body is None:
            continue
        slots = wire.match_schedule(ctx, 'R-C04-1', body, role, wire.SCHEDULE + (wire.VERIFIER_TAIL if role == 'verifier' else []))
        if slots is None:
            continue
        evs = slots['_events']
        st_idx = [i for i in range(1, body.argc + 1) if 'RangeStatement' in body.local_ty(i)]
        pr_idx = [i for i in range(1, body.argc + 1) if 'RangeProof<' in body.local_ty(i)]
        # ---- data slots from the statement / parameters
        for slot, (fields, src) in SLOTS.items():
            es = slots.get(slot, [])
            for n, e in enumerate(es):
                d = e.data()
                key = 'R-C04-1/%s/slot/%s/%d' % (role, slot, n)
                where = ctx.where(e.body, e.bb)
                if slot == 'promise' and d is not None and strip(d).tag in ('const', 'cast') and not param_roots(d):
                    # the `None => 0` alternative
                    zero = [x for x in walk(d) if x.tag == 'const']
                    rep.check(bool(zero) and zero[0][1] == 0, 'R-C04-1', key, 'absent promise absorbed as the constant 0', 'absent promise absorbed as %s' % short(d, 80), where)
                    continue
                fs = ctx.fields_of(d) if d is not None else set()
                roots = param_roots(d) if d is not None else set()
                good_field = any(f in fs for f in fields)
                good_root = any((body.key, i) in roots for i in st_idx)
                ads = set(ctx.adapters(d)) - ALLOWED_ADAPTERS if d is not None else set()
                elem_ok = True
                if slot in ELEMENT_SLOTS:
                    elem_ok = any(x.tag == 'elem' for x in walk(d))
                rep.check(good_field and good_root and not ads and elem_ok, 'R-C04-1', key,
                          '%s absorbs %s of the statement (whole, in order): %s' % (e.label(), '/'.join(fields), short(d, 140)),
                          '%s does not absorb the whole %s of the caller\'s statement: data = %s%s' % (
                              e.label(), '/'.join(fields), short(d, 200), ' (through %s)' % sorted(ads) if ads else ''), where)
            if slot == 'promise':
                kinds = sorted('const' if not param_roots(e.data()) else 'some' for e in es)
                rep.check(kinds == ['const', 'some'], 'R-C04-1', 'R-C04-1/%s/slot/promise/alternatives' % role,
                          'promise absorption has exactly the two alternatives Some(v) -> v and None -> 0',
                          'promise absorption alternatives are %s' % kinds, ctx.where(body))
        # ---- prover messages
        if role == 'verifier':
            for slot in PROOF_SLOTS:
                for n, e in enumerate(slots.get(slot, [])):
                    d = e.data()
                    fs = ctx.fields_of(d)
                    roots = param_roots(d)
                    ads = set(ctx.adapters(d)) - ALLOWED_ADAPTERS
                    good = slot in fs and any((body.key, i) in roots for i in pr_idx) and not ads
                    if slot in ELEMENT_SLOTS:
                        good = good and any(x.tag == 'elem' and x[1].tag == 'field' and x[1][1] == slot for x in walk(d))
                    rep.check(good, 'R-C04-4', 'R-C04-4/verifier/%s' % slot, '%s absorbs field %s of the proof (whole, in order): %s' % (e.label(), slot, short(d, 120)),
                              '%s does not absorb field %s of the caller\'s proof: %s' % (e.label(), slot, short(d, 200)), ctx.where(e.body, e.bb))
        else:
            check_prover_messages(ctx, body, slots)
        # ---- R-C04-2 absorbed-before-challenge
        seen_must = []
        for i, e in enumerate(evs):
            if e.kind != 'challenge':
                continue
            prior = evs[:i]
            # every earlier schedule entry is on every accepted path (or is the two-way promise alternative)
            cond = [p for p in prior if not p.must and p.label() != b'vi - minimum_value']
            # a challenge inside the round loop must be preceded in the same iteration by that iteration's L and R
            depth = len(e.loops)
            same_iter = [p for p in prior if p.loops == e.loops and p.kind != 'challenge']
            ok = not cond and e.must and (depth == min(len(x.loops) for x in evs) or len(same_iter) >= 2)
            rep.check(ok, 'R-C04-2', 'R-C04-2/%s/challenge-%02d-%s' % (role, i, (e.label() or b'?').decode('latin1')),
                      'challenge %r (position %d) is drawn after all %d preceding absorptions on every accepted path' % (e.label(), i, len(prior)),
                      'challenge %r (position %d) can be drawn without %s' % (e.label(), i, [(p.kind, p.label()) for p in cond] or 'its own round messages'),
                      ctx.where(e.body, e.bb))
        # ---- R-C04-3 receivers
        roots = {wire.root_of(e.receiver()) for e in evs}
        one = len(roots) == 1 and next(iter(roots)).tag == 'param'
        rep.check(one, 'R-C04-3', 'R-C04-3/%s/receiver' % role, 'all %d per-proof transcript events act on the caller-supplied transcript parameter %s' % (
            len(evs), short(next(iter(roots)), 40) if roots else None), 'transcript events act on several objects: %s' % [short(r, 60) for r in roots], ctx.where(body))
        news = [e for e in slots['_other'] if e.kind in ('transcript_new', 'transcript_clone')]
        allowed = [e for e in news if e.kind == 'transcript_new' and e.label() == wire.WEIGHT_LABEL and role == 'verifier']
        rep.check(len(news) == len(allowed), 'R-C04-3', 'R-C04-3/%s/fresh-transcripts' % role,
                  'no transcript is created or cloned on the proof path (only the verifier-weight transcript: %d)' % len(allowed),
                  'a fresh or cloned transcript is used: %s' % [(e.kind, e.label()) for e in news if e not in allowed], ctx.where(body))


def check_prover_messages(ctx, body, slots):
    """R-C04-4 (prover): the absorbed A, L, R, A1, B are compress() of the values stored in the returned proof"""
    rep = ctx.rep
    rt = ctx.eng.return_term(body)
    proofs = [x for x in walk(rt) if x.tag == 'adt' and x[1].endswith('RangeProof::RangeProof')]
    if not proofs:
        rep.anchor_missing('R-C04-4', 'R-C04-4/prover/aggregate', 'no RangeProof aggregate in the prover\'s return value')
        return
    fields = dict(proofs[0][2])
    for slot in PROOF_SLOTS:
        es = slots.get(slot, [])
        if not es:
            rep.anchor_missing('R-C04-4', 'R-C04-4/prover/%s' % slot, 'no transcript event for prover message %s' % slot)
            continue
        d = es[0].data()
        stored = fields.get(slot)
        key = 'R-C04-4/prover/%s' % slot
        where = ctx.where(es[0].body, es[0].bb)
        comp = [x for x in walk(d) if x.tag == 'call' and x[1].endswith('Compressable::compress')]
        if not comp or stored is None:
            rep.violation('R-C04-4', key, 'absorbed %s is not the compression of a computed point: %s' % (slot, short(d, 160)), where)
            continue
        pt = strip(comp[0][2][0])
        if slot in ('li', 'ri'):
            # absorbed: compress(last(vec)); stored: map(vec, compress)
            vec = strip(pt[1]) if pt.tag == 'elemat' else None
            svec = [x for x in walk(stored) if x.tag == 'mut' and strip(x) is vec] if vec is not None else []
            good = vec is not None and (bool(svec) or any(strip(x) is vec for x in walk(stored)))
            rep.check(good, 'R-C04-4', key, 'absorbed %s is the compression of the newest element of the vector whose compression is stored as proof.%s' % (slot, slot),
                      'absorbed %s (%s) and stored proof.%s (%s) do not come from the same vector' % (slot, short(d, 100), slot, short(stored, 100)), where)
        else:
            scomp = [x for x in walk(stored) if x.tag == 'call' and x[1].endswith('Compressable::compress')]
            good = any(strip(x[2][0]) is pt or same_point(strip(x[2][0]), pt) for x in scomp)
            rep.check(good, 'R-C04-4', key, 'absorbed %s is compress() of the same point that is stored as proof.%s' % (slot, slot),
                      'absorbed %s = %s but proof.%s = %s' % (slot, short(d, 120), slot, short(stored, 120)), where)


def same_point(a, b):
    """same accumulator variable, possibly observed before / after the same in-place additions"""
    if a is b:
        return True
    from bpsa.normal import canon
    return canon(a) == canon(b)
