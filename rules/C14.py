"""C14 Prover randomness is hedged against failure of the external RNG (structural).

R-C14-1  the external RNG reaches only TranscriptRngBuilder::finalize; every random draw in the prover takes a transcript-derived RNG
R-C14-2  the prover hands its witness to the transcript wrapper, whose RNG is rekeyed with bytes that contain every opening's value and
         every blinding factor (whole nested iteration); the stored bytes reach every rebuild as they were stored (no Option method
         that can turn Some into None in between)
R-C14-3  every RNG is finalize([rekey(]build_rng(T)[, "witness", bytes)], external) with T the live caller transcript; the un-keyed form is
         only reachable when no witness bytes exist
R-C14-4  the RNG is rebuilt after the absorptions of every step and before that step's challenges (and stored in the wrapper)
"""
from bpsa.facts import callee_decl, callee_name
from bpsa.terms import ev_site, walk, short, TERM_IDX
from bpsa.trace import strip
from . import wire, ilen

LEVEL_TEXT = ('Static analysis (boundary-event trace + def-use over MIR). Decides that the prover never draws from the external RNG directly, that '
              'every draw uses a merlin TranscriptRng built from the live transcript, rekeyed with the complete serialised witness and finalised '
              'with the external RNG, and that this RNG is rebuilt after each transcript update. Does not decide the PRF quality of merlin\'s construction.')
ASSUMPTIONS = ['merlin::TranscriptRngBuilder::rekey_with_witness_bytes / finalize implement the documented hedged construction']
RULE_TEXT = ('one obligation per random draw, per finalize event, per rekey datum, per challenge step (rebuild-before-challenge), per store into the RNG '
             'field; non-trivial = decided from a data / receiver term')


def heads(t):
    t = strip(t)
    if t.tag == 'phi':
        out = []
        for x in t.args:
            out.extend(heads(x))
        return out
    return [t]


def is_generic_mut_ref(ty):
    """`&mut R` for a generic parameter R (whatever it is called): a bare identifier, no path, no type arguments"""
    import re
    return bool(re.match(r"^&mut [A-Za-z_]\w*$", ty)) and ty[5:] not in ('u8', 'u16', 'u32', 'u64', 'usize', 'bool', 'str')


def finalize_uses_external(ctx, rule):
    """every construction of a transcript RNG on the prover's trace mixes in the caller's RNG (shared: R-C14-1, R-C13-5)"""
    rep = ctx.rep
    prover = wire.entry(ctx, 'prover', rule)
    if prover is None:
        return
    evs = wire.entry_trace(ctx, prover)
    rng_idx = [i for i in range(1, prover.argc + 1) if is_generic_mut_ref(prover.local_ty(i))]
    if not rng_idx:
        rep.anchor_missing(rule, rule + '/params', 'prover has no generic `&mut R` RNG parameter')
        return
    rng_p = rng_idx[0]
    fins = [e for e in evs if e.kind == 'finalize']
    # one per rebuild point of the protocol: after the statement, after A, per round, after A1/B
    rep.floor(rule, 'finalize events in the prover trace', len(fins), 4)
    for n, e in enumerate(fins):
        a = strip(e.args[1]) if len(e.args) > 1 else None
        ext = a is not None and a.tag == 'param' and a[1] == prover.key and a[2] == rng_p
        rep.check(ext, rule, '%s/finalize/%02d' % (rule, n), 'finalize #%d mixes in the caller\'s external RNG' % n,
                  'finalize #%d is given %s instead of the caller\'s RNG: draws from it do not vary with the caller\'s randomness' % (n, short(e.args[1], 100) if len(e.args) > 1 else None),
                  ctx.where(e.body, e.bb))


def _walk_values(t):
    """sub-terms whose *value* the term depends on: the position counter of a loop (`idx(X)`) depends on that loop only, not on what
    X is an element of"""
    from bpsa.terms import is_term
    stack = [t]
    seen = set()
    while stack:
        x = stack.pop()
        if not is_term(x):
            if isinstance(x, tuple):
                stack.extend(x)
            continue
        if x.id in seen:
            continue
        seen.add(x.id)
        yield x
        if x.tag == 'index':
            continue
        stack.extend(x.args)


# Option methods under which Some stays Some with the same content (by reference, by copy, or mapped)
OPTION_KEEPS = {'as_ref', 'as_mut', 'as_deref', 'as_deref_mut', 'as_slice', 'map', 'cloned', 'copied', 'clone', 'iter', 'into_iter', 'unwrap', 'expect',
                'unwrap_or_default', 'is_some', 'is_none', 'ok_or', 'ok_or_else', 'inspect', 'from', 'into', 'deref'}


def canon_ty(x):
    """best-effort: the spelled callee of a clone call (the receiver type is not in the term)"""
    return x[1]


def positional_fill(ctx, rep, d, n):
    """Witness bytes written positionally (`buf[a..b].copy_from_slice(x)` inside loops over the openings / blinding factors) instead of
    appended: every iteration must write its own bytes.  Decided on the offset terms: (1) the offset of a write depends on the index of
    every enclosing loop (otherwise later iterations overwrite earlier ones and only the last element reaches the RNG key); (2) where the
    sizes are polynomials of the lengths, the bytes written in total equal the buffer's length (no part of the buffer stays zero while
    a part of the witness is left out)."""
    from bpsa.normal import canon
    seen = set()
    total = {}
    total_ok = True
    buf_len = None
    nwrites = 0
    for ev in [x for x in walk(d) if x.tag == 'ev' and x[1] == 'call' and x[2].split('::')[-1] in ('copy_from_slice', 'clone_from_slice') and x[4]]:
        bkey, ebb = ev_site(ev)
        if (bkey, ebb) in seen:
            continue
        seen.add((bkey, ebb))
        eb = ctx.facts.by_key.get(bkey)
        if eb is None:
            continue
        recv = ctx.args(eb, ebb)[0]
        r0 = recv
        while r0.tag in ('mut', 'via'):
            r0 = r0[1] if r0.tag == 'mut' else r0[2]
        if r0.tag != 'elemat':
            continue
        base = r0[1]
        nwrites += 1
        zk = 'R-C14-2/rekey/%02d/positional@%s:%d' % (n, bkey.split('::')[-1], ebb)
        try:
            rb = ilen.range_bounds(r0[2], base)
        except ilen.NoLen:
            rb = None
        lo_t = None
        rr = r0[2]
        while rr.tag in ('mut', 'via'):
            rr = rr[1] if rr.tag == 'mut' else rr[2]
        if rr.tag == 'range':
            lo_t = rr[1]
        elif rr.tag == 'adt' and rr[2]:
            lo_t = dict(rr[2]).get('start')
        loops = ctx.enclosing_loops(eb, ebb)
        missing = []
        for lp in loops:
            it = strip(lp.iter_term) if lp.iter_term is not None else None
            if it is None:
                continue
            coll = it
            while coll.tag in ('enumerate', 'adapt') and coll.tag == 'enumerate':
                coll = strip(coll[1])
            sub = list(_walk_values(lo_t)) if lo_t is not None else []
            dep = any((x.tag in ('index', 'elem') and (strip(x[1]) is coll or strip(x[1]) is it)) or x.tag == 'lv' for x in sub)
            if not dep:
                missing.append(short(lp.iter_term, 60))
        rep.check(not missing, 'R-C14-2', zk, 'the offset of the positional write depends on the index of each of its %d enclosing loops' % len(loops),
                  'a positional write of witness bytes uses an offset (%s) that does not depend on the loop over %s: every iteration overwrites the same bytes and only the last one reaches the RNG key'
                  % (short(lo_t, 80) if lo_t is not None else '?', missing), ctx.where(eb, ebb))
        # bytes written by this site in total
        try:
            if rb is None:
                raise ilen.NoLen('range')
            w = ilen.padd(rb[1], rb[0], -1)
            cnt = w
            for lp in loops:
                cnt = ilen.pmul(cnt, ilen.icount(lp.iter_term))
            if any(any('idx(' in a for a in mono) for mono in cnt):
                raise ilen.NoLen('width depends on an index')
            total = ilen.padd(total, cnt)
            bl = ilen.clen(base)
            buf_len = bl if buf_len is None else buf_len
            if bl != buf_len:
                total_ok = False
        except ilen.NoLen:
            total_ok = False
    if nwrites and total_ok and buf_len is not None:
        rep.check(total == buf_len, 'R-C14-2', 'R-C14-2/rekey/%02d/positional-total' % n, 'the positional writes fill the buffer exactly (%s bytes)' % (buf_len,),
                  'the positional writes put %s bytes into a buffer of %s bytes: part of the witness is left out, or part of the buffer stays zero' % (total, buf_len))


def run(ctx):
    rep = ctx.rep
    prover = wire.entry(ctx, 'prover', 'R-C14-1')
    if prover is None:
        return
    evs = wire.entry_trace(ctx, prover)
    rng_idx = [i for i in range(1, prover.argc + 1) if is_generic_mut_ref(prover.local_ty(i))]
    wit_idx = [i for i in range(1, prover.argc + 1) if 'RangeWitness' in prover.local_ty(i)]
    if not rng_idx or not wit_idx:
        rep.anchor_missing('R-C14-1', 'R-C14-1/params', 'prover has no generic `&mut R` RNG parameter / no witness parameter')
        return
    rng_p, wit_p = rng_idx[0], wit_idx[0]

    def is_ext(t):
        t = strip(t)
        return t.tag == 'param' and t[1] == prover.key and t[2] == rng_p

    # the function that builds transcript RNGs (contains the finalize call)
    fin_sites = ctx.facts.callers_decl.get('merlin::TranscriptRngBuilder::finalize', [])
    builder_fns = {b.path for (b, bb, t) in fin_sites}

    # ---- R-C14-1 ---------------------------------------------------------------------------------------
    draws = [e for e in evs if e.kind == 'draw']
    rep.floor('R-C14-1', 'random draw events in the prover trace', len(draws), 7)
    for n, e in enumerate(draws):
        hs = heads(e.args[0])
        direct = [h for h in hs if is_ext(h)]
        derived = all((h.tag == 'call' and (h[1] in builder_fns or h[1].endswith('finalize'))) for h in hs)
        key = 'R-C14-1/draw/%02d' % n
        rep.check(not direct and derived, 'R-C14-1', key, 'draw #%d takes a transcript-derived RNG: %s' % (n, short(e.args[0], 120)),
                  'draw #%d takes %s' % (n, 'the external RNG directly' if direct else 'an RNG that is not built from the transcript: ' + short(e.args[0], 200)),
                  ctx.where(e.body, e.bb))
    fins = [e for e in evs if e.kind == 'finalize']
    rep.floor('R-C14-1', 'finalize events in the prover trace', len(fins), 4)
    for n, e in enumerate(fins):
        rep.check(len(e.args) > 1 and is_ext(e.args[1]), 'R-C14-1', 'R-C14-1/finalize/%02d' % n, 'finalize #%d mixes in the caller\'s external RNG' % n,
                  'finalize #%d is given %s instead of the caller\'s RNG' % (n, short(e.args[1], 100) if len(e.args) > 1 else None), ctx.where(e.body, e.bb))
    # no other use of the external RNG in the prover body
    uses = []
    for bb, t in ctx.calls(prover):
        for a in ctx.args(prover, bb):
            if is_ext(a):
                uses.append((bb, callee_name(t)))
    good = len(uses) >= 1 and all(n in ctx.facts.fn for _, n in uses)
    rep.check(good, 'R-C14-1', 'R-C14-1/external-rng-uses', 'the external RNG is only handed to %s' % sorted({n for _, n in uses}),
              'the external RNG is passed to %s' % [n for _, n in uses if n not in ctx.facts.fn], ctx.where(prover))

    # ---- R-C14-2 ---------------------------------------------------------------------------------------
    rekeys = [e for e in evs if e.kind == 'rekey']
    rep.floor('R-C14-2', 'rekey events in the prover trace', len(rekeys), 4)
    some_passed = False
    for bb, t in ctx.calls(prover):
        if callee_name(t) in ctx.facts.fn:
            for a in ctx.args(prover, bb):
                if a.tag == 'adt' and a[1].endswith('Option::Some') and a[2] and strip(a[2][0][1]).tag == 'param' and strip(a[2][0][1])[2] == wit_p:
                    some_passed = True
    rep.check(some_passed, 'R-C14-2', 'R-C14-2/some-witness', 'the prover passes Some(witness) to the transcript wrapper', 'the prover does not pass Some(witness) to the transcript wrapper', ctx.where(prover))
    for n, e in enumerate(rekeys):
        d = ctx.eng.expand(e.data())
        key = 'R-C14-2/rekey/%02d' % n
        lab = e.label()
        fields = {}
        for x in walk(d):
            if x.tag == 'field' and x[1] in ('v', 'r'):
                fields.setdefault(x[1], []).append(x)
        def whole(xs):
            # field of an element of the witness's openings, no extent-changing adapter, witness parameter at the root
            for x in xs:
                base = x[2]
                ads = ctx.adapters(base)
                roots = {(y[1], y[2]) for y in walk(base) if y.tag == 'param'}
                if not ads and (prover.key, wit_p) in roots and any(y.tag == 'elem' for y in walk(base)) and ctx.mentions_field(base, 'openings'):
                    return True
            return False
        okv, okr = whole(fields.get('v', [])), whole(fields.get('r', []))
        r_each = any(x.tag == 'elem' and x[1].tag == 'field' and x[1][1] == 'r' for x in walk(d))
        no_adapt = not ctx.adapters(d)
        # fills that happen in a loop pairing the source with something else (slots carved out of a pre-sized buffer): the pairing must
        # be exhaustive, i.e. both sides have the same number of items (symbolic length arithmetic), or elements are left out
        for ev in [x for x in walk(d) if x.tag == 'ev' and x[4]]:
            bkey, ebb = ev_site(ev)
            eb = ctx.facts.by_key.get(bkey)
            if eb is None:
                continue
            for lp in ctx.enclosing_loops(eb, ebb):
                z = strip(lp.iter_term) if lp.iter_term is not None else None
                if z is None or z.tag != 'zip':
                    continue
                zk = 'R-C14-2/rekey/%02d/paired-fill@%s' % (n, lp.header)
                try:
                    ca, cb = ilen.icount(z[1]), ilen.icount(z[2])
                    same = ca == cb
                    why = '%s vs %s' % (ca, cb)
                except ilen.NoLen as ex:
                    same, why = False, 'lengths not comparable (%s)' % ex
                rep.check(same, 'R-C14-2', zk, 'the fill loop pairs its two sides exhaustively (equal counts: %s)' % why,
                          'a fill loop of the witness bytes pairs the secret source with slots of a different count (%s): part of the witness may be left out of the RNG key' % why,
                          ctx.where(eb, ebb))
        positional_fill(ctx, rep, d, n)
        # .. on every path: the optional bytes the wrapper was built with are the ones every rebuild uses; an Option method that can turn
        # Some into None (`filter`, `take`, `and`, `xor`, `and_then` ..) between the two makes some rebuilds un-keyed for the prover
        narrowing = sorted({x[1].split('::')[-1] for x in walk(d) if x.tag == 'call' and x[1].startswith('std::option::Option') and
                            x[1].split('::')[-1] not in OPTION_KEEPS})
        rep.check(not narrowing, 'R-C14-2', key + '/unconditional', 'the witness bytes reach rekey #%d as they were stored (no Option method that can drop them)' % n,
                  'the witness bytes reach rekey #%d through Option::%s: for some statements this rebuild of the RNG is not keyed by the witness' % (n, ', Option::'.join(narrowing)),
                  ctx.where(e.body, e.bb))
        rep.check(lab == wire.WITNESS_LABEL and okv and okr and r_each and no_adapt, 'R-C14-2', key,
                  'rekey #%d uses label %r and bytes containing every opening\'s value and every blinding factor' % (n, lab),
                  'rekey #%d: label %r, value covered: %s, blinding factors covered: %s (element-wise: %s); data = %s' % (n, lab, okv, okr, r_each and no_adapt, short(d, 200)) + (' through %s' % ctx.adapters(d) if not no_adapt else ''),
                  ctx.where(e.body, e.bb))

    # ---- R-C14-3 ---------------------------------------------------------------------------------------
    # "live": there is one transcript on the prover path.  With a copy in play (absorb into the copy, build the RNG from the original, or the
    # reverse) an RNG can be taken from a state that lacks what was just absorbed although every construction has the right shape.
    clones = [e for e in evs if e.kind == 'transcript_clone']
    rep.check(not clones, 'R-C14-3', 'R-C14-3/live-transcript', 'no copy of the transcript is made on the prover path: every RNG is built from the one live state',
              'the transcript is cloned on the prover path (%d site(s)): absorptions and RNG constructions may act on different states' % len(clones),
              ctx.where(clones[0].body, clones[0].bb) if clones else ctx.where(prover))
    tparams = [i for i in range(1, prover.argc + 1) if 'merlin::Transcript' in prover.local_ty(i)]
    for n, e in enumerate(fins):
        chain0 = strip(e.args[0])
        # `let b = match bytes { Some(w) => b.rekey(w), None => b }; b.finalize(rng)`: one site, two alternative receivers
        alts = [strip(x) for x in chain0.args] if chain0.tag == 'phi' else [chain0]
        ok = True
        shapes = []
        cloned = False
        for chain in alts:
            shape = []
            t = chain
            while t.tag == 'call':
                nm = t[1].split('::')[-1]
                shape.append(nm)
                if nm == 'build_rng':
                    root = wire.root_of(t[2][0])
                    ok = ok and root.tag == 'param' and root[1] == prover.key and root[2] in tparams
                    break
                if not t[2]:
                    break
                t = strip(t[2][0])
            shapes.append(shape)
            cloned = cloned or any(x.tag == 'call' and x[1].endswith(('Transcript::clone', 'Clone::clone')) and 'Transcript' in canon_ty(x) for x in walk(chain))
        good_shape = all(shape in (['rekey_with_witness_bytes', 'build_rng'], ['build_rng']) for shape in shapes)
        rep.check(ok and good_shape and not cloned, 'R-C14-3', 'R-C14-3/finalize/%02d' % n,
                  'finalize #%d = finalize(%s of the live caller transcript, external)' % (n, ' | '.join('∘'.join(sh) for sh in shapes)),
                  'finalize #%d has shape %s over %s%s' % (n, shapes, short(chain0, 160), ' (a cloned transcript)' if cloned else ''), ctx.where(e.body, e.bb))
    # the un-keyed finalize is only reachable when the witness bytes are None
    for (b, bb, t) in fin_sites:
        if b.key not in {x.key for x in ctx.facts.reachable_from([prover])}:
            continue
        for a0, dbb in ctx.alternatives(b, bb, TERM_IDX, t['args'][0]):
            a0 = strip(a0)
            keyed = a0.tag == 'call' and a0[1].endswith('rekey_with_witness_bytes')
            pcs = ctx.path_conditions(b, bb) + (ctx.path_conditions(b, dbb) if dbb != bb else [])
            on_none = any(c.tag == 'discr' and '1' not in arms and set(arms) <= {'0', 'otherwise'} and (ctx.discr_type(b, b.block[sw]['term']['discr']) or '').startswith('std::option::Option<') for (sw, c, arms, tg) in pcs)
            on_some = any(c.tag == 'discr' and arms == ('1',) and (ctx.discr_type(b, b.block[sw]['term']['discr']) or '').startswith('std::option::Option<') for (sw, c, arms, tg) in pcs)
            key = 'R-C14-3/%s/%s' % (b.path, 'keyed' if keyed else 'unkeyed')
            if keyed:
                rep.check(on_some, 'R-C14-3', key, 'the rekeyed construction is used whenever witness bytes are present', 'rekeyed finalize is not on the Some(bytes) branch', ctx.where(b, bb))
            else:
                rep.check(on_none, 'R-C14-3', key, 'the un-keyed construction is only reachable when there are no witness bytes (verifier)',
                          'an un-keyed finalize is reachable even when witness bytes exist', ctx.where(b, bb))

    # ---- R-C14-4 ---------------------------------------------------------------------------------------
    mine = [e for e in evs if e.kind in ('append', 'append_u64', 'challenge', 'finalize')]
    last_append = None
    rebuilt = False
    steps = 0
    for i, e in enumerate(mine):
        if e.kind in ('append', 'append_u64'):
            r = wire.root_of(e.receiver())
            if r.tag == 'param' and r[1] == prover.key:
                last_append = e
                rebuilt = False
        elif e.kind == 'finalize':
            rebuilt = True
        elif e.kind == 'challenge':
            if last_append is not None:
                steps += 1
                rep.check(rebuilt, 'R-C14-4', 'R-C14-4/step-%02d-%s' % (steps, (e.label() or b'?').decode('latin1')),
                          'the transcript RNG is rebuilt after the absorption of %r and before challenge %r' % (last_append.label(), e.label()),
                          'challenge %r is drawn without rebuilding the RNG after absorbing %r' % (e.label(), last_append.label()), ctx.where(e.body, e.bb))
                last_append = None if False else last_append
    rep.floor('R-C14-4', 'challenge steps', steps, 4)
    # the rebuilt RNG is stored in the wrapper
    nstore = 0
    stores = {}
    for b in ctx.facts.reachable_from([prover]):
        for ev in ctx.eng.bx(b).events():
            if ev['kind'] == 'store':
                t = ctx.eng.event_term(b, ev)
                if any(x.tag == 'call' and (x[1] in builder_fns or x[1].endswith('finalize')) for x in walk(t)):
                    stores.setdefault(b.key, []).append((ev, t))
    # one obligation per rebuild on the prover's trace: some frame of its call chain stores the rebuilt RNG (a shared helper that
    # does the store is counted once per place it is called from)
    seen = set()
    for e in [x for x in evs if x.kind == 'finalize']:
        for (bkey, bb) in e.site:
            if bkey in stores and (e.site[:e.site.index((bkey, bb)) + 1]) not in seen:
                seen.add(e.site[:e.site.index((bkey, bb)) + 1])
                nstore += 1
                ev, t = stores[bkey][0]
                b = ctx.facts.by_key[bkey]
                rep.ok('R-C14-4', 'R-C14-4/store/%s/%d' % (b.path, nstore), 'rebuilt RNG stored into %s' % t[2], ctx.where(b, ev['bb']))
                break
    rep.floor('R-C14-4', 'stores of a rebuilt RNG into the wrapper', nstore, 3)
