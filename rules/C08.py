"""C08 Batch weighting: defects in different proofs can never cancel (structural).

R-C08-1  provenance: the weight is drawn from finalize(build_rng(W), NullRng) where W is a fresh transcript that has absorbed, in a
         whole loop over all members finished before the draw, a value drawn from each member's transcript RNG after r1, s1 and
         every d1 element were appended to that member's transcript (after its final challenge)
R-C08-2  one fresh, non-zero weight per proof: the draw is in the per-proof loop (not in an inner loop), dominates every
         accumulation of that iteration, and goes through a rejection-sampling function
R-C08-3  homogeneity: every value accumulated into a shared scalar of the gate MSM inside the per-proof loop has degree exactly 1
         in that iteration's weight
"""
from bpsa.facts import callee_decl, callee_name
from bpsa.normal import canon
from bpsa.terms import walk, short, TERM_IDX, mk_elem, T
from . import wire, msm, weights
from .weights import strip

LEVEL_TEXT = ('Static analysis (def-use provenance of the weight, loop structure, homogeneous-degree analysis of accumulated terms). Decides that each '
              'proof\'s equation enters the batch multiplied by its own non-zero weight, that the weight depends on every response scalar of every '
              'proof in the batch, that no accumulated term escapes the weight, and that no member can bypass the accumulation sites of its iteration on a test of its own data. Does not decide the improbability of cancellation.')
ASSUMPTIONS = ['merlin transcript RNGs are pseudorandom functions of everything absorbed', 'Scalar arithmetic is a commutative ring (degree analysis)']
RULE_TEXT = 'one obligation per provenance link, per accumulation site (degree), per structural fact about the draw; non-trivial = decided from a term'

FILL = ('push', 'extend', 'extend_from_slice', 'append')


def run(ctx):
    rep = ctx.rep
    g = weights.gate(ctx, 'R-C08-1')
    if g is None:
        return
    v, gbb, args = g
    cfg = ctx.cfgof(v)
    scal = [args[1], args[2]]
    ws, samplers = weights.weight_atoms(ctx, v, scal)
    if len(ws) != 1:
        rep.anchor_missing('R-C08-2', 'R-C08-2/weight-atom', 'expected exactly one rejection-sampled draw feeding the gate scalars, found %d: every proof must be multiplied by a fresh non-zero weight' % len(ws))
        return
    w = ws[0]
    wbb = w[3][0][1]
    where_w = ctx.where(v, wbb)
    # ---- R-C08-2
    wl = tuple(cfg.loop_of.get(wbb, []))
    rep.check(len(wl) == 1, 'R-C08-2', 'R-C08-2/draw-in-per-proof-loop', 'the weight is drawn once per iteration of the per-proof loop (loop nesting depth 1)',
              'the weight draw is at loop nesting depth %d: it is not fresh per proof' % len(wl), where_w)
    sm = samplers.get(w[1], {})
    rep.check(bool(sm.get('exit_nonzero')) and bool(sm.get('draws')), 'R-C08-2', 'R-C08-2/non-zero', 'the weight comes from a rejection-sampling function (loops while the draw equals zero)',
              '%s does not reject zero' % w[1], where_w)
    if not wl:
        return
    L = wl[0]
    lp = ctx.loops(v)[L]
    it = lp.iter_term
    rep.check(it is not None and not ctx.adapters(it) and lp.driver_only_exit, 'R-C08-2', 'R-C08-2/per-proof-loop-whole', 'the per-proof loop covers every member: %s' % short(it, 100),
              'the per-proof loop iterates %s' % (short(it, 120) if it is not None else None), ctx.where(v, L))

    # ---- R-C08-3 homogeneity
    evs = weights.accumulation_events(ctx, v, scal, L)
    n = 0
    memo = {}
    for e in sorted(evs, key=lambda x: x[4][0][1]):
        op = e[2].split('::')[-1] if e[1] == 'call' else 'store'
        if op in ('pop', 'clear', 'truncate') or not e[3]:
            continue
        val = e[3][0]
        if op in ('extend', 'extend_from_slice', 'append'):
            val = mk_elem(ctx.eng, val)
        # nested accumulators (pushed after the loop) are themselves 'mut' terms whose events are visited separately
        d = weights.degree(val, w, memo)
        bb = e[4][0][1]
        n += 1
        key = 'R-C08-3/site/%s@%s' % (op, canon(val)[:90])
        dom = cfg.dominates(wbb, bb)
        rep.check(d == 1 and dom, 'R-C08-3', key, '%s of a term of degree exactly 1 in the weight: %s' % (op, short(val, 110)),
                  '%s accumulates a term of degree %s in this proof\'s weight%s: %s' % (op, d, '' if dom else ' (not dominated by the draw)', short(val, 200)), ctx.where(v, bb))
    rep.floor('R-C08-3', 'accumulation sites in the per-proof loop', n, 6)
    # .. for every member: within one iteration an accumulation may be skipped (without refusing) only on a test of the requested action
    # (RecoverOnly computes no verdict); a skip decided by the member's own data -- it has no seed, it is aggregated, its promise is
    # None -- takes that member out of the equation while the batch is still accepted
    act = [i for i in range(1, v.argc + 1) if 'VerifyAction' in v.local_ty(i)]
    skipped = {}
    site_bbs = {e[4][0][1] for e in evs if e[4] and e[4][0][0] == v.key}
    blocksL = cfg.loops[L]

    def avoids_all(start):
        # is the end of the iteration reachable from `start` without passing any accumulation site?  (a test that only decides whether
        # one optional term is added -- a promise that is None -- still runs into the sites that follow it)
        seen, work = set(), [start]
        while work:
            x = work.pop()
            if x in seen or x not in blocksL or x in site_bbs:
                continue
            seen.add(x)
            for y in cfg.succ.get(x, []):
                if y == L:
                    return True
                work.append(y)
        return False
    for e in evs:
        if not e[4]:
            continue
        bb = e[4][0][1]
        for (sw, cond, sure, maybe) in ctx.control_deps_transitive(v, bb):
            if sw not in blocksL or cfg.loop_of.get(sw, [None])[-1] != L:
                continue
            ps = {x[2] for x in walk(cond) if x.tag == 'param' and x[1] == v.key}
            if not (ps - set(act)):
                continue
            t_sw = v.block[sw]['term']
            edges = dict([(str(val), tg) for val, tg in t_sw['arms']] + [('otherwise', t_sw['otherwise'])])
            if any(avoids_all(edges[a]) for a in maybe if a in edges):
                skipped.setdefault(sw, (cond, maybe, bb))
    for sw, (cond, maybe, bb) in sorted(skipped.items()):
        rep.violation('R-C08-3', 'R-C08-3/every-member/%s' % canon(cond)[:100],
                      'a member can be left out of the gate without being refused: arm %s of the test on %s bypasses accumulation sites of the per-proof loop' % (list(maybe), short(cond, 120)),
                      ctx.where(v, sw))
    if not skipped:
        rep.ok('R-C08-3', 'R-C08-3/every-member', 'no accumulation site of the per-proof loop can be bypassed on a test of the member\'s own data (%d sites)' % len(evs), ctx.where(v, L))

    # ---- R-C08-1 provenance
    rng = strip(w[2][0]) if w[2] else None
    ok_fin = rng is not None and rng.tag == 'call' and rng[1].endswith('TranscriptRngBuilder::finalize')
    null = ok_fin and len(rng[2]) > 1 and strip(rng[2][1]).tag == 'adt' and 'NullRng' in strip(rng[2][1])[1]
    br = strip(rng[2][0]) if ok_fin else None
    ok_br = br is not None and br.tag == 'call' and br[1].endswith('Transcript::build_rng')
    rep.check(bool(ok_fin and null and ok_br), 'R-C08-1', 'R-C08-1/weight-rng', 'the weight RNG is finalize(build_rng(W), NullRng)',
              'the weight RNG is %s' % (short(rng, 160) if rng is not None else None), where_w)
    if ok_fin and rng[3]:
        fbb = rng[3][0][1]
        persists = rng[3][0][0] == v.key and fbb not in cfg.loops[L] and cfg.dominates(fbb, L)
        rep.check(persists, 'R-C08-2', 'R-C08-2/rng-persists', 'the weight RNG is created once before the per-proof loop and advanced by every draw (weights differ between proofs)',
                  'the weight RNG is (re)built inside the per-proof loop from loop-invariant state: every proof of the batch receives the same weight', ctx.where(v, fbb))
        # and it is handed to the sampler by mutable reference to one persistent local
        mut_arg = w[2][0].tag == 'mut' or any(e for e in ())
    if not ok_br:
        return
    W = br[2][0]
    Wb = strip(W)
    fresh = Wb.tag == 'call' and Wb[1].endswith('Transcript::new') and Wb[2] and Wb[2][0].tag == 'const'
    rep.check(fresh, 'R-C08-1', 'R-C08-1/weight-transcript-fresh', 'W is a fresh transcript with a constant label %r' % (Wb[2][0][1] if fresh else None),
              'W is %s' % short(Wb, 120), where_w)
    wevs = [e for e in (W[2] if W.tag == 'mut' else ()) if e.tag == 'ev']
    apps = [e for e in wevs if e[2].endswith('append_u64') or e[2].endswith('append_message')]
    rep.check(len(apps) >= 1, 'R-C08-1', 'R-C08-1/weight-transcript-absorbs', 'W absorbs per-member data (%d append site)' % len(apps), 'nothing is appended to the weight transcript', where_w)
    fin_bb = rng[3][0][1] if rng[3] else None
    for n, a in enumerate(apps):
        abb = a[4][0][1]
        aloops = cfg.loop_of.get(abb, [])
        key = 'R-C08-1/member-loop/%d' % n
        if not aloops:
            rep.violation('R-C08-1', key, 'the weight transcript is fed outside any loop: it cannot depend on every member', ctx.where(v, abb))
            continue
        alp = ctx.loops(v)[aloops[-1]]
        whole = alp.iter_term is not None and not ctx.adapters(alp.iter_term) and alp.driver_only_exit and ctx.every_iteration(v, alp, abb)
        pr = {x[2] for x in walk(alp.iter_term) if x.tag == 'param'} if alp.iter_term is not None else set()
        after = fin_bb is not None and fin_bb not in alp.blocks and cfg.dominates(alp.header, fin_bb) and wbb not in alp.blocks
        rep.check(whole and {1, 2, 3} <= pr and after, 'R-C08-1', key, 'W is fed once per member in a whole loop over (proofs, statements, transcripts) that finishes before the weights are drawn',
                  'member loop: whole=%s, iterates params %s, completes before finalize=%s' % (whole, sorted(pr), after), ctx.where(v, abb))
        # the datum is drawn from the member's transcript RNG built after r1, s1, d1* were appended
        data = a[3][-1]
        rngfns = [x for x in walk(data) if x.tag == 'call' and x[1] in ctx.facts.fn and 'TranscriptRng' in ctx.facts.fn[x[1]].locals[0]['ty']]
        rep.check(bool(rngfns), 'R-C08-1', 'R-C08-1/member-datum/%d' % n, 'the absorbed datum is drawn from the member\'s transcript RNG (%s)' % (rngfns[0][1].split('::')[-1] if rngfns else ''),
                  'the datum absorbed into W is %s: not a draw from the member\'s transcript RNG' % short(data, 160), ctx.where(v, abb))
    # inside the per-member trace: r1, s1, every d1 appended to the member transcript, then the RNG is built
    vb = wire.entry(ctx, 'verifier', 'R-C08-1')
    mine, other, evs_all = wire.proof_events(ctx, vb, 'R-C08-1')
    labels = [e.label() for e in mine]
    last_ch = max([i for i, e in enumerate(mine) if e.kind == 'challenge'] or [-1])
    tail = mine[last_ch + 1:]
    want = {b'r1': 'r1', b's1': 's1', b'd1': 'd1'}
    got = {}
    for e in tail:
        if e.label() in want:
            d = e.data()
            f = want[e.label()]
            ok = any(x.tag == 'field' and x[1] == f for x in walk(d)) and not (set(ctx.adapters(d)) - {'chunks', 'chunks_mut'}) and e.must
            ok = ok and not wire.overwritten(d)          # .. the response itself, not a copy that was wiped or altered first
            if f == 'd1':
                ok = ok and any(x.tag == 'elem' and x[1].tag == 'field' and x[1][1] == 'd1' for x in walk(d))
            got[f] = ok
    for f in ('r1', 's1', 'd1'):
        rep.check(got.get(f, False), 'R-C08-1', 'R-C08-1/responses-absorbed/%s' % f, 'after the final challenge the member transcript absorbs %s (whole) before its RNG is built' % f,
                  'the member transcript does not absorb the whole %s after the final challenge: the weight does not depend on it' % f, ctx.where(vb))
    # the RNG handed to the weight transcript is built after those appends
    idx_all = {id(e): i for i, e in enumerate(evs_all)}
    tail_idx = [idx_all[id(e)] for e in tail if e.label() in want]
    fins = [i for i, e in enumerate(evs_all) if e.kind == 'finalize']
    draw = [i for i, e in enumerate(evs_all) if e.kind == 'draw' and any(x.tag == 'call' and x[1] in ctx.facts.fn and 'TranscriptRng' in ctx.facts.fn[x[1]].locals[0]['ty'] for x in walk(e.args[0]))]
    ok_order = bool(tail_idx) and bool(draw) and any(max(tail_idx) < f < draw[0] for f in fins) if draw else False
    rep.check(ok_order, 'R-C08-1', 'R-C08-1/rng-after-responses', 'the member RNG is rebuilt after r1/s1/d1 are absorbed and before the datum for W is drawn',
              'the member RNG used for the weight transcript is not rebuilt after absorbing the responses', ctx.where(vb))
