"""C06 The prover emits a proof exactly when the witness is valid (guards).

R-C06-1  the five witness guards dominate the prover's Ok, each for every element: opening count, extension degree, value fits the bit
         length (with the 64 / shift-by-bit-length constants), opening reproduces its commitment, promise <= value (checked_sub) with
         the decomposition consuming the difference
R-C06-2  no other rejection depends on the witness's integers or scalars (no hidden rejection of valid witnesses)
R-C06-3  (= R-C17-1 for PedersenGens::commit) the commitment function, whose failure the prover hands on, accepts exactly 1..=degree factors
R-C06-5  the commitment the opening check recomputes takes in every blinding factor: the multiscalar multiplication of `commit` is over
         (value, blindings..) and (value base, the first len(blindings) blinding bases)
R-C06-4  (= R-C17-1 / R-C17-3 for RangeWitness::init, CommitmentOpening::r_len / ::new) the witness constructors establish what the
         prover's extension-degree guard relies on: every opening is compared with the first, the stored degree is that length, the
         stored openings are the caller's
"""
from bpsa.facts import callee_decl, callee_name
from bpsa.normal import canon
from bpsa.terms import walk, short, TERM_IDX, is_term
from .common import guard_table
from . import msm

LEVEL_TEXT = ('Static analysis (guard normal forms on MIR dominators + witness taint of guard conditions). Decides that the prover\'s success exit is '
              'protected, for every opening / commitment / promise, by exactly the five documented witness checks with the right constants, and that '
              'the bit decomposition consumes value minus promise; `PedersenGens::commit`, whose failure the prover hands on, accepts exactly 1..=degree '
              'blinding factors; the witness constructors compare every opening\'s blinding length with the stored degree. Does not decide that a returned proof verifies (completeness, C01).')
ASSUMPTIONS = ['u64::checked_sub, >> and comparison behave as documented', 'PedersenGens::commit is the commitment function of the statement\'s generators (C17 checks its own guards)']
RULE_TEXT = ('one obligation per expected guard (shape, quantifier, constants, effectiveness) and one per witness-dependent rejecting guard found; '
             'non-trivial = decided from a guard term')

LENGTH_ONLY = ('split_at_checked', 'split_at', 'get', 'first', 'last', 'len', 'is_empty', 'checked_add', 'checked_mul', 'try_from', 'try_into', 'ilog2')
WITNESS_FIELDS = {'v', 'r', 'openings', 'extension_degree'}
CUT = {'vartime_multiscalar_mul', 'multiscalar_mul', 'vartime_mixed_multiscalar_mul', 'compress', 'decompress', 'is_identity'}


def witness_sources(ctx, body, t, wit_p, challenge_fns):
    """witness data (openings' values / blinding factors / the witness's own fields) reaching a guard condition"""
    out = set()
    seen = set()
    stack = [t]
    while stack:
        x = stack.pop()
        if is_term(x):
            if x.id in seen:
                continue
            seen.add(x.id)
            if x.tag == 'field' and x[1] in WITNESS_FIELDS and any(y.tag == 'param' and y[1] == body.key and y[2] == wit_p for y in walk(x[2])):
                out.add(x[1])
                continue
            if x.tag == 'adapt' and x[1] in LENGTH_ONLY:
                stack.extend(x.args[2:])
                continue
            if x.tag == 'discr' and x[1].tag == 'elemat':
                # presence of an element: depends on the extent and the index only
                stack.append(x[1][2])
                continue
            if x.tag == 'call':
                last = x[1].split('::')[-1]
                if last in CUT or x[1] in challenge_fns:
                    continue
                if last in LENGTH_ONLY:
                    # depends on extents / indices, not on contents: only follow index-like arguments
                    for a in x[2][1:]:
                        stack.append(a)
                    if last in ('len', 'is_empty'):
                        # lengths of witness collections are witness *shape*
                        for y in walk(x[2][0]) if x[2] else []:
                            if y.tag == 'field' and y[2].tag == 'param' and y[2][2] == wit_p:
                                out.add('len(' + y[1] + ')')
                    continue
            if x.tag == 'lv':
                stack.extend(ctx.eng.lv_defs(x))
                continue
            if x.tag == 'adt' and x[1].split('::')[-1] in ('Err', 'None'):
                continue
            stack.extend(x.args)
        elif isinstance(x, tuple):
            stack.extend(x)
    return out


def challenge_functions(ctx):
    out = set()
    for b in ctx.facts.fns():
        ret = b.locals[0]['ty']
        if 'Scalar' in ret and 'RangeProof' not in ret and not b.is_closure:
            if any(callee_decl(t) == 'merlin::Transcript::challenge_bytes' for rb in ctx.facts.reachable_from([b]) for _, t in ctx.calls(rb)):
                out.add(b.path)
    # the transcript wrapper's constructor hands the witness to the RNG only
    for b in ctx.facts.fns():
        if any(callee_decl(t) == 'merlin::TranscriptRngBuilder::finalize' for rb in ctx.facts.reachable_from([b]) for _, t in ctx.calls(rb)) and 'Transcript' in b.locals[0]['ty'] and not b.is_closure:
            out.add(b.path)
    return out


def run(ctx):
    rep = ctx.rep
    p = ctx.fn('RangeProof::<P>::prove_with_rng', 'R-C06-1')
    if p is None:
        return
    wit_p = next((i for i in range(1, p.argc + 1) if 'RangeWitness' in p.local_ty(i)), None)
    st_p = next((i for i in range(1, p.argc + 1) if 'RangeStatement' in p.local_ty(i)), None)
    if wit_p is None or st_p is None:
        rep.anchor_missing('R-C06-1', 'R-C06-1/params', 'prover has no witness / statement parameter')
        return
    W, S = 'p%d' % wit_p, 'p%d' % st_p
    rows = guard_table(ctx, p, deep=True)
    chal = challenge_functions(ctx)
    matched = set()

    def rows_with(pred):
        return [(i, r, a) for i, r in enumerate(rows) for a in r['atoms'] if pred(r, a)]

    def forall_over(r, *needles):
        fa = [x[1] for x in r['ctx'] if x[0] == 'forall']
        return any(all(n in f for n in needles) and not any(b in f for b in ('skip(', 'take(', 'rev(', 'step_by(', 'filter(')) for f in fa)

    def unconditional(r, allowed=()):
        # the guard is evaluated for every element: no branch condition other than the loop quantifiers (and the listed ones) restricts it
        return all(x[0] == 'forall' or x in allowed for x in r['ctx'])

    def report(name, hits, detail_ok, detail_bad):
        good = [h for h in hits if h[1]['eff'] != 'bypass']
        for h in hits:
            matched.add(h[0])
        rep.check(bool(good), 'R-C06-1', 'R-C06-1/%s' % name, detail_ok + (' (line %d)' % good[0][1]['guard'].line if good else ''), detail_bad,
                  ctx.where(p, good[0][1]['guard'].bb) if good else ctx.where(p))
        return good

    # (1) opening count
    report('opening-count', rows_with(lambda r, a: a[0] == 'cmp' and a[1] == 'Eq' and {a[2], a[3]} == {'len(%s.commitments)' % S, 'len(%s.openings)' % W} and not r['ctx']),
           'as many openings as commitments', 'no dominating guard compares the number of openings with the number of commitments')
    # (2) extension degree
    report('extension-degree', rows_with(lambda r, a: a[0] == 'cmp' and a[1] == 'Eq' and '%s.extension_degree' % W in (a[2], a[3]) and any(x.startswith(S) and x.endswith('.extension_degree') for x in (a[2], a[3])) and not r['ctx']),
           'witness extension degree equals the parameters\' extension degree', 'no dominating guard compares the witness and statement extension degrees')
    # (3) value fits
    def is_fit(r, a):
        # a size test of the opening's value itself (not of a quantity derived from it such as value - promise)
        txt = a[2] + a[3] if a[0] == 'cmp' else ''
        return a[0] == 'cmp' and 'each(%s.openings).v' % W in txt and 'checked_sub' not in txt and 'minimum_value' not in txt and \
            ('Shr' in txt or 'checked_shr' in txt or 'gens_capacity' in txt or 'pow' in txt or 'Shl' in txt)
    fit = rows_with(is_fit)
    g3 = report('value-fits', [h for h in fit if forall_over(h[1], '%s.openings' % W)],
                'every opening\'s value is checked against the bit length', 'no guard over every opening checks that the value fits the bit length')
    if len(g3) > 1:
        rep.violation('R-C06-2', 'R-C06-2/value-fits/duplicate', '%d different guards reject on the size of an opening\'s value: %s -- a valid witness may be refused' % (
            len(g3), [h[2] for h in g3]), ctx.where(p, g3[1][1]['guard'].bb))
    if g3:
        # judge the constants of every such guard
        g3 = sorted(g3, key=lambda h: 0 if h[2][2].endswith('Shr %s.generators.bp_gens.gens_capacity)' % S) else 1)
        i, r, a = g3[-1] if len(g3) > 1 else g3[0]
        bits = '%s.generators.bp_gens.gens_capacity' % S
        idiom = a[1] == 'Le' and a[3] == '0' and a[2].startswith('(each(%s.openings).v Shr ' % W)
        if not idiom and a[1] == 'Le' and a[3].lstrip('-').isdigit() and a[2].startswith('(each(%s.openings).v Shr ' % W):
            # the idiom with another constant: `(v >> bits) <= k` accepts every v below (k + 1) * 2^bits
            rep.violation('R-C06-1', 'R-C06-1/value-fits/constants', 'value-fit guard accepts (v >> bits) <= %s: values up to %d * 2^bits - 1 pass, the bit decomposition keeps only `bits` bits of them' % (
                a[3], int(a[3]) + 1), ctx.where(p, r['guard'].bb))
        elif not idiom and a[1] == 'Le' and a[2].lstrip('-').isdigit() and a[3].startswith('(each(%s.openings).v Shr ' % W):
            # the comparison turned around: `(v >> bits) >= k` is what is accepted -- for k = 0 that is every value
            rep.violation('R-C06-1', 'R-C06-1/value-fits/constants', 'value-fit guard accepts %s <= (v >> bits): it does not bound the value from above' % a[2], ctx.where(p, r['guard'].bb))
        elif not idiom:
            # the other common spelling: a comparison of the value with a bound computed from the bit length
            from .common import bound_verdict
            gcond = r['guard'].cond
            gq = r['guard']
            accept_when = False if gq.reject_when_true() else True
            if r.get('spliced') and a[0] == 'cmp':
                # rows spliced from an any()/all() closure or a flag alternative carry the alternative's term; their atom is the accept form
                accept_when = None
            is_v = lambda t: canon(t) == 'each(%s.openings).v' % W
            is_b = lambda t: canon(t) == bits
            verdict, why = (None, '')
            if gcond.tag in ('binop', 'unop'):
                if accept_when is None:
                    # decide from the atom: ('cmp', op, X, Y) is the accepted relation X op Y
                    from bpsa.terms import T as _T
                    opmap = {'Le': 'Le', 'Lt': 'Lt'}
                    c0 = gcond
                    while c0.tag == 'unop' and c0[1] == 'Not':
                        c0 = c0[2]
                    if c0.tag == 'binop' and a[1] in opmap:
                        x, y = (c0[2], c0[3]) if canon(c0[2]) == a[2] else (c0[3], c0[2])
                        verdict, why = bound_verdict(ctx.eng, _T('binop', a[1], x, y), True, is_v, is_b)
                else:
                    verdict, why = bound_verdict(ctx.eng, gcond, accept_when, is_v, is_b)
            if verdict is None:
                rep.idiom_absent('R-C06-1', 'R-C06-1/value-fits/constants', 'value-fit guard is neither `bits < K && (v >> s) > 0` nor a comparison with 2^bits + k (%s): %s under %s (constants not decided)' % (why, a, list(r['ctx'])))
            else:
                rep.check(verdict, 'R-C06-1', 'R-C06-1/value-fits/constants', 'value-fit guard compares the value with a bound computed from the bit length: ' + why,
                          'value-fit guard: ' + why, ctx.where(p, r['guard'].bb))
        else:
            s = a[2][len('(each(%s.openings).v Shr ' % W):-1]
            ks = [x for x in r['ctx'] if x[0] == 'cmp' and x[1] == 'Le' and x[2] == bits]
            goodk = len(ks) == 1 and ks[0][3] == '63'
            rep.check(s == bits and goodk, 'R-C06-1', 'R-C06-1/value-fits/constants', 'value-fit guard is `bits < 64 && (v >> bits) > 0`',
                      'value-fit guard shifts by `%s` under the condition %s; expected a shift by the bit length guarded by `bits < 64`' % (s, ks or list(r['ctx'])),
                      ctx.where(p, r['guard'].bb))
    # (4) opening reproduces commitment
    def is_commit_eq(r, a):
        return a[0] == 'cmp' and a[1] == 'Eq' and any(x.startswith('commit(') for x in (a[2], a[3])) and any(x == 'each(%s.commitments)' % S for x in (a[2], a[3]))
    g4 = report('opening-valid', [h for h in rows_with(is_commit_eq) if forall_over(h[1], 'zip(', '%s.openings' % W, '%s.commitments' % S) and unconditional(h[1])],
                'every (opening, commitment) pair is checked: commit(v, r) == commitment', 'no guard evaluated for every (opening, commitment) pair, unconditionally, recomputes and compares the commitment')
    if g4:
        i, r, a = g4[0]
        c = a[2] if a[2].startswith('commit(') else a[3]
        args_ok = 'each(%s.openings).v' % W in c and 'each(%s.openings).r' % W in c and '%s.generators.pc_gens' % S in c
        rep.check(args_ok, 'R-C06-1', 'R-C06-1/opening-valid/args', 'the commitment is recomputed from that opening\'s value and blinding factors under the statement\'s generators',
                  'the recomputed commitment is %s' % c, ctx.where(p, r['guard'].bb))
    report('opening-valid/commit-error', [h for h in rows_with(lambda r, a: a[0] == 'succ' and a[1].startswith('commit(')) if forall_over(h[1], '%s.openings' % W) and unconditional(h[1])],
           'an error from commit() is propagated', 'an error from commit() is not propagated')
    # (5) promise <= value
    def is_sub(r, a):
        return a[0] == 'succ' and a[1].startswith('checked_sub(each(%s.openings).v,each(%s.minimum_value_promises))' % (W, S))
    g5 = report('promise-le-value', [h for h in rows_with(is_sub) if forall_over(h[1], 'zip(', '%s.minimum_value_promises' % S, '%s.openings' % W) and unconditional(h[1], (('succ', 'each(%s.minimum_value_promises)' % S),))],
                'for every (promise, value) pair value.checked_sub(promise) must succeed', 'no guard over every (promise, value) pair checks promise <= value with a checked subtraction of that pair')
    # decomposition consumes the difference
    sites = msm.msm_sites(ctx, p)
    if not sites:
        rep.anchor_missing('R-C06-1', 'R-C06-1/decomposition', 'no mixed MSM in the prover')
    else:
        static = ctx.args(p, sites[0][0])[1]
        shr = [x for x in walk(static) if (x.tag == 'binop' and x[1] == 'Shr')]
        ok = bool(shr)
        det = []
        for x in shr:
            src = x[2]
            has_sub = any(y.tag == 'call' and y[1].endswith('checked_sub') and 'each(%s.openings).v' % W in canon(y) and '%s.minimum_value_promises' % S in canon(y) for y in walk(src))
            plain = [y for y in (src.args if src.tag == 'phi' else [src]) if not any(z.tag == 'call' and z[1].endswith('checked_sub') for z in walk(y))]
            ok = ok and has_sub and len(plain) <= 1
            det.append(short(src, 100))
        rep.check(ok, 'R-C06-1', 'R-C06-1/decomposition', 'the bit decomposition feeding A shifts (value - promise) [or value when no promise]: %s' % det[:1],
                  'the bit decomposition does not consume value - promise: %s' % det[:2], ctx.where(p, sites[0][0]))

    # ---- R-C06-2: every witness-dependent rejecting guard is one of the above
    n_t = 0
    # a documented check written as `iter.any(..)` / through a helper appears as a call-site row plus the rows spliced from the
    # closure / helper: matching either accounts for the other; rows inside a matched helper call are part of that check
    changed = True
    while changed:
        changed = False
        for i, r in enumerate(rows):
            pr = r.get('parent')
            if pr is not None and ((i in matched) != (pr in matched)):
                matched |= {i, pr}
                changed = True
    for i, r in enumerate(rows):
        src = witness_sources(ctx, p, r['guard'].cond, wit_p, chal)
        if not src:
            continue
        # the outcome of a lookup (`v.get(i)`, an Option of a reference) depends on lengths and positions only, never on the values
        # stored: the same footing as the LENGTH_ONLY calls.  (With the index walking that very vector the lookup cannot even miss.)
        dty = getattr(r['guard'], 'discr_ty', None) or ''
        import re as _re
        if r['guard'].cond.tag == 'discr' and (dty.startswith('std::option::Option<&') or dty.startswith('std::result::Result<&')
                                               or _re.match(r'^std::ops::ControlFlow<std::(option::Option|result::Result)<std::convert::Infallible(, [^>]+)?>, &', dty)):
            continue
        n_t += 1
        key = 'R-C06-2/guard/%s' % (r['atoms'],)
        if i in matched:
            rep.ok('R-C06-2', key[:200], 'witness-dependent guard is one of the five documented checks (depends on %s)' % sorted(src), ctx.where(p, r['guard'].bb))
        else:
            rep.violation('R-C06-2', key[:200], 'additional rejection that depends on the witness (%s): %s under %s -- a valid witness may be refused' % (
                sorted(src), r['atoms'], list(r['ctx'])), ctx.where(p, r['guard'].bb))
    rep.floor('R-C06-2', 'witness-dependent guards', n_t, 5)
    # R-C06-3 (= R-C17-1 for `PedersenGens::commit`): the prover recomputes every commitment with `commit` and hands on its failure, so
    # whatever `commit` refuses, the prover refuses: its domain must be exactly 1..=degree blinding factors
    from . import C17
    from .common import shared
    shared(ctx, lambda c: C17.domain_of(c, ['PedersenGens::<P>::commit']), 'R-C17-1', 'R-C06-3')
    commit_shape(ctx)
    # R-C06-4 (= R-C17-1 / R-C17-3 for the witness constructors): the prover compares the witness's *stored* extension degree with the
    # statement's and never looks at the openings again, so "matching extension degree" is only as good as the constructor invariant
    # "every opening has as many blinding factors as the stored degree says" (and a witness constructor that refuses a valid witness
    # leaves the prover nothing to accept)
    shared(ctx, lambda c: C17.domain_of(c, ['RangeWitness::init', 'CommitmentOpening::r_len']), 'R-C17-1', 'R-C06-4')
    shared(ctx, lambda c: C17.stored_fields(c, only={'RangeWitness::init': ['openings', 'extension_degree'], 'CommitmentOpening::new': ['v', 'r']}), 'R-C17-3', 'R-C06-4')


def _segments(t):
    """a sequence-valued term as an ordered list of ('one', x) / ('many', xs) segments: chain / once / array literals, and vectors created
    empty and filled by push / extend"""
    from bpsa.terms import EMPTY_CTORS
    t0 = t
    while t.tag in ('via',):
        t = t[2]
    if t.tag == 'chain':
        return _segments(t[1]) + _segments(t[2])
    if t.tag == 'once':
        return [('one', t[1])]
    if t.tag == 'array':
        return [('one', x) for x in t.args]
    if t.tag == 'adapt' and t[1] in ('iter', 'into_iter', 'copied', 'cloned') and len(t.args) == 2:
        return _segments(t[2])
    if t.tag == 'mut':
        base = t[1]
        while base.tag == 'mut':
            base = base[1]
        if base.tag == 'call' and base[1] in EMPTY_CTORS:
            out = []
            for ev in t[2]:
                if ev.tag != 'ev':
                    continue
                nm = ev[2].split('::')[-1]
                if nm == 'push' and ev[3]:
                    out.append(('one', ev[3][0]))
                elif nm in ('extend', 'extend_from_slice') and ev[3]:
                    out += _segments(ev[3][0])
                else:
                    return [('many', t0)]
            return out
    return [('many', t0)]


def commit_shape(ctx):
    """R-C06-5: the commitment the prover's opening check recomputes is v*H + sum_k r_k*G_k over *all* the blinding factors handed in:
    the scalars of the multiscalar multiplication in `PedersenGens::commit` are the value followed by the whole blinding slice, the points
    are the value base followed by as many blinding bases as there are blinding factors.  (A blinding factor that does not enter the
    commitment makes the check accept openings that do not open it and refuse ones that do.)"""
    rep = ctx.rep
    b = ctx.fn('PedersenGens::<P>::commit', 'R-C06-5')
    if b is None:
        return
    sites = [(bb, t) for bb, t in ctx.calls(b) if callee_decl(t).split('::')[-1] in ('multiscalar_mul', 'vartime_multiscalar_mul')]
    if len(sites) != 1:
        rep.anchor_missing('R-C06-5', 'R-C06-5/commit/msm', '%d multiscalar multiplications in PedersenGens::commit' % len(sites))
        return
    bb = sites[0][0]
    sc, pt = ctx.args(b, bb)[:2]
    val_p = [i for i in range(1, b.argc + 1) if b.local_ty(i).startswith('&') and not b.local_ty(i).startswith('&[') and 'PedersenGens' not in b.local_ty(i)]
    bl_p = [i for i in range(1, b.argc + 1) if b.local_ty(i).startswith('&[')]
    def params(t):
        return {x[2] for x in walk(t) if x.tag == 'param' and x[1] == b.key}
    def fields(t):
        return {x[1] for x in walk(t) if x.tag == 'field'}
    ss, ps = _segments(sc), _segments(pt)
    lenb = {canon(x) for x in walk(pt) if x.tag == 'call' and x[1].split('::')[-1] == 'len' and len(x[2]) == 1 and params(x[2][0]) & set(bl_p)}
    ok_s = (len(ss) == 2 and ss[0][0] == 'one' and params(ss[0][1]) & set(val_p) and ss[1][0] == 'many' and params(ss[1][1]) & set(bl_p)
            and not ctx.adapters(ss[1][1]))
    ok_p = False
    if len(ps) == 2 and ps[0][0] == 'one' and 'h_base' in fields(ps[0][1]) and ps[1][0] == 'many' and 'g_base_vec' in fields(ps[1][1]):
        m = ps[1][1]
        while m.tag in ('via', 'mut'):
            m = m[2] if m.tag == 'via' else m[1]
        ads = ctx.adapters(m)
        if ads == ['take'] and m.tag == 'adapt' and m[1] == 'take' and len(m.args) >= 3 and canon(m[3]) in lenb:
            ok_p = True
    rep.check(bool(ok_s), 'R-C06-5', 'R-C06-5/commit/scalars', 'the scalars of the commitment are the value followed by the whole blinding slice',
              'the scalars of the commitment are %s: not the value followed by every blinding factor' % short(sc, 160), ctx.where(b, bb))
    rep.check(ok_p, 'R-C06-5', 'R-C06-5/commit/points', 'the points of the commitment are the value base followed by the first len(blindings) blinding bases',
              'the points of the commitment are %s: not the value base followed by one blinding base per blinding factor' % short(pt, 160), ctx.where(b, bb))
