"""C18 Proving and verifying are pure, repeatable and thread-safe (effect analysis).

R-C18-1  the crate's statics are immutable once-initialised cells whose initialisers call only pure functions
R-C18-2  no user-written unsafe, no static mut, no thread-locals, no interior mutability in any crate type, no hash-randomised
         collections
R-C18-3  who-may-call: OsRng only in `prove`; the verifier finalises transcript RNGs only with NullRng; NullRng writes zeros only;
         no call into env/time/fs/net/thread/process/getrandom anywhere in the crate
R-C18-4  Send + Sync compile-pass witnesses for the shared objects
R-C18-5  verify_batch / prove_with_rng take `&mut` only to the transcripts (and the RNG)
R-C18-6  no representation detail as a value: the capacity of a vector or an address may size an allocation and nothing else
"""
import re
from bpsa.facts import callee_decl, callee_name
from bpsa.terms import walk, short, TERM_IDX
from . import witness

LEVEL_TEXT = ('Static effect analysis over the whole crate (MIR call sites with resolved callees, item tables, HIR unsafe blocks) plus '
              'Send+Sync compile-pass witnesses. Decides that there is no mutable global state, no interior mutability, no unsafe, no ambient '
              'nondeterminism (OS RNG, time, env, threads, hash randomisation) outside `prove`, and that the verifier only ever uses the zero RNG; '
              'bit-identical repeatability across schedules is then a consequence of Rust\'s aliasing rules, not separately observed.')
ASSUMPTIONS = ['once_cell::sync::OnceCell::get_or_init runs the initialiser at most once and publishes it with proper synchronisation',
               'dependencies (dalek, merlin, sha3, blake2) are deterministic functions of their arguments']
RULE_TEXT = ('one obligation per static, per crate ADT field, per call site into a denied namespace (expected zero), per RNG finalisation in the '
             'verifier, per &mut parameter; non-trivial = decided from a resolved callee or type')

DENIED_PREFIXES = ('std::env::', 'std::time::', 'std::fs::', 'std::net::', 'std::thread::', 'std::process::', 'std::io::', 'getrandom::',
                   'std::sync::atomic::', 'std::sync::Mutex', 'std::sync::RwLock', 'std::cell::', 'std::rc::', 'std::collections::hash',
                   'std::thread_local', 'rand::thread_rng', 'rand_core::OsRng')
INTERIOR = ('std::cell::', 'Cell<', 'RefCell<', 'UnsafeCell<', 'std::sync::atomic::', 'Atomic', 'Mutex<', 'RwLock<', 'std::rc::Rc<', 'OnceCell<',
            'Lazy<', 'HashMap<', 'HashSet<', 'RandomState')
PURE_INIT_CALLEES = ('hash_from_bytes_sha3_512', 'to_string', 'to_owned', 'compress', 'identity', 'into_iter', 'iter_mut', 'iter', 'zip', 'next',
                     'enumerate', 'add', 'as_bytes', 'deref', 'index_mut', 'index', 'get_or_init', 'new',
                     'from_uniform_bytes', 'update', 'finalize', 'default', 'into', 'drop', 'as_ref', 'borrow', 'branch', 'from_residual',
                     # string formatting of integers (format!): deterministic, no environment access
                     'format', 'new_display', 'must_use', 'new_const', 'as_str', 'digest',
                     # iterator plumbing (the closures they run are crate bodies and are scanned as well)
                     'for_each', 'try_for_each', 'map', 'collect', 'fold', 'rev', 'skip', 'take', 'chain', 'cloned', 'copied', 'by_ref', 'enumerate')

PURE_KRATES = ('core', 'alloc', 'std', 'sha3', 'digest', 'curve25519_dalek', 'itertools', 'zeroize', 'blake2', 'byteorder')


def run(ctx):
    rep = ctx.rep
    facts = ctx.facts
    fns = facts.fns()
    for b in fns:
        rep.saw_body(b)

    # R-C18-1 statics
    statics = facts.statics
    rep.floor('R-C18-1', 'statics', len(statics), 2)
    for s in statics:
        key = 'R-C18-1/static/%s' % s['path']
        good = (not s['mut']) and s['ty'].startswith('once_cell::sync::OnceCell<')
        rep.check(good, 'R-C18-1', key, 'static %s: immutable %s' % (s['path'], s['ty']),
                  'static %s has type %s (mut=%s): not an immutable once_cell::sync::OnceCell' % (s['path'], s['ty'], s['mut']),
                  '%s:%d' % (s['span']['file'], s['span']['l0']))
        # its initialiser: the closures of the enclosing function
        owner = s['path'].rsplit('::', 1)[0]
        ob = facts.fn.get(owner)
        if ob is None:
            rep.anchor_missing('R-C18-1', key + '/owner', 'function owning static %s not found' % s['path'])
            continue
        for cb in facts.closures_of(ob):
            for bb, t in ctx.calls(cb):
                nm = callee_decl(t).split('::')[-1]
                # crate-local accessors of another once-cell are pure as well (their own initialiser is judged separately)
                accessor = callee_name(t) in facts.fn and any(x['path'].rsplit('::', 1)[0] == callee_name(t) for x in statics)
                # anything in core / alloc / std outside the denied namespaces (environment, time, threads, I/O, randomness, interior
                # mutability) and the deterministic dependencies is a pure function of its arguments
                kr = t['func'].get('res_krate') or t['func'].get('krate') or ''
                full = callee_name(t)
                lib_pure = kr in PURE_KRATES and not any(full.startswith(d) or callee_decl(t).startswith(d) for d in DENIED_PREFIXES)
                rep.check(nm in PURE_INIT_CALLEES or accessor or lib_pure, 'R-C18-1', key + '/init/' + callee_decl(t), 'initialiser calls pure %s' % callee_decl(t),
                          'initialiser of %s calls %s, which is not on the pure allow-list' % (s['path'], callee_name(t)), ctx.where(cb, bb))

    # R-C18-2 unsafe / interior mutability / thread locals
    user_unsafe = [u for u in facts.j.get('unsafe', []) if not u['span'].get('exp') and not u.get('auto_derived')]
    rep.check(not user_unsafe, 'R-C18-2', 'R-C18-2/unsafe', 'no user-written unsafe block, fn or impl (expansion-generated: %d)' % (len(facts.j.get('unsafe', [])) - len(user_unsafe)),
              'user-written unsafe: %s' % [(u['kind'], u['span']['file'], u['span']['l0']) for u in user_unsafe])
    nfields = 0
    for path, adt in sorted(facts.adts.items()):
        for v in adt['variants']:
            for f in v['fields']:
                nfields += 1
                bad = [m for m in INTERIOR if m in f['ty']]
                rep.check(not bad, 'R-C18-2', 'R-C18-2/field/%s.%s' % (path, f['name']), 'field %s.%s: %s has no interior mutability' % (path, f['name'], f['ty']),
                          'field %s.%s has interior mutability / hash randomisation: %s' % (path, f['name'], f['ty']), adt['span']['file'])
    rep.floor('R-C18-2', 'ADT fields', nfields, 20)
    tls = 0
    rnd_locals = []
    for b in fns:
        for blk in b.blocks:
            for st in blk['stmts']:
                if st['k'] == 'assign' and st['rv']['k'] == 'tlsref':
                    tls += 1
        for l in b.locals:
            if any(m in l['ty'] for m in ('HashMap<', 'HashSet<', 'RandomState', 'std::cell::', 'RefCell<', 'Mutex<', 'std::rc::Rc<')):
                rnd_locals.append((b.path, l['ty']))
    rep.check(tls == 0, 'R-C18-2', 'R-C18-2/thread-local', 'no thread-local access in any body', '%d thread-local accesses' % tls)
    rep.check(not rnd_locals, 'R-C18-2', 'R-C18-2/locals', 'no local of a hash-randomised or interior-mutable type in any body', 'locals: %s' % rnd_locals[:5])

    # R-C18-3 who may call
    ndenied = 0
    ncalls = 0
    for b in fns:
        for bb, t in ctx.calls(b):
            ncalls += 1
            nm, dc = callee_name(t), callee_decl(t)
            if any(nm.startswith(p) or dc.startswith(p) for p in DENIED_PREFIXES):
                ndenied += 1
                rep.violation('R-C18-3', 'R-C18-3/denied/%s/%s' % (b.path, dc), 'call into a denied namespace: %s' % nm, ctx.where(b, bb))
    rep.check(ndenied == 0, 'R-C18-3', 'R-C18-3/denied-namespaces', 'none of %d call sites in the crate targets env/time/fs/net/thread/process/io/getrandom/atomics/cells' % ncalls)
    rep.analysed['call_sites'] = ncalls
    # OsRng
    os_users = set()
    for b in fns:
        if any('OsRng' in l['ty'] for l in b.locals):
            os_users.add(b.path)
    allowed = {p for p in os_users if p.endswith('::prove')}
    rep.check(os_users == allowed, 'R-C18-3', 'R-C18-3/osrng', 'OsRng is referenced only by %s' % (sorted(os_users) or 'no function (feature off)'),
              'OsRng is referenced outside `prove`: %s' % sorted(os_users - allowed))
    # the verifier: every RNG finalisation reachable from verify_batch uses NullRng
    vb = ctx.fn('RangeProof::<P>::verify_batch', 'R-C18-3')
    if vb is not None:
        reach = facts.reachable_from([vb])
        nfin = 0
        for b in reach:
            for bb, t in ctx.calls(b, decl='merlin::TranscriptRngBuilder::finalize'):
                nfin += 1
                g = t['func'].get('gargs', [])
                rng_ty = g[0] if g else '?'
                if rng_ty == 'utils::nullrng::NullRng':
                    rep.ok('R-C18-3', 'R-C18-3/finalize/%s' % b.path, 'RNG finalised with NullRng', ctx.where(b, bb))
                elif ('::' not in rng_ty and '<' not in rng_ty and rng_ty[:1].isupper()) or rng_ty.startswith('impl '):   # a generic parameter, named or `impl Trait`
                    # generic: every instantiation reachable from the verifier must bind R = NullRng
                    owner = facts.root_fn(b)
                    ok_all, n = True, 0
                    for rb in reach:
                        for bb2, t2 in ctx.calls(rb):
                            if callee_name(t2).startswith(owner.path.rsplit('::', 1)[0] + '::') and callee_name(t2) in facts.fn:
                                ga = t2['func'].get('gargs', [])
                                if rb.path.startswith(owner.path.rsplit('::', 1)[0]):
                                    continue
                                n += 1
                                if 'utils::nullrng::NullRng' not in ga:
                                    ok_all = False
                    rep.check(ok_all and n > 0, 'R-C18-3', 'R-C18-3/finalize/%s' % b.path,
                              'generic RNG parameter is instantiated with NullRng at all %d verifier call sites of the transcript wrapper' % n,
                              'the verifier instantiates the transcript wrapper with an RNG other than NullRng', ctx.where(b, bb))
                else:
                    rep.violation('R-C18-3', 'R-C18-3/finalize/%s' % b.path, 'verifier finalises a transcript RNG with %s' % rng_ty, ctx.where(b, bb))
        rep.floor('R-C18-3', 'RNG finalisations reachable from verify_batch', nfin, 2)   # the proof transcript's RNG and the weight RNG
        # no other randomness source reachable from the verifier
        for b in reach:
            for bb, t in ctx.calls(b):
                nm = callee_name(t)
                if nm.endswith('::random') or 'thread_rng' in nm or 'OsRng' in nm or 'from_entropy' in nm:
                    g = ' '.join(t['func'].get('gargs', []))
                    good = 'TranscriptRng' in g or g.strip() in ('R',) or 'NullRng' in g
                    rep.check(good, 'R-C18-3', 'R-C18-3/random/%s' % b.path, 'random draw from a transcript-derived RNG (%s)' % g,
                              'random draw from %s in code reachable from verify_batch' % g, ctx.where(b, bb))
    # NullRng::fill_bytes writes zeros only
    fb = [b for b in fns if b.path.endswith('NullRng as rand_core::RngCore>::fill_bytes')]
    if not fb:
        rep.anchor_missing('R-C18-3', 'R-C18-3/nullrng', 'NullRng::fill_bytes not found')
    else:
        cs = [callee_decl(t) for _, t in ctx.calls(fb[0])]
        rep.check(cs == ['zeroize::Zeroize::zeroize'], 'R-C18-3', 'R-C18-3/nullrng', 'NullRng::fill_bytes only zeroizes its destination',
                  'NullRng::fill_bytes calls %s' % cs, ctx.where(fb[0]))

    # R-C18-5 &mut parameters
    for suffix, allowed in (('RangeProof::<P>::verify_batch', {'transcripts'}), ('RangeProof::<P>::prove_with_rng', {'transcript', 'rng'}),
                            ('RangeProof::<P>::prove', {'transcript'})):
        b = ctx.fn(suffix, 'R-C18-5', required=(suffix != 'RangeProof::<P>::prove'))
        if b is None:
            continue
        # by type, not by parameter name: the only exclusive borrows are of transcripts and of the caller's RNG
        def kind(ty):
            if 'merlin::Transcript' in ty:
                return 'transcript' if not ty.startswith('&mut [') else 'transcripts'
            from .C14 import is_generic_mut_ref
            if is_generic_mut_ref(ty):
                return 'rng'
            return ty
        muts = {kind(b.local_ty(i)) for i in range(1, b.argc + 1) if b.local_ty(i).startswith('&mut')}
        rep.check(muts <= allowed, 'R-C18-5', 'R-C18-5/%s' % suffix, '%s takes &mut only to %s' % (suffix, sorted(muts)),
                  '%s takes &mut to %s' % (suffix, sorted(muts - allowed)), ctx.where(b))

    # R-C18-6 capacities and addresses are not values
    representation_values(ctx)

    # R-C18-4 witnesses (type-check of the witness library against the current tree)
    if ctx.cfg == 'default':
        witness.check_pass(rep, 'R-C18-4', ['c18_send_sync'])


def thorough(rep):
    witness.run(rep, 'C18', ['c18'])


REPRESENTATION = ('capacity', 'as_ptr', 'as_mut_ptr', 'addr', 'expose_addr', 'expose_provenance', 'as_ptr_range')
# where a capacity may go: into the size of an allocation, through arithmetic and iterator plumbing
SIZE_SINKS = ('with_capacity', 'reserve', 'reserve_exact', 'try_reserve', 'try_reserve_exact', 'shrink_to')
SIZE_PLUMBING = ('sum', 'map', 'iter', 'into_iter', 'fold', 'product', 'checked_add', 'checked_mul', 'checked_sub', 'saturating_add', 'saturating_mul', 'wrapping_add',
                 'add', 'mul', 'sub', 'max', 'min', 'ok_or', 'ok_or_else', 'branch', 'from_residual', 'unwrap_or', 'into', 'from', 'try_from', 'try_into', 'map_err', 'next',
                 'zip', 'enumerate', 'copied', 'cloned', 'new', 'deref', 'as_ref', 'borrow', 'call', 'call_mut', 'call_once', 'len', 'is_empty')


def representation_values(ctx, RULE='R-C18-6'):
    """The capacity of a vector (like an address) is not a function of the *value* of the vector: two equal witnesses may differ in it.
    It may size an allocation; it may not reach anything else -- a length that is filled, a value that is absorbed, a condition.  Every
    call of `capacity()` / `as_ptr()` / .. in the crate is followed: the terms that contain its result (directly, or through a closure
    that returns it) may only be handed to allocation-size parameters, through arithmetic and iterator plumbing."""
    rep = ctx.rep
    facts = ctx.facts
    fns = [b for b in facts.fns()]
    sources = []            # (body, bb, result term)
    tainted_closures = set()
    for b in fns:
        for bb, t in ctx.calls(b):
            d = callee_decl(t)
            if d.split('::')[-1] in REPRESENTATION and (d.startswith('std::vec::') or d.startswith('alloc::') or d.startswith('std::string::') or d.startswith('core::slice::')
                                                       or d.startswith('std::collections::') or d.startswith('core::ptr::') or '<impl [T]>' in d):
                if b.impl_trait in ('std::fmt::Debug', 'std::fmt::Display'):
                    continue
                r = ctx.result(b, bb)
                sources.append((b, bb, r))
                root = b
                if b.is_closure:
                    # does the closure hand the value on?  (its return value contains it)
                    rt = ctx.eng.return_term(b)
                    if any(x is r for x in walk(rt)):
                        tainted_closures.add(b.path)
    n = len(sources)
    bad = []
    if sources:
        ids = {id(r) for _, _, r in sources}

        def tainted(t):
            # (the value of `Vec::with_capacity(c)` does not depend on c: the walk stops at allocation-size sinks)
            stack = [t]
            seen_ = 0
            while stack and seen_ < 200000:
                x = stack.pop()
                seen_ += 1
                if id(x) in ids:
                    return True
                if x.tag == 'closure' and x[1] in tainted_closures:
                    return True
                if x.tag == 'call' and x[1].split('::')[-1] in SIZE_SINKS:
                    continue
                if x.tag == 'ev' and isinstance(x[2], str) and x[2].split('::')[-1] in SIZE_SINKS:
                    continue
                for a in x.args:
                    if hasattr(a, 'tag'):
                        stack.append(a)
                    elif isinstance(a, tuple):
                        stack.extend(z for z in a if hasattr(z, 'tag'))
            return False
        for b in fns:
            if b.impl_trait in ('std::fmt::Debug', 'std::fmt::Display'):
                continue
            relevant = any(sb is b for sb, _, _ in sources) or any(cl.path in tainted_closures for cl in facts.closures_of(b))
            if not relevant:
                continue
            for bb, t in ctx.calls(b):
                d = callee_decl(t)
                last = d.split('::')[-1]
                if last in REPRESENTATION:
                    continue
                args = ctx.args(b, bb)
                hot = [i for i, a in enumerate(args) if tainted(a)]
                if not hot:
                    continue
                if last in SIZE_SINKS or last in SIZE_PLUMBING:
                    continue
                bad.append((b, bb, d, hot))
            cfg = ctx.cfgof(b)
            for blk in b.blocks:
                tt = blk['term']
                if blk['cleanup'] or blk['i'] not in cfg.reach_set or tt['k'] != 'switch':
                    continue
                c = ctx.eng.operand(b, blk['i'], TERM_IDX, tt['discr'])
                if tainted(c):
                    bad.append((b, blk['i'], 'a branch condition', []))
    rep.check(not bad, RULE, RULE + '/representation', 'no capacity or address is used as a value (%d such calls in the crate, each only sizes an allocation)' % n,
              'a capacity / address reaches %s: the result depends on how an argument is laid out in memory, not on its value' % (
                  [(d.split('::')[-1], 'argument %s' % h) for _, _, d, h in bad][:3],), ctx.where(bad[0][0], bad[0][1]) if bad else None)
