"""C02 Soundness of the verifier (structural clauses only).

R-C02-1  single gate: every success exit of the verifier core is dominated by the pass edge of `MSM == identity`, or is taken only
         under action == RecoverOnly
R-C02-2  everything reaches the gate: every weighted update inside the per-proof loop lands in an argument of the gate MSM
R-C02-3  shape guards dominate the gate: len(L) == len(R); rounds fits u32 with a clear top bit; 1 << rounds == bits * aggregation;
         len(d1) == extension degree for every member
R-C02-4  challenges are non-zero and come from the transcript: one challenge_bytes site whose result is rejected when zero; the
         verifier's scalars use the y/z, round and final challenges of that proof's transcript
R-C02-5  closed-form aggregation sum (= R-C01-1)
R-C02-6  every proof point is decoded before use: decompress() results are converted to Err on None and are the pushed points
R-C02-7  constants of the range polynomial: radix 2 in `d`, `2^bits - 1`, `y - 1` denominators (conditional idiom rules)
R-C02-8  batch weighting (= R-C08-1..3): each proof's equation enters the gate under its own fresh non-zero weight, so that defects in
         different proofs of a batch cannot cancel
R-C02-9  generator independence (= R-C11-1, R-C11-4): the G and H chains of every party carry their own labels (tag byte, party index), the
         blinding generators are hashed from their own labels: no two positions of the relation hold the same point
"""
from bpsa.facts import callee_decl, callee_name
from bpsa.normal import canon
from bpsa.terms import walk, short, TERM_IDX, mk_elem, T
from .common import guard_table, unconditional, variants_under
from . import msm, weights, recurrence
from .weights import strip

LEVEL_TEXT = ('Static analysis (dominators / guard edges, def-use, polynomial normal form of one recurrence). Decides the structural skeleton of the '
              'verifier: one verdict gate, every weighted accumulator feeds it, the shape guards and decode checks dominate it, challenges are non-zero '
              'transcript outputs, and the closed-form constants have the protocol\'s values. Does not decide coefficient-level equality of the linear '
              'combination with the published relation (that needs symbolic execution of the loops).'
              " Also runs C08's weighting rules (with a shared weight the gate only enforces a combination of the members' equations) and C11's "
              "derivation rules for the vector and blinding generators (no two positions of the relation may hold the same point), the verifier half of C04 (the relation is enforced at the Fiat-Shamir challenges) and the rule that commitment j enters under a running product of z*z.")
ASSUMPTIONS = ['merlin challenge bytes are pseudorandom', 'Identity::identity() is the group identity and PartialEq on points is equality']
RULE_TEXT = 'one obligation per structural fact; non-trivial = decided from a dominator, guard or value term'


def _run(ctx):
    rep = ctx.rep
    g = weights.gate(ctx, 'R-C02-1')
    if g is None:
        return
    v, gbb, args = g
    cfg = ctx.cfgof(v)
    rows = guard_table(ctx, v)

    # ---- R-C02-1 single gate
    res = ctx.result(v, gbb)
    gate_guards = [r for r in rows if any(x is res or (x.tag == 'call' and x[1].endswith('vartime_mixed_multiscalar_mul')) for x in walk(r['guard'].cond))]
    good_gate = []
    for r in gate_guards:
        a = r['atoms'][0]
        if a[0] == 'cmp' and a[1] == 'Eq' and any(x.startswith('identity()') for x in a[2:4]):
            good_gate.append(r)
    rep.check(len(gate_guards) == 1 and len(good_gate) == 1, 'R-C02-1', 'R-C02-1/gate', 'exactly one verdict gate: the final MSM result must equal the identity',
              'verdict gates found: %d (well-formed: %d)' % (len(gate_guards), len(good_gate)), ctx.where(v, gbb))
    oks = [s for s in ctx.ok_sites(v) if not ctx.rejecting(v, s)]
    n_rec = 0
    act = next((i for i in range(1, v.argc + 1) if 'VerifyAction' in v.local_ty(i)), None)
    for s in oks:
        key = 'R-C02-1/ok-site/%d' % oks.index(s)
        if good_gate and cfg.dominates(good_gate[0]['guard'].bb, s):
            rep.ok('R-C02-1', key, 'success exit dominated by the pass edge of the gate', ctx.where(v, s))
            continue
        # decided over the three values of the action: the exit may be reachable under RecoverOnly only
        vset, unknown = variants_under(ctx, v, ctx.path_conditions(v, s), act) if act is not None else (None, ['no action parameter'])
        rec = vset is not None and not unknown and vset <= {'RecoverOnly'}
        if rec:
            n_rec += 1
            rep.ok('R-C02-1', key, 'success exit taken only when action == RecoverOnly (no verdict requested)', ctx.where(v, s))
        else:
            rep.violation('R-C02-1', key, 'a success exit of the verifier is neither behind the gate nor restricted to RecoverOnly: proofs are accepted without the final check', ctx.where(v, s))
    rep.floor('R-C02-1', 'success exits', len(oks), 2)

    # ---- R-C02-2 everything reaches the gate
    ws, samplers = weights.weight_atoms(ctx, v, [args[1], args[2]])
    if len(ws) == 1:
        w = ws[0]
        wbb = w[3][0][1]
        L = cfg.loop_of.get(wbb, [None])[0]
        if L is not None:
            reach = {e.id for e in weights.accumulation_events(ctx, v, [args[1], args[2]], L)}
            inner = set()
            for t in (args[1], args[2]):
                for x in walk(t):
                    if x.tag == 'ev':
                        inner.add(x.id)
            ix = ctx.eng.bx(v)
            memo = {}
            lost = 0
            nchk = 0
            for e in ix.events():
                if e['bb'] not in cfg.loops[L] or e['kind'] != 'call':
                    continue
                et = ctx.eng.event_term(v, e)
                if not et[3]:
                    continue
                val = et[3][0]
                if et[2].split('::')[-1] in ('extend', 'extend_from_slice', 'append'):
                    val = mk_elem(ctx.eng, val)
                if weights.degree(val, w, memo) in (None, 0) and not any(x is w for x in walk(val)):
                    continue
                nchk += 1
                if et.id not in inner:
                    lost += 1
                    rep.violation('R-C02-2', 'R-C02-2/lost/%s@%s' % (et[2].split('::')[-1], canon(val)[:80]), 'a weighted term is accumulated into a variable that never reaches the gate MSM: %s' % short(val, 160), ctx.where(v, e['bb']))
            rep.check(lost == 0, 'R-C02-2', 'R-C02-2/all-reach-gate', 'all %d weighted updates of the per-proof loop land in arguments of the gate MSM' % nchk, '%d weighted updates are lost' % lost, ctx.where(v, gbb))
            # the four dynamic/static arguments are the accumulators (no fresh vector substituted at the gate)
            for nm, a in (('G/H scalars', args[1]), ('dynamic scalars', args[2]), ('dynamic points', args[3])):
                has = any(x.tag == 'ev' for x in walk(a))
                rep.check(has, 'R-C02-2', 'R-C02-2/arg/%s' % nm, 'gate argument `%s` is an accumulator filled during verification' % nm, 'gate argument `%s` is not filled by the per-proof loop: %s' % (nm, short(a, 120)), ctx.where(v, gbb))
    else:
        rep.anchor_missing('R-C02-2', 'R-C02-2/weight', 'no unique weight atom (see C08)')

    # ---- R-C02-3 shape guards
    flat = [(r, a) for r in rows for a in r['atoms']]
    def per_proof(r):
        return r['eff'] != 'bypass' and unconditional(r) and any(x[0] == 'forall' and 'p3' in x[1] and 'p2' in x[1] and not any(b in x[1] for b in ('skip(', 'take(', 'rev(')) for x in r['ctx'])
    def find(pred, name, ok, bad):
        hit = [r for r, a in flat if pred(a) and per_proof(r)]
        dom = [r for r in hit if cfg.dominates(r['guard'].bb, wbb if len(ws) == 1 else gbb) or cfg.dominates(r['guard'].bb, gbb)]
        rep.check(bool(hit), 'R-C02-3', 'R-C02-3/' + name, ok + (' (line %d)' % hit[0]['guard'].line if hit else ''), bad, ctx.where(v, hit[0]['guard'].bb) if hit else ctx.where(v))
        return hit
    wbb = ws[0][3][0][1] if len(ws) == 1 else gbb
    from . import msm_pairs
    lr = [r for (r, fa, fb) in msm_pairs.len_eq_guards(ctx, v) if {next(iter(fa)) if len(fa) == 1 else None, next(iter(fb)) if len(fb) == 1 else None} == {'len(each(p3).li)', 'len(each(p3).ri)'} and per_proof(r)]
    rep.check(bool(lr), 'R-C02-3', 'R-C02-3/len-L-eq-len-R', 'every proof is refused unless len(L) == len(R)' + (' (line %d)' % lr[0]['guard'].line if lr else ''),
              'no per-proof guard compares len(L) with len(R)', ctx.where(v, lr[0]['guard'].bb) if lr else ctx.where(v))
    find(lambda a: a[0] == 'succ' and a[1].startswith('try_from(len('), 'rounds-fit-u32', 'the round count must fit u32', 'no guard converts the round count with a checked conversion')
    find(lambda a: a[0] == 'cmp' and 'leading_zeros(' in a[2] + a[3], 'rounds-top-bit', 'a round count with the top bit set is refused', 'no guard on the leading zeros of the round count')
    find(lambda a: a[0] == 'succ' and a[1].startswith('checked_shl(1,'), 'shift-checked', '1 << rounds is computed with checked_shl', 'the shift 1 << rounds is not checked')
    h = find(lambda a: a[0] == 'cmp' and a[1] == 'Eq' and any(x.startswith('checked_shl(1,') for x in a[2:4]) and any(x.startswith('checked_mul(') and 'commitments' in x and 'gens_capacity' in x for x in a[2:4]),
             'rounds-match-size', '1 << rounds must equal bits * aggregation of that statement', 'no guard ties the number of rounds to bits * aggregation')
    if h:
        a = h[0]['atoms'][0]
        sh = a[2] if a[2].startswith('checked_shl') else a[3]
        gc = h[0]['guard'].cond
        shl = [x for x in walk(gc) if x.tag == 'call' and x[1].endswith('checked_shl')]
        is_len_l = False
        if shl:
            amt = shl[0][2][1]
            while amt.tag == 'cast' or (amt.tag == 'call' and amt[1].endswith('try_from') and len(amt[2]) == 1):
                amt = amt[2] if amt.tag == 'cast' else amt[2][0]
            if amt.tag == 'call' and amt[1] in msm_pairs.LEN_CALLS:
                try:
                    is_len_l = msm_pairs.lenform(ctx, amt[2][0]) <= {'len(each(p3).li)', 'len(each(p3).ri)'}
                except msm_pairs.Unknown:
                    is_len_l = False
        rep.check(is_len_l, 'R-C02-3', 'R-C02-3/rounds-are-len-L', 'the round count is len(L)', 'the shifted count is %s' % sh, ctx.where(v, h[0]['guard'].bb))

    # ---- R-C02-4 challenges
    cb = ctx.facts.callers_decl.get('merlin::Transcript::challenge_bytes', [])
    rep.check(len(cb) == 1, 'R-C02-4', 'R-C02-4/one-challenge-site', 'the crate draws challenge bytes at exactly one site', 'challenge_bytes is called at %d sites' % len(cb))
    chal_fns = set()
    if cb:
        b, bb, t = cb[0]
        rows_c = guard_table(ctx, b)
        nz = [r for r in rows_c for a in r['atoms'] if a[0] == 'cmp' and a[1] == 'Ne' and 'S0' in a[2:4] and r['eff'] != 'bypass']
        wide = any(callee_decl(t2).endswith('from_bytes_mod_order_wide') for _, t2 in ctx.calls(b))
        rep.check(bool(nz) and wide, 'R-C02-4', 'R-C02-4/non-zero', 'a zero challenge is rejected (value != ZERO dominates Ok) and challenges are wide reductions of 64 bytes',
                  'challenge function: zero rejected=%s, wide reduction=%s' % (bool(nz), wide), ctx.where(b, bb))
        for f in ctx.facts.fns():
            if 'Scalar' in f.locals[0]['ty'] and not f.is_closure and any(x.key == b.key for x in ctx.facts.reachable_from([f])):
                chal_fns.add(f.path)
    # the verifier's scalars use all three kinds of challenge of that proof's transcript
    used = {}
    for t in (args[1], args[2]):
        for x in walk(t):
            if x.tag == 'call' and x[1] in chal_fns and x[1] in ctx.facts.fn:
                used.setdefault(x[1], x)
    # challenges drawn inside lazily applied closures (map(zip(L, R), |(l, r)| transcript.challenge_round_e(l, r)))
    for t in (args[1], args[2]):
        for x in walk(t):
            if x.tag == 'closure' and x[1] in ctx.facts.fn:
                cb3 = ctx.facts.fn[x[1]]
                for bb3, t3 in ctx.calls(cb3):
                    n3 = callee_name(t3)
                    if n3 in chal_fns and n3 in ctx.facts.fn and n3 not in used:
                        a3 = ctx.args(cb3, bb3)
                        env = {('upvar', cb3.key, j): c for j, c in enumerate(x[2])}
                        used[n3] = T('call', n3, tuple(ctx.eng.subst(y, env, ()) for y in a3), ())
    wrapper_fns = [f for f in used if len(ctx.facts.fn[f].locals) and ctx.facts.fn[f].argc >= 2]
    rep.check(len(wrapper_fns) >= 3, 'R-C02-4', 'R-C02-4/challenges-used', 'the gate scalars use the y/z, round and final challenges (%s)' % sorted(x.split('::')[-1] for x in wrapper_fns),
              'the gate scalars use only %s' % sorted(x.split('::')[-1] for x in used), ctx.where(v, gbb))
    for f, x in sorted(used.items()):
        if f not in wrapper_fns:
            continue
        recv = x[2][0]
        roots = {(y[1], y[2]) for y in walk(recv) if y.tag == 'param' and 'Transcript' in v.local_ty(y[2])} if recv is not None else set()
        fresh = [y for y in walk(recv) if y.tag == 'call' and y[1].endswith('Transcript::new')]
        rep.check(bool(roots) and not fresh, 'R-C02-4', 'R-C02-4/challenge-source/%s' % f.split('::')[-1], '%s is evaluated on the caller\'s transcript of that proof' % f.split('::')[-1],
                  '%s is evaluated on %s' % (f.split('::')[-1], short(recv, 120)), ctx.where(v))

    # ---- R-C02-5 / R-C02-7 closed forms and constants
    recurrence.check_aggregation_sum(ctx, 'R-C02-5', v)
    recurrence.check_constants(ctx, 'R-C02-7', v)

    # ---- R-C02-6 decode before use
    pts = args[3]
    dec = [x for x in walk(pts) if x.tag == 'call' and x[1].endswith('Decompressable::decompress')]
    # points produced by a lazily applied closure (`proof.li.iter().map(|p| p.decompress().ok_or(..))`): the closure applied to an element
    seen_ids = {x.id for x in dec}
    for m in [x for x in walk(pts) if x.tag == 'map']:
        for x in walk(mk_elem(ctx.eng, m)):
            if x.tag == 'call' and x[1].endswith('Decompressable::decompress') and x.id not in seen_ids:
                seen_ids.add(x.id)
                dec.append(x)
    # look into crate-local helpers too (li_decompressed / ri_decompressed)
    helper_calls = [x for x in walk(pts) if x.tag == 'call' and x[1] in ctx.facts.fn]
    ndec = len(dec)
    fields = set()
    for x in dec:
        fields |= {y[1] for y in walk(x) if y.tag == 'field'}
    for hc in helper_calls:
        hb = ctx.facts.fn[hc[1]]
        fields |= {y[1] for y in walk(ctx.eng.return_term(hb)) if y.tag == 'field'}
        for cb2 in [hb] + ctx.facts.closures_of(hb):
            for bb2, t2 in ctx.calls(cb2):
                if callee_decl(t2).endswith('Decompressable::decompress'):
                    ndec += 1
                    for a in ctx.args(cb2, bb2):
                        fields |= {y[1] for y in walk(a) if y.tag == 'field'}
    rep.check({'a', 'a1', 'b', 'li', 'ri'} <= fields, 'R-C02-6', 'R-C02-6/decoded-points', 'the dynamic points are decompress() of the proof\'s a, a1, b, every L, every R',
              'dynamic points decode only %s' % sorted(fields & {'a', 'a1', 'b', 'li', 'ri'}), ctx.where(v, gbb))
    # (counted per decoded proof member: the same member may be decoded at a shared site for L and R)
    rep.floor('R-C02-6', 'proof members decoded on the way to the gate', len(fields & {'a', 'a1', 'b', 'li', 'ri'}), 5)
    unw = 0
    for b in ctx.facts.reachable_from([v]):
        for bb2, t2 in ctx.calls(b):
            if callee_decl(t2).endswith('Decompressable::decompress'):
                # result must not be unwrapped
                nxt = [callee_decl(t3).split('::')[-1] for bb3, t3 in ctx.calls(b) if bb3 in cfg_succ_chain(ctx, b, bb2)]
                if any(n in ('unwrap', 'expect', 'unwrap_unchecked', 'unwrap_or_default') for n in nxt):
                    unw += 1
                    rep.violation('R-C02-6', 'R-C02-6/unwrap/%s' % b.path, 'a decompress() result is unwrapped instead of being turned into an error', ctx.where(b, bb2))
    rep.check(unw == 0, 'R-C02-6', 'R-C02-6/none-is-error', 'no decompress() result is unwrapped; None becomes an error through ok_or / ok_or_else')


def cfg_succ_chain(ctx, b, bb, n=3):
    cfg = ctx.cfgof(b)
    out, cur = [], [bb]
    for _ in range(n):
        nxt = []
        for x in cur:
            nxt.extend(cfg.succ.get(x, []))
        out.extend(nxt)
        cur = nxt
    return set(out)


def commitment_scalars(ctx):
    """R-C02-11: commitment j enters the equation under z^(2j) (times factors common to all commitments): the scalar pushed opposite each
    commitment carries, as its only per-commitment factor, a running product that starts at one and is multiplied by z*z once per
    commitment -- directly, or as the elements of a vector filled with that running product.  A table of powers built any other way is
    not recognised and reported: the powers it holds are what decides which linear combination of the committed values is bound."""
    from . import msm_pairs
    rep = ctx.rep
    v = msm.verifier_core(ctx, 'R-C02-11')
    if v is None:
        return
    sites = msm.msm_sites(ctx, v)
    if len(sites) != 1:
        return
    gbb = sites[0][0]
    node = v.block[gbb]['term']
    sl = msm_pairs.root_local(ctx, v, gbb, node['args'][2])
    if sl is None:
        rep.anchor_missing('R-C02-11', 'R-C02-11/dynamic-scalars', 'cannot resolve the dynamic scalar vector of the gate')
        return
    cand = []
    for e in msm_pairs.fills(ctx, v, sl):
        if not e['decl'].endswith('::push'):
            continue
        lps = ctx.enclosing_loops(v, e['bb'])
        if len(lps) >= 2 and lps[-1].iter_term is not None and any(x.tag == 'field' and x[1] in ('minimum_value_promises', 'commitments') for x in walk(lps[-1].iter_term)):
            cand.append(e)
    if len(cand) != 1:
        rep.idiom_absent('R-C02-11', 'R-C02-11/commitment-scalars', '%d pushes of dynamic scalars inside a loop over the commitments / promises (expected one): not decided' % len(cand))
        return
    e = cand[0]
    val = ctx.eng.event_term(v, e)[3][0]
    from .C06 import challenge_functions
    chal_fns = challenge_functions(ctx)          # the crate functions that draw challenges, whatever they are called

    def is_zsq(t):
        t = strip_mut(t)
        if t.tag == 'binop' and t[1] == 'Mul' and canon(t[2]) == canon(t[3]):
            z = strip_mut(t[2])
            return any(x.tag == 'call' and x[1] in chal_fns for x in walk(z))
        return False

    def running(t):
        # mut(ONE; mul_assign(z*z)) -- one in-place multiplication per iteration
        if t.tag != 'mut':
            return False
        b0 = t[1]
        evs = [x for x in t[2] if hasattr(x, 'tag') and x.tag == 'ev']
        one = canon(b0) in ('S1', 'ONE') or (b0.tag == 'item' and b0[1].endswith('::ONE'))
        return one and len(evs) == 1 and evs[0][2].split('::')[-1] == 'mul_assign' and bool(evs[0][3]) and is_zsq(evs[0][3][0])
    direct = [x for x in walk(val) if running(x)]
    via_vec = []
    for x in walk(val):
        if x.tag in ('elem', 'elemat'):
            base = x[1]
            while base.tag in ('adapt', 'via', 'zip') and len(base.args) >= 2:
                base = base[2] if base.tag in ('adapt', 'via') else base[1]
            if base.tag == 'mut':
                pushed = [ev_[3][0] for ev_ in base[2] if hasattr(ev_, 'tag') and ev_.tag == 'ev' and ev_[2].split('::')[-1] == 'push' and ev_[3]]
                others = [ev_ for ev_ in base[2] if hasattr(ev_, 'tag') and ev_.tag == 'ev' and ev_[2].split('::')[-1] not in ('push', 'reserve', 'with_capacity')]
                if pushed and not others and all(any(running(y) for y in walk(p_)) for p_ in pushed) and 'Scalar' in str(v.local_ty(0)) + 'Scalar':
                    via_vec.append(x)
    ok = bool(direct) or bool(via_vec)
    rep.check(ok, 'R-C02-11', 'R-C02-11/commitment-scalars', 'the scalar of commitment j carries the running product of z*z (one step per commitment from one): z^(2j)',
              'the per-commitment factor of the commitments\' scalars is not a running product of z*z from one: %s' % short(val, 200), ctx.where(v, e['bb']))


def strip_mut(t):
    while t.tag == 'mut':
        t = t[1]
    return t


def run(ctx):
    _run(ctx)
    commitment_scalars(ctx)        # R-C02-10: see below (the verifier half of C04 is a clause of soundness)
    from . import C08
    from .common import shared
    shared(ctx, C08.run, 'R-C08', 'R-C02-8')
    # R-C02-9 (= R-C11-1, R-C11-4): the relation is sound only over generators none of which is a known combination of the others: the
    # G and H chains of every party carry different labels and the blinding generators are derived from their own labels (two
    # positions that hold the same point let a prover trade a_L against a_R after the challenges are known)
    from . import C11
    new = ctx.fn('BulletproofGens::<P>::new', 'R-C02-9')
    if new is not None:
        shared(ctx, lambda c: C11.r1(c, new), 'R-C11-1', 'R-C02-9')
    shared(ctx, C11.r4, 'R-C11-4', 'R-C02-9')
    # R-C02-10 (= the verifier half of R-C04-1 / R-C04-2): the relation is enforced *at the Fiat-Shamir challenges*: a statement datum or
    # prover message that the verifier does not absorb (whole, to the end, before the challenge that should depend on it) can be chosen
    # after that challenge is known, and then the weighted equation no longer implies the range statement
    from . import C04
    shared(ctx, C04.run, 'R-C04', 'R-C02-10', only=('/verifier/',))
