"""Paired-push rule: |dynamic scalars| == |dynamic points| at the verifier's mixed MSM.

The two vectors start empty and are filled only by push / extend events.  Ordered by program position, the i-th fill of
the scalar vector is paired with the i-th fill of the point vector and both must contribute the same number of elements:
  push   <-> push              in the same loop context
  push in a whole loop over C  <-> extend(D)     with |C| == |D|
  extend(C) <-> extend(D)      with |C| == |D|
where lengths are compared in a small normal form (min over atoms `len(x)`), modulo equalities established by guards that
dominate the fill (e.g. len(L) == len(R)) and by constructor invariants checked elsewhere (|promises| == |commitments| in
RangeStatement::init, R-C17-1).
"""
from bpsa.facts import callee_decl
from bpsa.normal import canon
from bpsa.terms import walk, short, TERM_IDX, T, FILL_EVENTS, EMPTY_CTORS

LEN_CALLS = ('core::slice::<impl [T]>::len', 'std::vec::Vec::<T, A>::len')


def strip_mut(t):
    while t.tag == 'mut':
        t = t[1]
    return t


class Unknown(Exception):
    pass


def lenform(ctx, t, depth=0):
    """frozenset of canonical atoms whose minimum is the length of collection/iterator term t"""
    atoms, off = _lf(ctx, t, depth)
    if off != 0:
        raise Unknown('net length offset %d' % off)
    return atoms


def _const_len(t):
    """number of elements of a literal collection, else None"""
    while t.tag in ('mut', 'via') and not (t.tag == 'mut' and t[2]):
        t = t[1] if t.tag == 'mut' else t[2]
    if t.tag in ('array', 'tuple'):
        return len(t.args)
    if t.tag == 'repeatv' and isinstance(t[2], (int, str)) and str(t[2]).isdigit():
        return int(t[2])
    if t.tag in ('once',):
        return 1
    return None


_ENVS = {}          # callee key -> (parameter substitution, call site) while a helper's result is being measured


def _lf(ctx, t, depth=0):
    """(atoms, offset): the length is min(atoms) + offset"""
    if depth > 30:
        raise Unknown('depth')
    k = t.tag
    if k in ('array',) or (k == 'adapt' and t[1] in ('iter', 'into_iter') and len(t.args) >= 3 and _const_len(t[2]) is not None):
        # a literal list: its length is a constant
        n_ = len(t.args) if k == 'array' else _const_len(t[2])
        return frozenset(['=%d' % n_]), 0
    if k == 'mut':
        base, evs = t[1], t[2]
        # a vector created empty and filled by exactly one push per iteration of a loop has that loop's length
        b0 = base
        while b0.tag == 'mut':
            b0 = b0[1]
        pushes = [e for e in evs if e.tag == 'ev' and e[1] == 'call' and e[2] == 'std::vec::Vec::<T, A>::push']
        if b0.tag == 'call' and b0[1] in EMPTY_CTORS and len(pushes) == 1 and len(evs) == 1 and pushes[0][4] and b0[3]:
            bkey, pbb = pushes[0][4][-1]
            ckey, cbb = b0[3][-1]
            body = ctx.facts.by_key.get(bkey)
            if body is not None and ckey == bkey:
                lps = [lp for lp in ctx.enclosing_loops(body, pbb) if cbb not in lp.blocks]
                if len(lps) == 1 and lps[0].iter_term is not None and lps[0].driver_only_exit and ctx.every_iteration(body, lps[0], pbb):
                    it_ = lps[0].iter_term
                    env_ = _ENVS.get(body.key)
                    if env_:
                        # the loop belongs to a helper reached through a call: its iterator in the caller's vocabulary
                        it_ = ctx.eng.subst(it_, env_[0], env_[1])
                    return _lf(ctx, it_, depth + 1)
        off = 0
        whole = None
        trunc = None
        for e in evs:
            if e.tag != 'ev' or e[1] != 'call':
                raise Unknown('store into container')
            d = e[2]
            if d == 'std::vec::Vec::<T, A>::push':
                off += 1
            elif d == 'std::vec::Vec::<T, A>::pop':
                off -= 1
            elif d in ('std::vec::Vec::<T, A>::extend_from_slice', 'std::iter::Extend::extend') and e[3] and _const_len(e[3][0]) is not None:
                off += _const_len(e[3][0])
            elif d in ('std::vec::Vec::<T, A>::extend_from_slice', 'std::iter::Extend::extend', 'std::vec::Vec::<T, A>::append') and e[3] and whole is None \
                    and b0.tag == 'call' and b0[1] in EMPTY_CTORS:
                # a vector created empty that receives one whole collection (`with_capacity(n); extend_from_slice(&xs)`) is as long as
                # that collection, plus what is pushed beside it
                whole = e[3][0]
            elif d in ('curve25519_dalek::Scalar::batch_invert',) or d.startswith('std::ops::') and d.endswith('_assign'):
                pass
            elif d.split('::')[-1] in ('reserve', 'reserve_exact', 'shrink_to_fit'):
                pass
            elif d == 'std::vec::Vec::<T, A>::truncate' and e[3]:
                # `v.truncate(n)` leaves min(len, n) elements: when n is one of the lengths the vector has at least (it was a copy of X,
                # extended by k >= 0, truncated to len(X)), that is n again
                n_ = e[3][0]
                while n_.tag in ('mut', 'via', 'cast'):
                    n_ = n_[1] if n_.tag == 'mut' else n_[2]
                n_atom = canon(n_) if (n_.tag == 'call' and n_[1].split('::')[-1] == 'len') else '=' + canon(n_)
                a0, o0 = _lf(ctx, whole if whole is not None else base, depth + 1)
                same_len = n_atom in a0
                if not same_len and n_.tag == 'call' and n_[1].split('::')[-1] == 'len' and len(n_[2]) == 1:
                    try:
                        an, on = _lf(ctx, n_[2][0], depth + 1)       # the length of X in the same vocabulary
                        same_len = on == 0 and an == a0
                    except Unknown:
                        same_len = False
                if trunc is None and same_len and o0 + off >= 0:
                    trunc, off = a0, 0
                else:
                    raise Unknown('truncate to a length that is not known to be within the vector (%s vs %s, offset %s)' % (n_atom, sorted(a0), o0 + off))
            else:
                raise Unknown('event %s changes the length by an unknown amount' % d)
        # (pushes and pops in loops relative to one another are not modelled: straight-line balance only)
        if trunc is not None:
            return trunc, off
        if whole is not None:
            a, o = _lf(ctx, whole, depth + 1)
            return a, o + off
        a, o = _lf(ctx, base, depth + 1)
        return a, o + off
    if k in ('map', 'enumerate'):
        return _lf(ctx, t[1], depth + 1)
    if k == 'adapt' and t[1] in ('copied', 'cloned', 'rev', 'by_ref', 'peekable') and len(t.args) >= 2:
        return _lf(ctx, t[2], depth + 1)
    if k == 'range' and t[1].tag == 'const' and t[1][1] == 0 and not (t[2].tag == 'const' and t[2][1] is None):
        return frozenset(['=' + canon(t[2])]), 0
    if k == 'adapt' and t[1] == 'take' and len(t.args) >= 3:
        a, o = _lf(ctx, t[2], depth + 1)
        if o != 0:
            raise Unknown('take of an offset length')
        return a | frozenset(['=' + canon(t[3])]), 0
    if k == 'zip':
        (a1, o1), (a2, o2) = _lf(ctx, t[1], depth + 1), _lf(ctx, t[2], depth + 1)
        if o1 != o2:
            raise Unknown('zip of lengths with different offsets')
        return a1 | a2, o1
    if k == 'chain':
        # a literal tail / head of known size shifts the length
        for x, y in ((t[1], t[2]), (t[2], t[1])):
            n = _const_len(y)
            if n is not None:
                a, o = _lf(ctx, x, depth + 1)
                return a, o + n
        raise Unknown('chain of two collections of unknown length')
    if k == 'call':
        name = t[1]
        if name in ctx.facts.fn:
            inl = ctx.eng.inline(name, t[2], t[3])
            if inl is not t:
                from bpsa.terms import success_value
                sv = success_value(inl[1] if inl.tag == 'mut' and not inl[2] else inl)
                callee = ctx.facts.fn[name]
                prev = _ENVS.get(callee.key)
                _ENVS[callee.key] = ({('param', callee.key, i + 1): a for i, a in enumerate(t[2])}, tuple(t[3]) if t[3] else ())
                try:
                    return _lf(ctx, sv if sv is not None else inl, depth + 1)
                finally:
                    if prev is None:
                        _ENVS.pop(callee.key, None)
                    else:
                        _ENVS[callee.key] = prev
        if name == 'std::vec::from_elem' and len(t[2]) == 2:
            return frozenset(['=' + canon(t[2][1])]), 0
        raise Unknown('call ' + name)
    if k in ('field', 'param', 'elem', 'elemat', 'upvar'):
        return frozenset(['len(%s)' % canon(t)]), 0
    if k == 'phi':
        # the failure alternatives of a fallible helper are not lengths
        alts = [x for x in t.args if not (x.tag == 'call' and x[1].split('::')[-1] == 'from_residual') and not (x.tag == 'adt' and x[1].split('::')[-1] in ('Err', 'None'))]
        fs = {_lf(ctx, x, depth + 1) for x in (alts or t.args)}
        if len(fs) == 1:
            return fs.pop()
        raise Unknown('phi of different lengths')
    raise Unknown('term ' + k)


class UF(object):
    def __init__(self):
        self.p = {}

    def find(self, x):
        while self.p.get(x, x) != x:
            x = self.p[x]
        return x

    def union(self, a, b):
        ra, rb = self.find(a), self.find(b)
        if ra != rb:
            self.p[max(ra, rb)] = min(ra, rb)

    def norm(self, s):
        return frozenset(self.find(x) for x in s)


def fills(ctx, body, local):
    ix = ctx.eng.bx(body)
    cfg = ix.cfg
    pos = {b: i for i, b in enumerate(cfg.rpo)}
    evs = [e for e in ix.events_on(('L', local))]
    evs.sort(key=lambda e: pos.get(e['bb'], 10 ** 9))
    return evs


def check(ctx, rule, v, r):
    rep = ctx.rep
    where = ctx.where(v, r['bb'])
    node = v.block[r['bb']]['term']
    # the dynamic arguments are iter() of two locals
    locs = []
    for ai in (2, 3):
        a = node['args'][ai]
        roots = None
        if a['k'] in ('copy', 'move'):
            t = ctx.eng.operand(v, r['bb'], TERM_IDX, a)
            roots = root_local(ctx, v, r['bb'], a)
        locs.append(roots)
    if None in locs:
        rep.anchor_missing(rule, rule + '/pairs/locals', 'cannot resolve the dynamic scalar/point vectors of the MSM to locals')
        return
    sl, pl = locs
    sev, pev = fills(ctx, v, sl), fills(ctx, v, pl)
    ix = ctx.eng.bx(v)
    # both start empty
    for nm, l in (('scalars', sl), ('points', pl)):
        wd = ix.whole_defs(l)
        ok = len(wd) == 1 and wd[0][2] == 'call' and callee_decl(wd[0][3]) in EMPTY_CTORS
        rep.check(ok, rule, rule + '/pairs/%s/empty-start' % nm, 'dynamic %s vector starts empty (single constructor definition)' % nm,
                  'dynamic %s vector is not created empty by a single constructor call' % nm, where)
    bad = [e for e in sev + pev if e['kind'] != 'call' or e['decl'] not in FILL_EVENTS]
    for e in bad:
        rep.violation(rule, rule + '/pairs/non-fill/%s' % e['decl'], 'dynamic MSM vector is modified by %s, which is not a push/extend' % e['decl'], ctx.where(v, e['bb']))
    sev = [e for e in sev if e not in bad]
    pev = [e for e in pev if e not in bad]
    if len(sev) != len(pev):
        rep.violation(rule, rule + '/pairs/count', 'the scalar vector is filled at %d sites, the point vector at %d sites: they cannot be paired' % (len(sev), len(pev)), where)
        return
    rep.floor(rule, 'paired fill sites', len(sev), 4)
    cfg = ix.cfg
    lps = ctx.loops(v)
    # per-proof loop: the outermost loop containing the first fill
    for n, (a, b) in enumerate(zip(sev, pev)):
        key = '%s/pairs/%d' % (rule, n)
        try:
            ca, cb = card(ctx, v, a), card(ctx, v, b)
            uf = equalities(ctx, v, max(a['bb'], b['bb'], key=lambda x: cfg.rpo.index(x)))
            ok, why = same_card(ctx, v, ca, cb, uf)
        except Unknown as u:
            rep.violation(rule, key, 'cannot establish that fill #%d of the scalar vector (%s, line %s) and of the point vector (%s, line %s) add the same number of elements: %s' % (
                n, a['decl'].split('::')[-1], a['line'], b['decl'].split('::')[-1], b['line'], u), ctx.where(v, a['bb']))
            continue
        rep.check(ok, rule, key, 'fill #%d: %s (line %s) and %s (line %s) add the same number of elements: %s' % (
            n, a['decl'].split('::')[-1], a['line'], b['decl'].split('::')[-1], b['line'], why),
            'fill #%d: %s (line %s) and %s (line %s) may add different numbers of elements: %s' % (
            n, a['decl'].split('::')[-1], a['line'], b['decl'].split('::')[-1], b['line'], why), ctx.where(v, a['bb']))


def root_local(ctx, body, bb, operand):
    ix = ctx.eng.bx(body)
    roots = ix.place_roots_value(operand['place'], frozenset()) if False else None
    # iter(&v): follow the def chain of the operand to a `&local`
    l = operand['place']['l']
    for _ in range(8):
        ds = ix.defs.get(l, [])
        if len(ds) != 1:
            return None
        d = ds[0]
        if d[2] == 'call':
            args = d[3]['args']
            if not args or args[0]['k'] not in ('copy', 'move'):
                return None
            l = args[0]['place']['l']
        else:
            rv = d[3]['rv']
            if rv['k'] == 'ref':
                if rv['place']['p'] and any(e['k'] != 'deref' for e in rv['place']['p']):
                    return None
                l = rv['place']['l']
                if not rv['place']['p']:
                    if body.local_name(l):
                        return l
            elif rv['k'] in ('use', 'copyforderef'):
                src = rv['op']['place'] if rv['k'] == 'use' else rv['place']
                l = src['l']
            else:
                return None
        if body.local_name(l) and body.local_ty(l).startswith('std::vec::Vec<'):
            return l
    return None


def card(ctx, v, e):
    """('unit', loops) | ('len', lenform, loops)"""
    cfg = ctx.cfgof(v)
    loops = tuple(cfg.loop_of.get(e['bb'], []))
    if FILL_EVENTS[e['decl']] == 'one':
        return ('unit', loops, None, e['bb'])
    arg = ctx.eng.operand(v, e['bb'], TERM_IDX, e['args'][0])
    return ('len', lenform(ctx, arg), loops, e['bb'])


def equalities(ctx, v, bb):
    """union-find over length atoms from Eq guards dominating bb and from the constructor invariant"""
    uf = UF()
    cfg = ctx.cfgof(v)
    for g in ctx.guards(v):
        if g.bb == bb or not ctx.holds_at(v, g.bb, bb):
            continue
        c = g.cond
        if c.tag == 'binop' and ((c[1] == 'Ne' and g.reject_when_true()) or (c[1] == 'Eq' and g.reject_when_false())):
            sides = []
            for x in (c[2], c[3]):
                if x.tag == 'call' and x[1] in LEN_CALLS and len(x[2]) == 1:
                    try:
                        f = lenform(ctx, x[2][0])
                    except Unknown:
                        f = None
                    sides.append(f)
                else:
                    sides.append(None)
            if sides[0] is not None and sides[1] is not None and len(sides[0]) == 1 and len(sides[1]) == 1:
                uf.union(next(iter(sides[0])), next(iter(sides[1])))
    return uf


def invariant_pairs(ctx):
    """constructor invariants usable as equalities: (field a, field b) of RangeStatement with |a| == |b|"""
    out = []
    init = ctx.fn('RangeStatement::<P>::init', required=False)
    if init is not None:
        from .common import guard_table, unconditional
        # parameter index -> the field of the constructed statement that stores that parameter (not the parameter's name)
        names = {}
        rt = ctx.eng.return_term(init)
        for x in walk(rt):
            if x.tag == 'adt' and x[1].endswith('RangeStatement::RangeStatement'):
                for fname, ft in x[2]:
                    y = ft
                    while y.tag == 'mut':
                        y = y[1]
                    if y.tag == 'param' and y[1] == init.key:
                        names[y[2]] = fname
        for row in guard_table(ctx, init):
            if not unconditional(row):
                continue            # a comparison made only on some paths (`!a.is_empty() && a.len() != b.len()`) is not an invariant
            for a in row['atoms']:
                if a[0] == 'cmp' and a[1] == 'Eq' and a[2].startswith('len(p') and a[3].startswith('len(p') and row['eff'] == 'dom':
                    i, j = int(a[2][5:-1]), int(a[3][5:-1])
                    out.append((names.get(i), names.get(j)))
    return out


def same_card(ctx, v, ca, cb, uf):
    lps = ctx.loops(v)
    if ca[0] == 'unit' and cb[0] == 'unit':
        a, b = ca[3], cb[3]
        first, second = (a, b) if ctx.cfgof(v).dominates(a, b) else (b, a)
        together = ctx.must_follow(v, first, second)
        return (ca[1] == cb[1] and together, 'single pushes in loop context %s / %s, %s' % (
            list(ca[1]), list(cb[1]), 'executed equally often' if together else 'but one can execute without the other'))
    if ca[0] == 'len' and cb[0] == 'len':
        if ca[2] != cb[2]:
            return (False, 'extends in different loop contexts')
        a, b = ca[3], cb[3]
        first, second = (a, b) if ctx.cfgof(v).dominates(a, b) else (b, a)
        if not ctx.must_follow(v, first, second):
            return (False, 'one extend can execute without the other')
        fa, fb = uf.norm(ca[1]), uf.norm(cb[1])
        if fa != fb and len(fa) == 1 and len(fb) == 1:
            a, b = sorted([next(iter(fa)), next(iter(fb))])
            # '=X.extension_degree' vs 'len(X.g_base_vec)': invariant of the library's Pedersen-generator constructor
            if a.startswith('=') and a.endswith('.extension_degree') and b == 'len(%s.g_base_vec)' % a[1:-len('.extension_degree')]:
                if pedersen_guard(ctx, v, a[1:], b):
                    return (True, 'lengths %s and %s are equal by a guard of the consistency function (|g_base_vec| == extension degree, or the batch is refused)' % (a, b))
        return (fa == fb, 'lengths %s and %s (modulo guard equalities)' % (sorted(fa), sorted(fb)))
    unit, ext = (ca, cb) if ca[0] == 'unit' else (cb, ca)
    # push inside one more loop than the extend; that loop must be a whole loop over C with |C| == |ext|
    if len(unit[1]) != len(ext[2]) + 1 or tuple(unit[1][:len(ext[2])]) != tuple(ext[2]):
        return (False, 'push in loop context %s cannot be matched with an extend in loop context %s' % (list(unit[1]), list(ext[2])))
    lp = lps.get(unit[1][-1])
    if lp is None or lp.driver_bb is None or not lp.driver_only_exit:
        return (False, 'the loop around the push is not a whole iterator-driven loop')
    if not ctx.every_iteration(v, lp, unit[3]):
        return (False, 'the push does not execute on every iteration of its loop')
    outer = ext[2][-1] if ext[2] else None
    cfg = ctx.cfgof(v)
    if cfg.dominates(lp.header, ext[3]):
        together = ctx.must_reach(v, [b for _, b in lp.ok_exits], ext[3], outer)
    else:
        together = cfg.dominates(ext[3], lp.header) and ctx.must_reach(v, cfg.succ.get(ext[3], []), lp.header, outer)
    if not together:
        return (False, 'the push loop and the extend are not executed together on every accepted path')
    itf = lenform(ctx, strip_mut(lp.iter_term))
    fa, fb = uf.norm(itf), uf.norm(ext[1])
    if fa == fb:
        return (True, 'push once per element of %s; extend adds %s' % (sorted(fa), sorted(fb)))
    # constructor invariant |X.a| == |X.b|
    if len(fa) == 1 and len(fb) == 1:
        a, b = next(iter(fa)), next(iter(fb))
        for (f1, f2) in invariant_pairs(ctx):
            for (x, y) in ((f1, f2), (f2, f1)):
                if x and y and a.endswith('.%s)' % x) and b.endswith('.%s)' % y) and a[:-len(x) - 2] == b[:-len(y) - 2]:
                    return (True, 'push once per element of %s; extend adds %s; equal by the RangeStatement::init invariant |%s| == |%s|' % (a, b, x, y))
    return (False, 'push once per element of %s but extend adds %s' % (sorted(fa), sorted(fb)))


def pedersen_guard(ctx, v, ext, glen):
    """the batch is refused unless `glen` (= len(X.g_base_vec)) equals `ext` (= X.extension_degree): an accept-atom of the verifier core
    or of the consistency function it calls first.  (PedersenGens has public fields: that its only library constructor builds the
    vector with extension-degree many elements is not an invariant of the type.)"""
    from .common import guard_table
    for r in guard_table(ctx, v, deep=True):
        if r['eff'] == 'bypass' or any(c[0] != 'succ' for c in r['ctx']):
            continue
        for a in r['atoms']:
            if a[0] == 'cmp' and a[1] == 'Eq' and {a[2], a[3]} == {ext, glen}:
                return True
    return False


def pedersen_invariant(ctx):
    """the library's only PedersenGens constructor builds g_base_vec as basepoints[..extension_degree as usize] and stores
    that same extension degree"""
    b = ctx.fn('create_pedersen_gens_with_extension_degree', required=False)
    if b is None:
        return False
    rt = ctx.eng.return_term(b)
    adts = [x for x in walk(rt) if x.tag == 'adt' and x[1].endswith('PedersenGens')]
    if not adts:
        return False
    fields = dict(adts[0][2])
    ext = fields.get('extension_degree')
    g = fields.get('g_base_vec')
    if ext is None or g is None or ext.tag != 'param':
        return False
    # expand local helper calls
    def expand(t, depth=0):
        if depth > 6:
            return t
        for x in walk(t):
            if x.tag == 'call' and x[1] in ctx.facts.fn:
                return expand(ctx.eng.subst_term(t, x, ctx.eng.inline(x[1], x[2], x[3])), depth + 1)
        return t
    g = expand(g)
    for x in walk(g):
        if x.tag == 'adt' and x[1].endswith('RangeTo::RangeTo'):
            end = x[2][0][1]
            while end.tag in ('cast', 'discr'):
                end = end[2] if end.tag == 'cast' else end[1]
            if end is ext:
                return True
    return False


def len_eq_guards(ctx, v):
    """[(guard row, lenform A, lenform B)] for guards `len(X) == len(Y)` of body v (accept condition), with both sides in length
    normal form (helper calls looked through)"""
    from .common import guard_table
    out = []
    for r in guard_table(ctx, v):
        g = r['guard']
        c = g.cond
        if c.tag == 'binop' and ((c[1] == 'Ne' and g.reject_when_true()) or (c[1] == 'Eq' and g.reject_when_false())):
            sides = []
            for x in (c[2], c[3]):
                if x.tag == 'call' and x[1] in LEN_CALLS and len(x[2]) == 1:
                    try:
                        sides.append(lenform(ctx, x[2][0]))
                    except Unknown:
                        sides.append(None)
                else:
                    sides.append(None)
            if sides[0] is not None and sides[1] is not None:
                out.append((r, sides[0], sides[1]))
    return out
