"""Polynomial normal form over Scalar-valued terms: canonical sum of monomials over atoms (global value numbering with a
commutative-ring congruence).  No loop is unrolled and no path is enumerated."""
from bpsa.terms import is_term


class NotPoly(Exception):
    pass


def pmul(a, b):
    out = {}
    for ma, ca in a.items():
        for mb, cb in b.items():
            m = tuple(sorted(ma + mb))
            out[m] = out.get(m, 0) + ca * cb
    return {m: c for m, c in out.items() if c != 0}


def padd(a, b, sign=1):
    out = dict(a)
    for m, c in b.items():
        out[m] = out.get(m, 0) + sign * c
    return {m: c for m, c in out.items() if c != 0}


def normal(t, atoms, depth=0):
    """polynomial {monomial(tuple of atom names): int coeff} of term t; `atoms` maps Term id -> name for designated atoms;
    any other non-ring sub-term becomes an anonymous atom keyed by its id"""
    if depth > 200:
        raise NotPoly('depth')
    if t.id in atoms:
        return {(atoms[t.id],): 1}
    k = t.tag
    if k == 'scalar':
        return {(): t[1]} if t[1] != 0 else {}
    if k == 'binop' and t[1] in ('Add', 'Sub', 'Mul'):
        a, b = normal(t[2], atoms, depth + 1), normal(t[3], atoms, depth + 1)
        if t[1] == 'Mul':
            return pmul(a, b)
        return padd(a, b, 1 if t[1] == 'Add' else -1)
    if k == 'unop' and t[1] == 'Neg':
        return padd({}, normal(t[2], atoms, depth + 1), -1)
    if k == 'call' and t[1].endswith('From<u8>>::from') or k == 'call' and t[1].endswith('From<u64>>::from'):
        a = t[2][0]
        if a.tag == 'const' and isinstance(a[1], int):
            return {(): a[1]}
    return {('#%d' % t.id,): 1}
