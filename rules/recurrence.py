"""Conditional idiom rules on closed forms of the verifier (shared by C01 and C02):
  * the doubling recurrence that sums z^2 + z^4 + .. + z^(2m)      (R-C01-1 / R-C02-5)
  * the constants of the range polynomial: radix 2, 2^bits - 1      (R-C02-7)
A violation is reported only when the idiom is recognised completely and its normal form differs from the reference; if the
code no longer has that shape the clause is recorded as idiom-absent (not decided) and raises no alarm."""
from bpsa.facts import callee_decl, callee_name
from bpsa.normal import canon
from bpsa.terms import walk, short, TERM_IDX, T
from . import poly


def loop_carried_scalars(ctx, v, lp):
    """locals of type Scalar that are (re)assigned inside loop lp and defined before it"""
    ix = ctx.eng.bx(v)
    out = []
    for l in range(v.argc + 1, len(v.locals)):
        if v.local_ty(l) != 'curve25519_dalek::Scalar' or not v.local_name(l):
            continue
        wd = ix.whole_defs(l)
        ins = [d for d in wd if d[0] in lp.blocks]
        outs = [d for d in wd if d[0] not in lp.blocks]
        if ins and outs:
            out.append((l, ins, outs))
    return out


def find_doubling_loop(ctx, v):
    """loop whose trip count is ilog2(aggregation factor) carrying exactly two Scalar variables"""
    for h, lp in sorted(ctx.loops(v).items()):
        it = lp.iter_term
        if it is None or it.tag != 'range':
            continue
        end = it[2]
        if not any(x.tag == 'call' and x[1].split('::')[-1] in ('ilog2', 'checked_ilog2') for x in walk(end)):
            continue
        if not any(x.tag == 'field' and x[1] == 'commitments' for x in walk(end)):
            continue
        return lp
    return None


def check_aggregation_sum(ctx, rule, v):
    rep = ctx.rep
    lp = find_doubling_loop(ctx, v)
    key = rule + '/doubling-recurrence'
    if lp is None:
        rep.idiom_absent(rule, key, 'no loop with trip count ilog2(aggregation factor): the closed-form aggregation sum is computed differently (not decided)')
        return
    carried = loop_carried_scalars(ctx, v, lp)
    if len(carried) != 2:
        rep.idiom_absent(rule, key, 'the ilog2(aggregation) loop carries %d scalar variables, not 2 (not decided)' % len(carried))
        return
    eng = ctx.eng
    # step terms with loop-carried reads as lv atoms
    steps, inits, lvs = {}, {}, {}
    for l, ins, outs in carried:
        if len(ins) != 1 or len(outs) != 1:
            rep.idiom_absent(rule, key, 'a carried variable has several definitions (not decided)')
            return
        d = ins[0]
        steps[l] = eng.rvalue(v, d[0], d[1], d[3]['rv']) if d[2] == 'assign' else eng.call_result(v, d[0])
        o = outs[0]
        inits[l] = eng.rvalue(v, o[0], o[1], o[3]['rv']) if o[2] == 'assign' else eng.call_result(v, o[0])
        lvs[l] = T('lv', v.key, l, lp.header, ())
    atoms = {lvs[l].id: 'X%d' % i for i, l in enumerate(sorted(lvs))}
    names = {l: 'X%d' % i for i, l in enumerate(sorted(lvs))}
    polys = {}
    for l in steps:
        try:
            polys[l] = poly.normal(steps[l], atoms)
        except poly.NotPoly:
            rep.idiom_absent(rule, key, 'an update does not normalise to a polynomial (not decided)')
            return
        # complete normalisation: besides the carried variables only loop-invariant atoms may occur
        from bpsa.terms import Term
        byid = {x.id: x for x in walk(steps[l])}
        for m in polys[l]:
            for a in m:
                if a.startswith('#'):
                    at = byid.get(int(a[1:]))
                    inv = at is not None and not any((y.tag in ('call', 'ev', 'lv') and y[-1] and y[-1][0][0] == v.key and y[-1][0][1] in lp.blocks) or
                                                     (y.tag == 'lv' and y[3] == lp.header) for y in walk(at))
                    if not inv:
                        rep.idiom_absent(rule, key, 'an update involves a term computed inside the loop that is not a ring operation on the carried variables: %s (not decided)' % short(steps[l], 120))
                        return
    # reference: S' = S + S*T, T' = T*T  for some assignment of (S, T)
    (la, lb) = sorted(steps)
    def ref(S, T_):
        return {S: {(names[S],): 1, tuple(sorted((names[S], names[T_]))): 1}, T_: {(names[T_], names[T_]): 1}}
    ok = None
    for S, T_ in ((la, lb), (lb, la)):
        r = ref(S, T_)
        if polys[S] == r[S] and polys[T_] == r[T_]:
            ok = (S, T_)
    where = ctx.where(v, lp.header)
    if ok is None:
        rep.violation(rule, key, 'closed-form aggregation sum: loop updates are %s; the reference recurrence is S <- S + S*T, T <- T*T (sum of z^(2j), j = 1..m); '
                      'any other update agrees with it only for small aggregation factors' % {v.local_name(l): fmt_poly(polys[l]) for l in polys}, where)
        return
    S, T_ = ok
    # initial values equal (both z^2) and z is the second y/z challenge
    same_init = inits[S] is inits[T_] or canon(inits[S]) == canon(inits[T_])
    isq = inits[S]
    sq = isq.tag == 'binop' and isq[1] == 'Mul' and isq[2] is isq[3]
    rep.check(same_init and sq, rule, key, 'aggregation sum uses the doubling recurrence S <- S + S*T, T <- T*T from S0 = T0 = z*z (trip count ilog2(m))',
              'doubling recurrence starts from S0 = %s, T0 = %s (expected both z*z)' % (short(inits[S], 80), short(inits[T_], 80)), where)
    # post-loop: S is multiplied by (2^bits - 1)
    ix = ctx.eng.bx(v)
    evs = [e for e in ix.events_on(('L', S)) if e['bb'] not in lp.blocks]
    k2 = rule + '/range-constant'
    if len(evs) == 1 and evs[0]['decl'].endswith('mul_assign'):
        val = ctx.eng.operand(v, evs[0]['bb'], TERM_IDX, evs[0]['args'][0])
        c = canon(val)
        good = c.startswith('(S1 Sub pow_vartime(from(2),') is False and 'pow_vartime(from(2),' in c and c.endswith(' Sub S1)') and 'gens_capacity' in c
        rep.check(good, rule, k2, 'the sum is scaled by 2^bits - 1', 'the sum is scaled by %s, expected pow(2, bit_length) - 1' % c, ctx.where(v, evs[0]['bb']))
    else:
        rep.idiom_absent(rule, k2, 'the aggregation sum is not scaled by a single in-place multiplication after the loop (not decided)')


def fmt_poly(p):
    return ' + '.join(('%d*' % c if c != 1 else '') + ('*'.join(m) or '1') for m, c in sorted(p.items())) or '0'


def check_constants(ctx, rule, v):
    """radix of the d vector: d[i] = two * d[i-1] with two = Scalar::from(2)"""
    rep = ctx.rep
    found = 0
    for b in [v]:
        for bb, t in ctx.calls(b):
            if callee_decl(t) == 'std::vec::Vec::<T, A>::push':
                a = ctx.args(b, bb)
                if len(a) < 2:
                    continue
                val = a[1]
                # value = K * last(same vector)
                if val.tag == 'binop' and val[1] == 'Mul':
                    for k, other in ((val[2], val[3]), (val[3], val[2])):
                        if other.tag == 'elemat' and other[2].tag == 'const' and other[2][1] == 'last':
                            found += 1
                            c = canon(k)
                            rep.check(c == 'from(2)', rule, rule + '/radix/%s' % b.path.split('::')[-1], 'the range polynomial uses radix 2 (d[i] = 2 * d[i-1])',
                                      'd[i] = %s * d[i-1]: the range polynomial uses a radix other than 2' % c, ctx.where(b, bb))
    if not found:
        rep.idiom_absent(rule, rule + '/radix', 'no `d.push(K * d.last())` idiom in the verifier (radix not decided)')
