"""Conditional idiom rules on closed forms of the verifier (shared by C01 and C02):
  * the doubling recurrence that sums z^2 + z^4 + .. + z^(2m)      (R-C01-1 / R-C02-5)
  * the constants of the range polynomial: radix 2, 2^bits - 1      (R-C02-7)
A violation is reported only when the idiom is recognised completely and its normal form differs from the reference; if the
code no longer has that shape the clause is recorded as idiom-absent (not decided) and raises no alarm."""
from bpsa.facts import callee_decl, callee_name
from bpsa.normal import canon
from bpsa.terms import walk, short, TERM_IDX, T
from . import poly


SCALAR = 'curve25519_dalek::Scalar'
OPS = {'std::ops::Add::add': 'Add', 'std::ops::Sub::sub': 'Sub', 'std::ops::Mul::mul': 'Mul', 'std::ops::Neg::neg': 'Neg'}
OPS_ASSIGN = {'std::ops::AddAssign::add_assign': 'Add', 'std::ops::SubAssign::sub_assign': 'Sub', 'std::ops::MulAssign::mul_assign': 'Mul'}


def carried_scalars(ctx, v, lp):
    """named Scalar locals defined before the loop and updated inside it (by assignment or by an in-place operator)"""
    ix = ctx.eng.bx(v)
    out = []
    for l in range(v.argc + 1, len(v.locals)):
        if v.local_ty(l) != SCALAR or not v.local_name(l):
            continue
        wd = ix.whole_defs(l)
        ins = [d for d in wd if d[0] in lp.blocks]
        outs = [d for d in wd if d[0] not in lp.blocks]
        evs = [e for e in ix.events_on(('L', l)) if e['bb'] in lp.blocks and e['decl'] in OPS_ASSIGN]
        if outs and (ins or evs):
            out.append(l)
    return out


def step_polys(ctx, v, lp, carried):
    """one abstract iteration of the loop in the polynomial domain: {carried local: polynomial over X<l> and loop-invariant
    atoms}, or None if the body is not straight-line ring arithmetic on the carried variables.  Nothing is unrolled."""
    cfg = ctx.cfgof(v)
    eng = ctx.eng
    blocks = [b for b in cfg.rpo if b in lp.blocks]
    # straight-line body: every block of the loop executes on every iteration (no inner branching besides the driver)
    inner = [b for b in blocks if v.block[b]['term']['k'] == 'switch' and b != getattr(lp, 'driver_switch', None)]
    if inner:
        return None, 'the loop body branches'
    env = {}
    refs = {}
    atoms = {}

    def atom_of(term):
        atoms[term.id] = term
        return {('#%d' % term.id,): 1}

    def read(l, bb, idx):
        if l in refs:
            return read(refs[l], bb, idx)
        if l in env:
            return env[l]
        if l in carried:
            return {('X%d' % l,): 1}
        return atom_of(eng.local(v, bb, idx, l))

    def operand(o, bb, idx):
        if o['k'] in ('copy', 'move'):
            p = o['place']
            if any(e['k'] not in ('deref',) for e in p['p']):
                return atom_of(eng.operand(v, bb, idx, o))
            return read(p['l'], bb, idx)
        t = eng.operand(v, bb, idx, o)
        if t.tag == 'scalar':
            return {(): t[1]} if t[1] else {}
        return atom_of(t)

    for bb in blocks:
        blk = v.block[bb]
        for i, st in enumerate(blk['stmts']):
            if st['k'] != 'assign' or st['place']['p']:
                continue
            dst = st['place']['l']
            rv = st['rv']
            ty = v.local_ty(dst)
            if rv['k'] in ('ref', 'copyforderef') and not any(e['k'] not in ('deref',) for e in rv['place']['p']):
                src = rv['place']['l']
                refs[dst] = refs.get(src, src)
            elif rv['k'] == 'use' and ty.replace('&', '').replace('mut ', '').replace("'a ", '').replace("'b ", '').strip() == SCALAR and rv['op']['k'] in ('copy', 'move'):
                if ty == SCALAR:
                    env[dst] = operand(rv['op'], bb, i)
                    refs.pop(dst, None)
                else:
                    src = rv['op']['place']['l']
                    refs[dst] = refs.get(src, src)
            elif rv['k'] == 'use' and ty == SCALAR:
                env[dst] = operand(rv['op'], bb, i)
        t = blk['term']
        if t['k'] != 'call':
            continue
        decl = callee_decl(t)
        name = callee_name(t)
        if decl in OPS and 'Scalar' in name:
            ps = [operand(a, bb, TERM_IDX) for a in t['args']]
            op = OPS[decl]
            if op == 'Neg':
                r = poly.padd({}, ps[0], -1)
            elif op == 'Mul':
                r = poly.pmul(ps[0], ps[1])
            else:
                r = poly.padd(ps[0], ps[1], 1 if op == 'Add' else -1)
            if not t['dest']['p']:
                env[t['dest']['l']] = r
                refs.pop(t['dest']['l'], None)
        elif decl in OPS_ASSIGN and 'Scalar' in name:
            a0 = t['args'][0]
            if a0['k'] not in ('copy', 'move'):
                return None, 'in-place update of a non-local'
            tgt = refs.get(a0['place']['l'], a0['place']['l'])
            cur = read(tgt, bb, TERM_IDX)
            val = operand(t['args'][1], bb, TERM_IDX)
            op = OPS_ASSIGN[decl]
            env[tgt] = poly.pmul(cur, val) if op == 'Mul' else poly.padd(cur, val, 1 if op == 'Add' else -1)
        elif not t['dest']['p'] and v.local_ty(t['dest']['l']) == SCALAR:
            env[t['dest']['l']] = atom_of(eng.call_result(v, bb))
    out = {}
    for l in carried:
        out[l] = env.get(l, {('X%d' % l,): 1})
    # atoms must be loop-invariant
    for l, pl in out.items():
        for m in pl:
            for a in m:
                if a.startswith('#'):
                    at = atoms.get(int(a[1:]))
                    inv = at is not None and not any((y.tag in ('call', 'ev') and y[-1] and y[-1][0][0] == v.key and y[-1][0][1] in lp.blocks) or
                                                     (y.tag == 'lv' and y[3] == lp.header) for y in walk(at))
                    if not inv:
                        return None, 'an update uses a value computed inside the loop by something other than ring arithmetic'
    return out, atoms


def find_doubling_loop(ctx, v):
    """loop whose trip count is ilog2(aggregation factor) carrying exactly two Scalar variables"""
    for h, lp in sorted(ctx.loops(v).items()):
        it = lp.iter_term
        if it is None or it.tag != 'range':
            continue
        end = it[2]
        if not any(x.tag == 'call' and x[1].split('::')[-1] in ('ilog2', 'checked_ilog2') for x in walk(end)):
            continue
        if not any(x.tag == 'field' and x[1] == 'commitments' for x in walk(end)):
            continue
        return lp
    return None


def init_term(ctx, v, lp, l):
    """value of local l on entry to the loop"""
    cfg = ctx.cfgof(v)
    preds = [p for p in cfg.pred.get(lp.header, []) if p not in lp.blocks]
    if len(preds) != 1:
        return None
    return ctx.eng.local(v, preds[0], TERM_IDX, l)


def check_aggregation_sum(ctx, rule, v):
    rep = ctx.rep
    lp = find_doubling_loop(ctx, v)
    key = rule + '/doubling-recurrence'
    if lp is None:
        rep.idiom_absent(rule, key, 'no loop with trip count ilog2(aggregation factor): the closed-form aggregation sum is computed differently (not decided)')
        return
    carried = carried_scalars(ctx, v, lp)
    if len(carried) != 2:
        rep.idiom_absent(rule, key, 'the ilog2(aggregation) loop carries %d scalar variables, not 2 (not decided)' % len(carried))
        return
    polys, info = step_polys(ctx, v, lp, carried)
    if polys is None:
        rep.idiom_absent(rule, key, '%s (not decided)' % info)
        return
    names = {l: 'X%d' % l for l in carried}
    la, lb = sorted(carried)

    def ref(S, T_):
        return {S: {(names[S],): 1, tuple(sorted((names[S], names[T_]))): 1}, T_: {(names[T_], names[T_]): 1}}
    ok = None
    for S, T_ in ((la, lb), (lb, la)):
        r = ref(S, T_)
        if polys[S] == r[S] and polys[T_] == r[T_]:
            ok = (S, T_)
    where = ctx.where(v, lp.header)
    if ok is None:
        shown = {v.local_name(l): fmt_poly(polys[l]).replace(names[la], v.local_name(la)).replace(names[lb], v.local_name(lb)) for l in polys}
        rep.violation(rule, key, 'closed-form aggregation sum: one loop iteration computes %s; the reference recurrence is S <- S + S*T, T <- T*T (sum of z^(2j), j = 1..m); '
                      'any other update agrees with it only for small aggregation factors' % shown, where)
        return
    S, T_ = ok
    i_s, i_t = init_term(ctx, v, lp, S), init_term(ctx, v, lp, T_)
    def unm(t):
        while t is not None and t.tag == 'mut':
            t = t[1]
        return t
    i_s, i_t = unm(i_s), unm(i_t)
    same_init = i_s is not None and i_t is not None and (i_s is i_t or canon(i_s) == canon(i_t))
    sq = i_s is not None and i_s.tag == 'binop' and i_s[1] == 'Mul' and i_s[2] is i_s[3]
    rep.check(same_init and sq, rule, key, 'aggregation sum uses the doubling recurrence S <- S + S*T, T <- T*T from S0 = T0 = z*z (trip count ilog2(m))',
              'doubling recurrence starts from S0 = %s, T0 = %s (expected both z*z)' % (short(i_s, 80) if i_s is not None else None, short(i_t, 80) if i_t is not None else None), where)
    # post-loop: S is multiplied by (2^bits - 1)
    ix = ctx.eng.bx(v)
    evs = [e for e in ix.events_on(('L', S)) if e['bb'] not in lp.blocks]
    k2 = rule + '/range-constant'
    if len(evs) == 1 and evs[0]['decl'].endswith('mul_assign'):
        val = ctx.eng.operand(v, evs[0]['bb'], TERM_IDX, evs[0]['args'][0])
        c = canon(val)
        good = 'pow_vartime(from(2),' in c and c.endswith(' Sub S1)') and 'gens_capacity' in c
        rep.check(good, rule, k2, 'the sum is scaled by 2^bits - 1', 'the sum is scaled by %s, expected pow(2, bit_length) - 1' % c, ctx.where(v, evs[0]['bb']))
    else:
        rep.idiom_absent(rule, k2, 'the aggregation sum is not scaled by a single in-place multiplication after the loop (not decided)')


def fmt_poly(p):
    return ' + '.join(('%d*' % c if c != 1 else '') + ('*'.join(m) or '1') for m, c in sorted(p.items())) or '0'


def check_constants(ctx, rule, v):
    """radix of the d vector: d[i] = two * d[i-1] with two = Scalar::from(2)"""
    rep = ctx.rep
    found = 0
    for b in [v]:
        for bb, t in ctx.calls(b):
            if callee_decl(t) == 'std::vec::Vec::<T, A>::push':
                a = ctx.args(b, bb)
                if len(a) < 2:
                    continue
                val = a[1]
                # value = K * last(same vector)
                if val.tag == 'binop' and val[1] == 'Mul':
                    for k, other in ((val[2], val[3]), (val[3], val[2])):
                        if other.tag == 'elemat' and other[2].tag == 'const' and other[2][1] == 'last':
                            found += 1
                            c = canon(k)
                            rep.check(c == 'from(2)', rule, rule + '/radix/%s' % b.path.split('::')[-1], 'the range polynomial uses radix 2 (d[i] = 2 * d[i-1])',
                                      'd[i] = %s * d[i-1]: the range polynomial uses a radix other than 2' % c, ctx.where(b, bb))
    if not found:
        rep.idiom_absent(rule, rule + '/radix', 'no `d.push(K * d.last())` idiom in the verifier (radix not decided)')


def check_squaring_chains(ctx, rule, v):
    """an exponent that is a power of two may be reached by repeated squaring instead of a generic exponentiation: a loop that carries one
    Scalar X with the step X <- X*X computes init^(2^trips).  The forms that mean b^(2^k) are `X = b; k times` -- and `X = b*b; k-1 times`
    only where k >= 1 is established, because a range `1..k` runs zero times for k = 0 *and* for k = 1: the chain that starts one squaring
    ahead is wrong exactly for k = 0 (a single-element vector: bit length 1, one commitment).  Reported: a squaring chain whose range
    starts above 0 with no dominating guard that the end is at least the start."""
    rep = ctx.rep
    from .panics import path_atoms
    n = 0
    for h, lp in sorted(ctx.loops(v).items()):
        it = lp.iter_term
        while it is not None and it.tag in ('mut', 'enumerate'):
            it = it[1]
        rng = getattr(lp, 'index_range', None) or it
        if rng is None or rng.tag != 'range':
            continue
        carried = carried_scalars(ctx, v, lp)
        if len(carried) != 1:
            continue
        polys, info = step_polys(ctx, v, lp, carried)
        if polys is None:
            continue
        X = carried[0]
        nm = 'X%d' % X
        if polys.get(X) != {(nm, nm): 1}:
            continue
        n += 1
        lo, hi = rng[1], rng[2]
        key = '%s/squaring-chain/%s' % (rule, v.local_name(X) or X)
        lo_c = lo[1] if lo.tag == 'const' and isinstance(lo[1], int) else None
        if lo_c == 0:
            rep.ok(rule, key, 'squaring chain `%s` runs once per unit of %s from its initial value' % (v.local_name(X), short(hi, 60)), ctx.where(v, h))
            continue
        atoms = path_atoms(ctx, v, h)
        hc = canon(hi)
        guarded = lo_c is not None and any(a[0] == 'cmp' and a[1] == 'Le' and a[3] == hc and a[2].isdigit() and int(a[2]) >= lo_c for a in atoms)
        rep.check(guarded, rule, key, 'squaring chain `%s` over %s..%s with %s >= %s established' % (v.local_name(X), canon(lo), hc, hc, canon(lo)),
                  'squaring chain `%s` runs over the range %s..%s, which is empty both when %s equals %s and when it is smaller: started one squaring ahead, it yields '
                  'init^(2^(k-%s)) only for k >= %s and the un-squared start value is never produced (k = 0: a one-element vector)' % (
                      v.local_name(X), canon(lo), hc, hc, canon(lo), canon(lo), canon(lo)), ctx.where(v, h))
    return n
