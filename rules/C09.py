"""C09 Mask recovery (structural agreement between prover and recoverer).

R-C09-1  sibling nonce tables: the multiset of (label, j-shape, k-shape) of nonce derivations in the prover equals that of the
         recoverer; the recoverer's j is the enumerate index of the round challenges, the prover's the round counter (0, +1 per round);
         all five recoverer calls of one iteration use the same k, the enumerate index of d1
R-C09-2  position: the prover adds blinding factor k to alpha component k through an order-preserving zip; the recoverer pushes component k
         at position k and moves the vector into ExtendedMask::assign
R-C09-3  who gets a mask: Some(..) is pushed only when action != VerifyOnly and the statement carries a seed; every other path pushes None
R-C09-4  = R-C17-3: the statement stores the caller's seed and commitments, the opening its value and blinding factors, the mask its
         blinding vector, all unadjusted (recovery returns what was put in only if nothing in between rewrites it)
"""
from bpsa.facts import callee_decl, callee_name
from bpsa.normal import canon
from bpsa.terms import walk, short, TERM_IDX, T
from . import roles as R, msm, weights
from .C03 import result_local
from .common import variants_under

LEVEL_TEXT = ('Static analysis (sibling-table agreement of nonce-derivation call sites, order-preservation of the iterators that carry '
              'per-component data, control dependence of the result pushes). Decides that prover and recoverer derive the same nonces with the '
              'same labels and index conventions and that component k of the blinding vector stays at position k. Does not decide that the recovered '
              'scalar equals the mask (an algebraic identity across a data-dependent number of rounds).'
              ' Also decides that statement, opening and mask constructors store seed, value and blinding factors unadjusted.')
ASSUMPTIONS = ['enumerate() counts from 0 in iteration order; zip pairs positionally']
RULE_TEXT = 'one obligation per table row and structural fact; non-trivial = decided from call-site argument terms'


def shape(t):
    """None | 'none' | 'some'"""
    c = canon(t)
    if c == 'Option::None{}':
        return 'none'
    if c.startswith('Option::Some{'):
        return 'some'
    return c


def _run(ctx):
    rep = ctx.rep
    p = ctx.fn('RangeProof::<P>::prove_with_rng', 'R-C09-1')
    g = weights.gate(ctx, 'R-C09-1')
    if p is None or g is None:
        return
    v = g[0]
    roles, samplers = R.discover(ctx, p, 'R-C09-1')
    ptab = []
    for r in roles:
        for a in r.alts:
            if a['kind'] == 'nonce':
                ptab.append((a['label'], shape(a['j']), shape(a['k'])))
    # recoverer: nonce calls in the verifier core and in the helpers it delegates to (arguments in the core's vocabulary)
    nfn = R.nonce_fns(ctx)
    frames = ctx.frames(v, stop=nfn)
    rsites = [(bb, a) for (fr, bb, t, a) in ctx.flat_calls(v, lambda n, t: n in nfn, stop=nfn)]
    rtab = []
    for bb, a in rsites:
        lab = a[1][1] if a[1].tag == 'const' else None
        rtab.append((lab, shape(a[2]), shape(a[3])))
    rep.floor('R-C09-1', 'prover nonce derivations', len(ptab), 5)
    rep.floor('R-C09-1', 'recoverer nonce derivations', len(rtab), 5)
    rep.check(sorted(ptab, key=repr) == sorted(rtab, key=repr), 'R-C09-1', 'R-C09-1/tables-agree', 'prover and recoverer derive the same (label, j, k) shapes: %s' % sorted(ptab, key=repr),
              'nonce tables differ: prover %s, recoverer %s' % (sorted(ptab, key=repr), sorted(rtab, key=repr)), ctx.where(v))
    # same k in all five recoverer calls: the enumerate index of d1 (whole up to the extension degree)
    ks = {canon(a[3]) for _, a in rsites}
    kterm = rsites[0][1][3] if rsites else None
    idx = [x for x in walk(kterm) if x.tag == 'index'] if kterm is not None else []
    d1_idx = bool(idx) and any(y.tag == 'field' and y[1] == 'd1' for y in walk(idx[0]))
    vias = [x[1] for x in walk(kterm) if x.tag == 'via'] if kterm is not None else []
    rep.check(len(ks) == 1 and d1_idx and set(vias) <= {'take'}, 'R-C09-1', 'R-C09-1/recoverer-k', 'all recoverer derivations of one iteration use the same k = enumerate index of d1',
              'recoverer k arguments: %s' % sorted(ks), ctx.where(v))
    # recoverer j for dL / dR: enumerate index over the round challenges, identical for both
    js = {canon(a[2]) for _, a in rsites if shape(a[2]) == 'some'}
    jt = [a[2] for _, a in rsites if shape(a[2]) == 'some']
    jidx = [x for x in walk(jt[0]) if x.tag == 'index'] if jt else []
    over_rounds = bool(jidx) and any(y.tag == 'field' and y[1] in ('li', 'ri') for y in walk(jidx[0])) and not ctx.shape_adapters(jidx[0][1])
    rep.check(len(js) == 1 and over_rounds, 'R-C09-1', 'R-C09-1/recoverer-j', 'dL and dR are derived with j = enumerate index of the round challenges (one per L/R pair, in order)',
              'recoverer j arguments: %s' % sorted(js), ctx.where(v))
    # seeds: statement's seed on both sides
    seeds_ok = all(any(x.tag == 'field' and x[1] == 'seed_nonce' for x in walk(a[0])) for _, a in rsites)
    rep.check(seeds_ok, 'R-C09-1', 'R-C09-1/recoverer-seed', 'the recoverer derives from the statement\'s seed', 'a recoverer derivation does not use the statement\'s seed', ctx.where(v))

    # ---- R-C09-2 position
    # prover: alpha[k] += .. * opening.r[k] ..  through zip(opening.r.iter(), alpha.iter_mut())
    A = [r for r in roles if r.name == 'A']
    ok = False
    det = 'no update of the A role involving the blinding factors'
    rt0 = ctx.eng.return_term(p)
    agg0 = [x for x in walk(rt0) if x.tag == 'adt' and x[1].endswith('RangeProof::RangeProof')]
    d1_0 = dict(agg0[0][2]).get('d1') if agg0 else None
    if A and d1_0 is not None:
        # the A role's vector as it is when d1 is assembled (after the blinding factors were folded in)
        base = R.strip(A[0].vec)
        later = [x for x in walk(d1_0) if x.tag == 'mut' and R.strip(x) is base]
        evs_all = {}
        for m in later:
            for e in m[2]:
                evs_all[e.id] = e
        for e in evs_all.values():
            if e.tag == 'ev' and e[2].endswith('add_assign') and any(x.tag == 'field' and x[1] == 'r' for x in walk(e)):
                bb = e[4][0][1]
                lps = ctx.enclosing_loops(p, bb)
                it = lps[-1].iter_term if lps else None
                s = R.strip(it) if it is not None else None
                def is_r(t):
                    t = R.strip(t)
                    while t.tag in ('adapt', 'via'):
                        t = R.strip(t[2])
                    return t.tag == 'field' and t[1] == 'r'
                if s is None or s.tag != 'zip' or not (is_r(s[1]) or is_r(s[2])):
                    continue            # not the loop that folds the blinding factors in
                good = not ctx.shape_adapters(it)
                val = e[3][0]
                def factors(t):
                    if t.tag == 'binop' and t[1] == 'Mul':
                        return factors(t[2]) + factors(t[3])
                    return [t]
                elem_r = any(f.tag == 'elem' and is_r(f[1]) for f in factors(val))
                ok = good and elem_r
                det = 'loop over %s, factor is that loop\'s blinding factor: %s' % (short(it, 120), elem_r)
    rep.check(ok, 'R-C09-2', 'R-C09-2/prover-position', 'blinding factor k is added to alpha component k (order-preserving zip of opening.r with alpha)',
              'blinding factors are not folded into alpha position by position: %s' % det, ctx.where(p))
    # d1 is built from (eta, d, alpha) zipped positionally
    rt = ctx.eng.return_term(p)
    agg = [x for x in walk(rt) if x.tag == 'adt' and x[1].endswith('RangeProof::RangeProof')]
    d1 = dict(agg[0][2]).get('d1') if agg else None
    rep.check(d1 is not None and not ctx.shape_adapters(d1), 'R-C09-2', 'R-C09-2/prover-d1', 'd1 component k combines eta_k, d_k and alpha_k (positional zip, no reordering)',
              'd1 is built through %s' % (ctx.shape_adapters(d1) if d1 is not None else None), ctx.where(p))
    # recoverer: one push per k into the mask vector, which is moved into assign
    asg = [(bb, a) for (fr, bb, t, a) in ctx.flat_calls(v, lambda n, t: n.endswith('ExtendedMask::assign'), stop=nfn)]
    if len(asg) != 1:
        rep.anchor_missing('R-C09-2', 'R-C09-2/assign', 'expected one ExtendedMask::assign call in the recoverer, found %d' % len(asg))
    else:
        bb, a = asg[0]
        mv = a[1]
        pushes = [e for e in (mv[2] if mv.tag == 'mut' else ()) if e.tag == 'ev']
        one_push = len(pushes) == 1 and pushes[0][2].endswith('::push')
        in_order = False
        if one_push:
            pkey, pbb = pushes[0][4][-1]
            pfr = next((f for f in frames if f.body.key == pkey and f.site == tuple(pushes[0][4][:-1])), None) or next((f for f in frames if f.body.key == pkey), None)
            lps = pfr.loops(pbb) if pfr is not None else []
            lpf, lp, lit = lps[-1] if lps else (None, None, None)
            in_order = lp is not None and lit is not None and set(ctx.shape_adapters(lit)) <= {'take'} and any(y.tag == 'field' and y[1] == 'd1' for y in walk(lit)) and ctx.every_iteration(lpf.body, lp, pbb)
            dep_k = any(x.tag == 'elem' or x.tag == 'via' for x in walk(pushes[0][3][0]))
            in_order = in_order and dep_k
        rep.check(one_push and in_order, 'R-C09-2', 'R-C09-2/recoverer-position', 'the recoverer pushes mask component k once per d1[k], in order, and hands the vector to ExtendedMask::assign',
                  'mask vector is filled by %s' % [short(e, 80) for e in pushes], ctx.where(v, bb))

    # ---- R-C09-3 (shared with R-C03-2): exactly one result per member, in input order
    from . import C03
    vb = ctx.fn('RangeProof::<P>::verify_batch', 'R-C09-3')
    if vb is not None:
        C03.r2(ctx, vb, v, RULE='R-C09-3')
    # ---- R-C09-3 who gets a mask
    rl = result_local(ctx, v)
    act = next((i for i in range(1, v.argc + 1) if 'VerifyAction' in v.local_ty(i)), None)
    if len(rl) == 1 and act is not None:
        l = next(iter(rl))
        for e in ctx.eng.bx(v).events_on(('L', l)):
            if not e['decl'].endswith('::push'):
                continue
            # a pushed `match .. { Some(seed) => Some(mask), None => None }` value is one push per alternative, under that alternative's conditions
            for val, dbb in ctx.alternatives(v, e['bb'], TERM_IDX, e['args'][0]):
                is_some = val.tag == 'adt' and val[1].endswith('Option::Some')
                pcs = ctx.path_conditions(v, e['bb']) + (ctx.path_conditions(v, dbb) if dbb != e['bb'] else [])
                conds = [(canon(c), arms) for (sw, c, arms, tg) in pcs]
                seed_some = any(c == 'discr(each(p2).seed_nonce)' and arms == ('1',) for c, arms in conds)
                act_dep = [(c, arms) for c, arms in conds if 'p%d' % act in c]
                vset, unknown = variants_under(ctx, v, pcs, act)
                not_verify_only = vset is not None and not unknown and 'VerifyOnly' not in vset
                key = 'R-C09-3/push@%s' % ('some' if is_some else 'none-%d' % dbb)
                if is_some:
                    rep.check(seed_some and not_verify_only, 'R-C09-3', key, 'Some(mask) is pushed only when the statement has a seed and the action is not VerifyOnly',
                              'Some(mask) push conditions: %s' % conds[:4], ctx.where(v, e['bb']))
                    uses_seed = any(x.tag == 'field' and x[1] == 'seed_nonce' for x in walk(val))
                    rep.check(uses_seed, 'R-C09-3', key + '/from-seed', 'the pushed mask is computed from the seed-derived nonces', 'the pushed mask does not depend on the seed', ctx.where(v, e['bb']))
                else:
                    rep.ok('R-C09-3', key, 'None pushed on a path without seed or in VerifyOnly mode (%s)' % [c for c, _ in conds[:2]], ctx.where(v, e['bb']))

def run(ctx):
    _run(ctx)
    from . import C17
    from .common import shared
    shared(ctx, lambda c: C17.stored_fields(c, only={'RangeStatement::<P>::init': ['commitments', 'seed_nonce'], 'ExtendedMask::assign': ['blindings'], 'CommitmentOpening::new': ['v', 'r']}), 'R-C17-3', 'R-C09-4')
    shared(ctx, lambda c: C17.copies_are_complete(c, only=('RangeStatement', 'ExtendedMask', 'CommitmentOpening', 'RangeWitness')), 'R-C17-3', 'R-C09-4')
    # R-C09-5 (= R-C03-6): the mask of member i is computed from member i's own data: nothing but the gate's accumulators, the result
    # vector and the weight RNG is carried from one member to the next, and a side cursor is advanced once per member
    from . import C03
    shared(ctx, C03.per_member_independence, 'R-C03-6', 'R-C09-5')
