"""C07 Minimum-value promises (flow clauses).

R-C07-1  the transcript absorbs every promise (None as 0) in prover and verifier
R-C07-2  verifier: for every promise the value-generator scalar receives -(w_j * promise) where w_j is the very term pushed as that
         commitment's dynamic scalar, in a whole loop over the statement's promises
R-C07-3  prover: value.checked_sub(promise) per pair, and the decomposition consumes the difference (R-C06-1)
R-C07-4  range guard: for every statement of the batch and every Some promise, `bits < 64 && promise >> bits > 0` rejects
R-C07-5  = R-C17-3 for RangeStatement::init: the promise vector (and the commitments) a statement holds are the caller's, unadjusted --
         prover, transcript and verifier all read that field, so a constructor that rewrites it changes what acceptance establishes
"""
import re
from bpsa.facts import callee_decl, callee_name
from bpsa.normal import canon
from bpsa.terms import walk, short, TERM_IDX
from .common import guard_table, unconditional
from . import wire, msm, msm_pairs

LEVEL_TEXT = ('Static analysis (transcript trace, def-use of the verifier\'s accumulators, guard normal forms). Decides that each promise is bound into the '
              'transcript, subtracted by the prover before decomposition, re-added by the verifier on the value generator with exactly the weight of its '
              'own commitment, and range-checked for every statement of a batch. Does not decide the arithmetic conclusion promise <= value < promise + 2^bits.'
              ' Also decides that the statement constructor stores the promise vector unadjusted.')
ASSUMPTIONS = ['Scalar::from(u64) embeds the integer', 'the two absorption sites and the H-scalar site are the only places the promise enters (enumerated from the def-use graph)']
RULE_TEXT = 'one obligation per clause and role; non-trivial = decided from a data term, accumulator event or guard'


def _run(ctx):
    rep = ctx.rep
    # ---- R-C07-1
    for role in ('prover', 'verifier'):
        body = wire.entry(ctx, role, 'R-C07-1')
        if body is None:
            continue
        mine, other, evs = wire.proof_events(ctx, body, 'R-C07-1')
        pe = [e for e in mine if e.label() == b'vi - minimum_value']
        some = [e for e in pe if any(x.tag == 'field' and x[1] == 'minimum_value_promises' for x in walk(e.data())) and not (set(ctx.adapters(e.data())) - {'chunks', 'chunks_mut'})]
        zero = [e for e in pe if e.data().tag == 'const' and e.data()[1] == 0]
        chal = [i for i, e in enumerate(mine) if e.kind == 'challenge']
        before = bool(chal) and all(mine.index(e) < chal[0] for e in pe)
        rep.check(len(pe) == 2 and len(some) == 1 and len(zero) == 1 and before, 'R-C07-1', 'R-C07-1/%s' % role,
                  '%s absorbs every promise (Some(v) -> v, None -> 0) before the first challenge' % role,
                  '%s: promise absorption events %s (Some: %d, None->0: %d, before first challenge: %s)' % (role, [short(e.data(), 60) for e in pe], len(some), len(zero), before),
                  ctx.where(pe[0].body, pe[0].bb) if pe else ctx.where(body))

    # ---- R-C07-2
    v = msm.verifier_core(ctx, 'R-C07-2')
    if v is not None:
        check_h_scalar(ctx, v)

    # ---- R-C07-3 (shared with C06)
    p = ctx.fn('RangeProof::<P>::prove_with_rng', 'R-C07-3')
    if p is not None:
        rows = guard_table(ctx, p)
        sub = [r for r in rows for a in r['atoms'] if a[0] == 'succ' and a[1].startswith('checked_sub(each(p3.openings).v,each(p2.minimum_value_promises))') and r['eff'] != 'bypass'
               and unconditional(r, (('succ', 'each(p2.minimum_value_promises)'),))
               and any(x[0] == 'forall' and 'minimum_value_promises' in x[1] and 'openings' in x[1] and 'skip(' not in x[1] and 'take(' not in x[1] for x in r['ctx'])]
        rep.check(bool(sub), 'R-C07-3', 'R-C07-3/prover/checked-sub', 'the prover refuses value < promise for every (promise, value) pair (checked_sub)',
                  'no guard over every (promise, value) pair performs value.checked_sub(promise)', ctx.where(p, sub[0]['guard'].bb) if sub else ctx.where(p))
        sites = msm.msm_sites(ctx, p)
        if sites:
            static = ctx.args(p, sites[0][0])[1]
            shr = [x for x in walk(static) if x.tag == 'binop' and x[1] == 'Shr']
            ok = bool(shr) and all(any(y.tag == 'call' and y[1].endswith('checked_sub') for y in walk(x[2])) for x in shr)
            rep.check(ok, 'R-C07-3', 'R-C07-3/prover/decompose-difference', 'the bits committed in A are those of value - promise',
                      'the bit decomposition does not consume value - promise', ctx.where(p, sites[0][0]))

    # ---- R-C07-4
    cons = msm.consistency_fn(ctx, 'R-C07-4')
    if cons is not None:
        rows = guard_table(ctx, cons, deep=True)
        hits = []
        for r in rows:
            for a in r['atoms']:
                if a[0] == 'cmp' and 'minimum_value_promises' in a[2] + a[3]:
                    hits.append((r, a))
        if not hits:
            rep.violation('R-C07-4', 'R-C07-4/range-guard', 'no guard of the consistency function depends on the promises: a promise that does not fit the bit length is not refused', ctx.where(cons))
        for r, a in hits:
            fa = [x[1] for x in r['ctx'] if x[0] == 'forall']
            every_stmt = any(('enumerate(p1)' == f or f == 'p1') for f in fa)
            # .. the promises of the statement being walked (`each(statements)` or `statements[i]` with the loop index), not those of a fixed member
            every_promise = any('minimum_value_promises' in f and not any(b in f for b in ('skip(', 'take(', 'rev(')) and
                                ('each(p1' in f or 'p1[idx(' in f) and "p1['first']" not in f and 'p1[0]' not in f for f in fa)
            # the only condition on the path to the test is the `bits < 64` half of the guard itself
            only_bits = unconditional(r, lambda x: (x[0] == 'cmp' and x[1] == 'Le' and x[3].isdigit() and _is_bits(x[2])) or
                                      (x[0] == 'succ' and 'minimum_value_promises' in x[1]))        # the test applies to Some(promise) only
            rep.check(every_stmt and every_promise and only_bits and r['eff'] != 'bypass', 'R-C07-4', 'R-C07-4/range-guard/quantifier',
                      'the promise range guard covers every statement of the batch and every Some promise', 'the promise range guard ranges over %s' % fa, ctx.where(cons, r['guard'].bb))
            bits = "p1['first'].generators.bp_gens.gens_capacity"
            idiom = a[1] == 'Le' and a[3] == '0' and ' Shr ' in a[2]
            if not idiom and a[1] == 'Le' and a[3].lstrip('-').isdigit() and ' Shr ' in a[2] and a[2].startswith('('):
                rep.violation('R-C07-4', 'R-C07-4/range-guard/constants', 'promise guard accepts (promise >> bits) <= %s: promises up to %d * 2^bits - 1 pass' % (a[3], int(a[3]) + 1),
                              ctx.where(cons, r['guard'].bb))
            elif not idiom and a[1] == 'Le' and a[2].lstrip('-').isdigit() and ' Shr ' in a[3] and a[3].startswith('('):
                rep.violation('R-C07-4', 'R-C07-4/range-guard/constants', 'promise guard accepts %s <= (promise >> bits): it does not bound the promise from above' % a[2],
                              ctx.where(cons, r['guard'].bb))
            elif not idiom:
                from .common import bound_verdict
                from bpsa.terms import T as _T
                c0 = r['guard'].cond
                while c0.tag == 'unop' and c0[1] == 'Not':
                    c0 = c0[2]
                verdict, why = None, 'not a comparison'
                if c0.tag == 'binop' and a[0] == 'cmp' and a[1] in ('Le', 'Lt') and r.get('spliced'):
                    x, y = (c0[2], c0[3]) if canon(c0[2]) == a[2] else (c0[3], c0[2])
                    verdict, why = bound_verdict(ctx.eng, _T('binop', a[1], x, y), True,
                                                 lambda t: 'minimum_value_promises' in canon(t) and 'Shl' not in canon(t) and 'shl' not in canon(t),
                                                 lambda t: canon(t).endswith('generators.bp_gens.gens_capacity'))
                if verdict is None:
                    rep.idiom_absent('R-C07-4', 'R-C07-4/range-guard/constants', 'promise guard is neither `bits < K && (p >> s) > 0` nor a comparison with 2^bits + k (%s): %s (constants not decided)' % (why, a,))
                else:
                    rep.check(verdict, 'R-C07-4', 'R-C07-4/range-guard/constants', 'promise guard compares the promise with a bound computed from the bit length: ' + why,
                              'promise guard: ' + why, ctx.where(cons, r['guard'].bb))
            else:
                s = a[2][a[2].rindex(' Shr ') + 5:-1]
                ks = [x for x in r['ctx'] if x[0] == 'cmp' and x[1] == 'Le' and x[3].isdigit()]
                good = len(ks) == 1 and ks[0][3] == '63' and ks[0][2] == s and _is_bits(s)
                rep.check(good, 'R-C07-4', 'R-C07-4/range-guard/constants', 'promise guard is `bits < 64 && (promise >> bits) > 0`',
                          'promise guard shifts by `%s` under %s; expected a shift by the bit length guarded by `bits < 64`' % (s, ks), ctx.where(cons, r['guard'].bb))


_BITS = re.compile(r"^(each\(p1\)|p1\[[^\]]*\])(<skip>)?\.generators\.bp_gens\.gens_capacity(<skip>)?$")


def _is_bits(s):
    """the bit length of a statement of the batch (all equal, R-C03): the field itself, not a quantity computed from it such as
    commitments * bit length"""
    return bool(_BITS.match(s))


def check_h_scalar(ctx, v):
    """the accumulator pushed opposite the value generator receives, per promise, -(w * promise) with w the term pushed as that
    commitment's dynamic scalar"""
    rep = ctx.rep
    ix = ctx.eng.bx(v)
    sites = msm.msm_sites(ctx, v)
    node = v.block[sites[0][0]]['term']
    sl = msm_pairs.root_local(ctx, v, sites[0][0], node['args'][2])
    pl = msm_pairs.root_local(ctx, v, sites[0][0], node['args'][3])
    if sl is None or pl is None:
        rep.anchor_missing('R-C07-2', 'R-C07-2/locals', 'dynamic vectors of the verifier MSM not found')
        return
    sev, pev = msm_pairs.fills(ctx, v, sl), msm_pairs.fills(ctx, v, pl)
    # the point push whose value is the value generator (h_base)
    hidx = None
    for i, e in enumerate(pev):
        t = ctx.eng.operand(v, e['bb'], TERM_IDX, e['args'][0])
        if ctx.mentions_field(t, 'h_base') and not ctx.mentions_field(t, 'g_base_vec'):
            hidx = i
    if hidx is None or hidx >= len(sev):
        rep.anchor_missing('R-C07-2', 'R-C07-2/h-scalar', 'no dynamic point equal to the value generator is pushed')
        return
    hs = ctx.eng.operand(v, sev[hidx]['bb'], TERM_IDX, sev[hidx]['args'][0])
    if hs.tag != 'mut':
        rep.violation('R-C07-2', 'R-C07-2/h-scalar', 'the scalar paired with the value generator is not an accumulator: %s' % short(hs, 120), ctx.where(v, sev[hidx]['bb']))
        return
    prom = [e for e in hs[2] if any(x.tag == 'field' and x[1] == 'minimum_value_promises' for x in walk(e))]
    if not prom:
        rep.violation('R-C07-2', 'R-C07-2/h-scalar/promise-term', 'no update of the value-generator scalar depends on the promises: the verifier never re-adds the promise', ctx.where(v))
        return
    for n, e in enumerate(prom):
        op = e[2].split('::')[-1]
        val = e[3][0]
        key = 'R-C07-2/h-scalar/promise-term/%d' % n
        where = '%s:%s' % (v.file(), '?')
        # product of (the per-commitment weight term) and Scalar::from(promise element)
        good_shape = val.tag == 'binop' and val[1] == 'Mul'
        w = prom_t = None
        if good_shape:
            for a, b in ((val[2], val[3]), (val[3], val[2])):
                if any(x.tag == 'field' and x[1] == 'minimum_value_promises' for x in walk(b)) and not any(x.tag == 'field' and x[1] == 'minimum_value_promises' for x in walk(a)):
                    w, prom_t = a, b
        # the same term is pushed as a dynamic scalar inside the loop over the promises
        pushed = []
        for se in sev:
            if se['decl'].endswith('::push'):
                pushed.append(ctx.eng.operand(v, se['bb'], TERM_IDX, se['args'][0]))
        same = w is not None and any(x is w for x in pushed)
        whole = prom_t is not None and not ctx.adapters(prom_t) and any(x.tag == 'elem' for x in walk(prom_t))
        rep.check(op == 'sub_assign' and good_shape and same and whole, 'R-C07-2', key,
                  'value-generator scalar -= w_j * Scalar::from(promise_j) with w_j the dynamic scalar of commitment j (whole promise vector)',
                  'promise correction is `%s %s`: same weight term as the commitment\'s dynamic scalar: %s, whole promise vector: %s' % (op, short(val, 160), same, whole), ctx.where(v))
    # and the loop that pushes w_j runs over the statement's promises, the points extended are its commitments (paired-push rule R-C16-5 pair 0)

def run(ctx):
    _run(ctx)
    from . import C17
    from .common import shared
    shared(ctx, lambda c: C17.stored_fields(c, only={'RangeStatement::<P>::init': ['commitments', 'minimum_value_promises']}), 'R-C17-3', 'R-C07-5')
    # .. and a copy of a statement carries the source's promises with the source's commitments (Clone::clone / clone_from)
    shared(ctx, lambda c: C17.copies_are_complete(c, only=('RangeStatement',)), 'R-C17-3', 'R-C07-5')
