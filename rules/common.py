"""Helpers shared by rule modules: guard tables in normal form, table comparison."""
from bpsa.normal import canon, accept_atoms, bool_atom, atom_vars, variant_atom, cmp_atom
from bpsa.terms import short, walk, TERM_IDX, T
import copy
import re


def path_ctx(ctx, body, g_bb, guard_bbs, xf=None):
    """context of a block: non-guard dominating branch conditions and loop quantifiers, as a sorted tuple of atoms"""
    out = []
    xf = xf or (lambda t: t)
    lps = ctx.loops(body)
    drivers = {getattr(lp, 'driver_switch', None): lp for lp in lps.values() if lp.driver_bb is not None}
    for (sw, cond, arms, targets) in ctx.path_conditions(body, g_bb):
        if sw in guard_bbs:
            continue
        if sw in drivers:
            if all(t in drivers[sw].blocks for t in targets):
                out.append(('forall', canon(xf(drivers[sw].iter_term))))
            continue
        cond = xf(cond)
        if cond.tag == 'discr':
            out.append(variant_atom(cond[1], ctx.discr_type(body, body.block[sw]['term']['discr']), arms))
        elif set(arms) <= {'0', 'otherwise'} and len(arms) == 1:
            out.extend(bool_atom(cond, positive=(arms[0] == 'otherwise')))
        else:
            out.append(('in', canon(cond), tuple(sorted(arms))))
    return tuple(sorted(out, key=repr))


def effectiveness(ctx, body, g):
    """how a guard relates to the success exits: 'dom' (dominates every success site), 'forall' (inside a whole
    loop whose header dominates them), or 'bypass'"""
    cfg = ctx.cfgof(body)
    oks = [s for s in ctx.ok_sites(body) if not ctx.rejecting(body, s)]
    res = 'dom'
    # anchor: the outermost enclosing non-guard, non-driver branch (a guard under `if c {..}` is judged at the `if`)
    gbbs = {x.bb for x in ctx.guards(body)}
    drivers = {getattr(lp, 'driver_switch', None) for lp in ctx.loops(body).values() if lp.driver_bb is not None}
    anchor = g.bb
    for (sw, cond, arms, targets) in ctx.path_conditions(body, g.bb):
        if sw in gbbs or sw in drivers:
            continue
        anchor = sw
    for s in oks:
        if cfg.dominates(anchor, s):
            continue
        okl = False
        for lp in ctx.enclosing_loops(body, anchor):
            if cfg.dominates(lp.header, s) and s not in lp.blocks:
                okl = True
        if okl:
            res = 'forall' if res != 'bypass' else res
        else:
            res = 'bypass'
    return res


def _with_cond(g, cond, bb=None):
    g2 = copy.copy(g)
    g2.cond = cond
    if bb is not None:
        g2.inner = g
        g2.bb = bb
    return g2


ITER_CONSUMERS = {'try_for_each': 'try', 'all': 'all', 'any': 'any'}


def negate_atom(a):
    """the atom that holds exactly when `a` does not, for comparisons and variant tests; None when there is no single such atom"""
    if a[0] == 'cmp':
        op, x, y = a[1], a[2], a[3]
        if op == 'Eq':
            if x == '0' and y.startswith('len('):
                return ('cmp', 'Le', '1', y)
            return ('cmp', 'Ne', x, y)
        if op == 'Ne':
            return ('cmp', 'Eq', x, y)
        if op == 'Le':
            if x == '1' and y.startswith('len('):
                return ('cmp', 'Eq', '0', y)
            if x.lstrip('-').isdigit():
                return ('cmp', 'Le', y, repr(int(x) - 1))          # not (c <= y)  ==  y <= c-1
            if y.lstrip('-').isdigit():
                return ('cmp', 'Le', repr(int(y) + 1), x)          # not (x <= c)  ==  c+1 <= x
            return ('cmp', 'Lt', y, x)
        if op == 'Lt':
            return ('cmp', 'Le', y, x)
    if a[0] == 'succ':
        return ('fail', a[1])
    if a[0] == 'fail':
        return ('succ', a[1])
    if a[0] == 'pred' and len(a) == 4:
        return ('pred', a[1], a[2], not a[3])
    return None


def _combine_eff(a, b):
    if 'bypass' in (a, b):
        return 'bypass'
    if 'forall' in (a, b):
        return 'forall'
    return 'dom'


def _closure_of(t):
    if t.tag == 'mut':
        t = t[1]
    return t if t.tag == 'closure' else None


_INT_TRYFROM = re.compile(r'<impl (?:std::convert::)?TryFrom<(?:u8|u16|u32|u64|u128|usize)> for (?:u8|u16|u32|u64|u128|usize)>::try_from$')
_WIDTH = {'u8': 8, 'u16': 16, 'u32': 32, 'u64': 64, 'u128': 128, 'usize': 64}


def _checked_shift_test(ctx, c, positive):
    """`x.checked_shr(s).is_some_and(|e| P(e))` used as a rejecting test is `s < WIDTH && P(x >> s)` (checked_shr is None exactly for
    s >= WIDTH): the accept condition is not-P(x >> s) under s <= WIDTH - 1, the row the plain spelling gives.  A shift amount that went
    through an integer `try_from` is the number it converts (a failing conversion is a number >= WIDTH).  Returns (atoms, extra context)
    or None."""
    if positive:
        return None
    while c.tag in ('mut', 'via'):
        c = c[1] if c.tag == 'mut' else c[2]
    if c.tag != 'call' or not c[1].endswith('::is_some_and') or len(c[2]) != 2:
        return None
    opt, f = c[2]
    while opt.tag in ('mut', 'via'):
        opt = opt[1] if opt.tag == 'mut' else opt[2]
    if opt.tag != 'call' or opt[1].split('::')[-1] not in ('checked_shr',) or len(opt[2]) != 2:
        return None
    m = re.search(r'<impl (u8|u16|u32|u64|u128|usize)>::checked_shr$', opt[1])
    if not m:
        return None
    width = _WIDTH[m.group(1)]
    x, sh = opt[2]
    while sh.tag in ('mut', 'via'):
        sh = sh[1] if sh.tag == 'mut' else sh[2]
    # (the shift amount of checked_shr is a u32: a `try_from` that produces it converts a number into u32)
    while sh.tag == 'call' and (_INT_TRYFROM.search(sh[1]) or sh[1] == 'std::convert::TryFrom::try_from' or sh[1].split('::')[-1] in ('ok',)) and len(sh[2]) == 1:
        sh = sh[2][0]
        while sh.tag in ('mut', 'via'):
            sh = sh[1] if sh.tag == 'mut' else sh[2]
    fc = f[1] if f.tag == 'mut' else f
    if fc.tag != 'closure':
        return None
    inner = ctx.eng.apply(fc, (T('binop', 'Shr', x, sh),))
    atoms = bool_atom(inner, positive=False)
    if any(a[0] == 'unknown' for a in atoms):
        return None
    return atoms, (cmp_atom('Le', sh, T('const', width - 1)),)


def _rows(ctx, body, xf, octx, oeff, site_bb, depth, rows, parent):
    """guard rows of `body` with every term passed through xf (parameter substitution + helper expansion), prefixed by the
    context / effectiveness of the place the body is called from; recursively spliced with the rows of crate-local helpers,
    of closures consumed by try_for_each / all / any, and of map closures collected into a Result"""
    eng = ctx.eng
    gs = ctx.guards(body)
    gbbs = {g.bb for g in gs}
    for g in gs:
        c0 = g.cond
        pc = tuple(sorted(set(octx) | set(path_ctx(ctx, body, g.bb, gbbs, xf)), key=repr))
        eff = _combine_eff(oeff, effectiveness(ctx, body, g))
        ge = _with_cond(g, xf(c0), site_bb)
        row = {'guard': ge, 'ctx': pc, 'atoms': accept_atoms(ge), 'eff': eff, 'parent': parent, 'spliced': parent is not None}
        ref = _checked_shift_test(ctx, ge.cond, ge.reject_when_false()) if (ge.reject_when_true() or ge.reject_when_false()) else None
        if ref is not None:
            row['atoms'], extra = ref
            row['ctx'] = tuple(sorted(set(pc) | set(extra), key=repr))
        rows.append(row)
        me = len(rows) - 1
        # a boolean flag with several definitions (`let bad = a && b; if bad {..}`, the result of a spliced predicate helper): one row
        # per definition, under the conditions of that definition
        if c0.tag != 'discr' and (g.reject_when_true() or g.reject_when_false()):
            dop = body.block[g.bb]['term']['discr']
            alts = ctx.alternatives(body, g.bb, TERM_IDX, dop) if dop['k'] in ('copy', 'move') and not dop['place']['p'] else []
            if len(alts) > 1:
                want = g.reject_when_false()          # value the flag must have for the guard to accept
                new_rows, okall = [], True
                # `a && b && c` (and `a || b`): the flag is a constant on the paths where an earlier operand already decided it.  A path
                # on which the flag is the rejecting constant, reached under the single further condition E, is the accept-atom not-E;
                # conditions established that way need not be repeated in the context of the later operands
                established = set()
                consts, others, accepting_consts = [], [], []
                for (t_alt, dbb) in alts:
                    ta = xf(t_alt)
                    extra = [x for x in path_ctx(ctx, body, dbb, gbbs, xf) if x not in pc]
                    if ta.tag == 'const' and (isinstance(ta[1], bool) or ta[1] in (0, 1)):
                        if bool(ta[1]) == want:
                            accepting_consts.append((ta, dbb, extra))
                            continue
                        consts.append((ta, dbb, extra))
                    else:
                        others.append((ta, dbb, extra))
                if len(others) == 1 and not accepting_consts and consts:
                    # every other definition is the rejecting constant: acceptance goes through this definition, so the conditions
                    # under which it is reached and its own value are all necessary (`a && b && c`: reached under a, b; value c)
                    ta, dbb, extra = others[0]
                    atoms = bool_atom(ta, positive=want)
                    if not any(a[0] == 'unknown' for a in atoms) and not any(e[0] in ('unknown', 'forall') for e in extra):
                        for e in extra:
                            rows.append({'guard': _with_cond(g, ta, site_bb), 'ctx': pc, 'atoms': [e], 'eff': eff, 'parent': me, 'spliced': True})
                        rows.append({'guard': _with_cond(g, ta, site_bb), 'ctx': pc, 'atoms': atoms, 'eff': eff, 'parent': me, 'spliced': True})
                        consts, others = [], []
                for (ta, dbb, extra) in sorted(consts, key=lambda x: len(x[2])):
                    rem = [e for e in extra if e not in established]
                    neg = negate_atom(rem[0]) if len(rem) == 1 else None
                    if neg is not None:
                        established.add(neg)
                        new_rows.append({'guard': _with_cond(g, ta, site_bb), 'ctx': pc, 'atoms': [neg], 'eff': eff, 'parent': me, 'spliced': True})
                    else:
                        pc3 = tuple(sorted(set(pc) | set(extra), key=repr))
                        new_rows.append({'guard': _with_cond(g, ta, site_bb), 'ctx': pc3, 'atoms': [('const', False)], 'eff': eff, 'parent': me, 'spliced': True})
                for (ta, dbb, extra) in others:
                    atoms = bool_atom(ta, positive=want)
                    if any(a[0] == 'unknown' for a in atoms):
                        okall = False
                        break
                    pc3 = tuple(sorted(set(pc) | {e for e in extra if e not in established}, key=repr))
                    new_rows.append({'guard': _with_cond(g, ta, site_bb), 'ctx': pc3, 'atoms': atoms, 'eff': eff, 'parent': me, 'spliced': True})
                if okall:
                    rows.extend(new_rows)
        if depth <= 0:
            continue
        sb = site_bb if site_bb is not None else g.bb
        x = c0[1] if c0.tag == 'discr' else c0
        neg = False
        while x.tag == 'unop' and x[1] == 'Not':
            x, neg = x[2], not neg
        if x.tag != 'call':
            continue
        name = x[1]
        last = name.split('::')[-1]
        if name in ctx.facts.fn and not ctx.facts.fn[name].impl_trait and c0.tag == 'discr':
            callee = ctx.facts.fn[name]
            env = {('param', callee.key, i + 1): a for i, a in enumerate(x[2])}
            site = x[3]
            xf2 = (lambda env, site: (lambda t: xf(eng.subst(t, env, site))))(env, site)
            _rows(ctx, callee, xf2, pc, eff, sb, depth - 1, rows, me)
        elif last in ITER_CONSUMERS and len(x[2]) == 2 and _closure_of(x[2][1]) is not None:
            it, cl = x[2][0], _closure_of(x[2][1])
            cb = ctx.facts.fn.get(cl[1])
            if cb is None:
                continue
            from bpsa.terms import mk_elem
            el = mk_elem(eng, it)
            env = {('param', cb.key, 2): el}
            for j, cap in enumerate(cl[2]):
                env[('upvar', cb.key, j)] = cap
            xf2 = (lambda env: (lambda t: xf(eng.subst(t, env, ()))))(env)
            pc2 = tuple(sorted(set(pc) | {('forall', canon(xf(it)))}, key=repr))
            kind = ITER_CONSUMERS[last]
            if kind == 'try' and c0.tag == 'discr':
                _rows(ctx, cb, xf2, pc2, _combine_eff(eff, 'forall'), sb, depth - 1, rows, me)
            elif kind in ('all', 'any') and c0.tag != 'discr':
                # accept-condition as a universally quantified statement about one element, when it is one
                accept_true = g.reject_when_false() != neg
                accept_false = g.reject_when_true() != neg
                if not ((kind == 'any' and accept_false) or (kind == 'all' and accept_true)):
                    continue
                want = (kind == 'all')          # the value every element's closure result must have for the guard to accept
                # the closure's result, one alternative per definition of its return place (`a && b` is `if a { b } else { false }`),
                # each under the branch conditions of its definition
                ccfg = ctx.cfgof(cb)
                rets = ccfg.returns
                alts = ctx.alternatives(cb, rets[0], TERM_IDX, {'k': 'copy', 'place': {'l': 0, 'p': [], 'ty': 'bool'}}) if rets else []
                new_rows, okall = [], bool(alts)
                for (t_alt, dbb) in alts:
                    ta = xf2(t_alt)
                    if ta.tag == 'const' and (isinstance(ta[1], bool) or ta[1] in (0, 1)):
                        if bool(ta[1]) == want:
                            continue            # this alternative accepts by itself
                        atoms = [('const', False)]
                    else:
                        atoms = bool_atom(ta, positive=want)
                    if any(a[0] == 'unknown' for a in atoms):
                        okall = False
                        break
                    pc3 = tuple(sorted(set(pc2) | set(path_ctx(ctx, cb, dbb, set(), xf2)), key=repr))
                    ref = _checked_shift_test(ctx, ta, want) if ta.tag != 'const' else None
                    if ref is not None:
                        atoms = ref[0]
                        pc3 = tuple(sorted(set(pc3) | set(ref[1]), key=repr))
                    new_rows.append({'guard': _with_cond(g, ta, sb), 'ctx': pc3, 'atoms': atoms, 'eff': _combine_eff(eff, 'forall'), 'parent': me, 'spliced': True})
                if okall:
                    rows.extend(new_rows)
        elif last == 'collect' and c0.tag == 'discr' and x[2] and x[2][0].tag == 'map' and _closure_of(x[2][0][2]) is not None:
            it, cl = x[2][0][1], _closure_of(x[2][0][2])
            cb = ctx.facts.fn.get(cl[1])
            if cb is None:
                continue
            from bpsa.terms import mk_elem
            env = {('param', cb.key, 2): mk_elem(eng, it)}
            for j, cap in enumerate(cl[2]):
                env[('upvar', cb.key, j)] = cap
            xf2 = (lambda env: (lambda t: xf(eng.subst(t, env, ()))))(env)
            pc2 = tuple(sorted(set(pc) | {('forall', canon(xf(it)))}, key=repr))
            _rows(ctx, cb, xf2, pc2, _combine_eff(eff, 'forall'), sb, depth - 1, rows, me)


def guard_table(ctx, body, deep=False, expand=False):
    """[{guard, ctx, atoms, eff, parent, spliced}] for every guard of the body.
    deep:   the guards of crate-local helpers / closures whose success a guard demands are spliced in (rows with spliced=True,
            terms rewritten into the caller's vocabulary)
    expand: helper calls inside conditions are replaced by what they return (helpers are transparent)"""
    cache = ctx.__dict__.setdefault('_gt', {})
    k = (body.key, deep, expand)
    if k not in cache:
        rows = []
        _rows(ctx, body, (lambda t: ctx.eng.expand(t)) if expand else (lambda t: t), (), 'dom', None, 2 if deep else 0, rows, None)
        cache[k] = rows
    return cache[k]


def unconditional(r_or_ctx, allowed=()):
    """the guard is evaluated for every element of its quantifiers: no branch condition other than the loop quantifiers (and
    the atoms / predicate listed in `allowed`) restricts the paths on which it is reached"""
    c = r_or_ctx['ctx'] if isinstance(r_or_ctx, dict) else r_or_ctx
    ok = allowed if callable(allowed) else (lambda x: x in allowed)
    return all(x[0] == 'forall' or ok(x) for x in c)


def fmt_atom(a):
    return repr(a)


def _match_form(a):
    """atoms that say the same thing in two spellings are matched in one form: `xs.first()` is Some exactly when 1 <= len(xs)
    (`let [first, ..] = xs else`), None exactly when len(xs) == 0"""
    if a[0] in ('succ', 'fail') and isinstance(a[1], str) and a[1].endswith("['first']") and a[1].count('[') == 1:
        x = a[1][:-len("['first']")]
        return ('cmp', 'Le', '1', 'len(%s)' % x) if a[0] == 'succ' else ('cmp', 'Eq', '0', 'len(%s)' % x)
    return a


def _match_ctx(c):
    return tuple(sorted((_match_form(x) for x in c), key=repr))


def compare_table(ctx, rule, fnkey, body, expected, allowed_extra=()):
    """expected: list of (ctx atoms tuple, atom).  Reports one obligation per expected atom and one per extra."""
    rep = ctx.rep
    rows = guard_table(ctx, body, deep=True)
    actual = []
    for r in rows:
        for a in r['atoms']:
            actual.append((r['ctx'], a, r))
    used = set()
    for (ectx, eatom) in expected:
        ectx = tuple(sorted(ectx, key=repr))
        key = '%s/%s/%s' % (rule, fnkey, fmt_atom((ectx, eatom)))
        alts = [(ectx, eatom)]
        if eatom[0] == 'any':
            # equivalent formulations: the first is the reference (used in keys and messages)
            alts = [(tuple(sorted(c2, key=repr)), a2) for (c2, a2) in eatom[1]]
            ectx, eatom = alts[0]
            key = '%s/%s/%s' % (rule, fnkey, fmt_atom((ectx, eatom)))
        nalts = [(_match_ctx(c2), _match_form(a2)) for (c2, a2) in alts]
        hit = [i for i, (c, a, r) in enumerate(actual) if (c, a) in alts or (_match_ctx(c), _match_form(a)) in nalts]
        if hit:
            bad = [i for i in hit if actual[i][2]['eff'] == 'bypass']
            good = [i for i in hit if actual[i][2]['eff'] != 'bypass']
            used.update(hit)
            if good:
                r = actual[good[0]][2]
                rep.ok(rule, key, 'guard %s under %s (%s) at line %d' % (fmt_atom(eatom), list(ectx), r['eff'], r['guard'].line),
                       ctx.where(body, r['guard'].bb))
            else:
                r = actual[bad[0]][2]
                rep.violation(rule, key, 'guard %s exists but a success exit bypasses it' % fmt_atom(eatom), ctx.where(body, r['guard'].bb))
            continue
        ev = atom_vars(eatom)
        related = [(i, c, a, r) for i, (c, a, r) in enumerate(actual) if i not in used and (atom_vars(a) & ev)]
        unknown = [x for x in related if x[2][0] in ('unknown', 'pred') and x[2] != eatom and eatom[0] not in ('pred',)]
        known = [x for x in related if x not in unknown]
        if known:
            i, c, a, r = known[0]
            used.add(i)
            rep.violation(rule, key, 'expected accept-condition %s under %s; the code enforces %s under %s instead' % (
                fmt_atom(eatom), list(ectx), fmt_atom(a), list(c)), ctx.where(body, r['guard'].bb))
        elif unknown:
            i, c, a, r = unknown[0]
            used.add(i)
            rep.idiom_absent(rule, key, 'expected %s; found unrecognised condition %s on the same data (not decided)' % (fmt_atom(eatom), fmt_atom(a)))
        else:
            rep.violation(rule, key, 'expected accept-condition %s under %s is not enforced by any guard of %s' % (
                fmt_atom(eatom), list(ectx), body.path), ctx.where(body))
    used_rows = {id(actual[i][2]) for i in used}
    tabled = set()

    def is_allowed(c, a):
        # exact (context, atom) entries, (None, atom) for any context, or a predicate over (context, atom)
        for x in allowed_extra:
            if callable(x):
                if x(c, a):
                    return True
            elif x == (c, a) or (x[0] is None and x[1] == a):
                return True
        return False
    for (c, a, r) in actual:
        if is_allowed(c, a):
            tabled.add(id(r))
    for r in rows:
        # the guards inside a tabled helper call are covered by the table entry of the call
        q = r
        while q['parent'] is not None:
            q = rows[q['parent']]
            if id(q) in tabled:
                used_rows.add(id(r))
                break
    # a call-site row (`iter.try_for_each(closure)?`, `helper(..)?`) all of whose refining rows are tabled or expected is accounted for
    kids = {}
    for idx_r, r in enumerate(rows):
        if r['parent'] is not None:
            kids.setdefault(r['parent'], []).append(r)
    for pi, ks in kids.items():
        if all(id(k) in tabled or id(k) in used_rows for k in ks):
            used_rows.add(id(rows[pi]))
    changed = True
    while changed:
        # a spliced row that satisfied an expectation accounts for the call-site row it refines, and vice versa
        changed = False
        for r in rows:
            if r['parent'] is not None:
                pr = rows[r['parent']]
                if (id(r) in used_rows) != (id(pr) in used_rows):
                    used_rows |= {id(r), id(pr)}
                    changed = True
    for i, (c, a, r) in enumerate(actual):
        if i in used or id(r) in used_rows:
            continue
        key = '%s/%s/extra/%s' % (rule, fnkey, fmt_atom((c, a)))
        if is_allowed(c, a):
            rep.ok(rule, key, 'tabled extra guard %s (cannot reject a documented-valid input)' % fmt_atom(a), ctx.where(body, r['guard'].bb), nontrivial=False)
        elif a[0] == 'unknown':
            rep.idiom_absent(rule, key, 'unrecognised extra condition %s (not decided)' % fmt_atom(a))
        else:
            rep.violation(rule, key, 'extra guard %s under %s narrows the accepted domain of %s' % (fmt_atom(a), list(c), body.path),
                          ctx.where(body, r['guard'].bb))
    return rows


# ---- bounds of the form 2^bits (+k) -------------------------------------------------------------------------------------

U64_MAX = 18446744073709551615


def pow2_form(eng, t, is_bits, depth=0):
    """k such that term t denotes 2^bits + k for every bit length 1..=64 (with 2^64 - 1 = u64::MAX), or None.
    `is_bits(term)` tells whether a term is the bit length.  Recognises 1 << bits, checked_shl, pow(2, bits), +/- constants,
    saturating / checked / wrapping variants, and `opt.map_or(u64::MAX, |x| x - 1)` over a checked shift (which is 2^bits - 1
    at 64 bits as well)."""
    if depth > 12:
        return None
    while t.tag in ('mut', 'via'):
        t = t[1] if t.tag == 'mut' else t[2]
    if t.tag == 'cast':
        return pow2_form(eng, t[2], is_bits, depth + 1)

    def bits_arg(x):
        while x.tag in ('cast', 'mut'):
            x = x[2] if x.tag == 'cast' else x[1]
        if x.tag == 'call' and x[1].split('::')[-1] in ('try_from', 'try_into', 'from', 'into') and len(x[2]) == 1:
            return bits_arg(x[2][0])
        return is_bits(x)

    def const(x):
        while x.tag in ('cast', 'mut'):
            x = x[2] if x.tag == 'cast' else x[1]
        return x[1] if x.tag == 'const' and isinstance(x[1], int) and not isinstance(x[1], bool) else None
    if t.tag == 'binop' and t[1] == 'Shl' and const(t[2]) == 1 and bits_arg(t[3]):
        return 0
    if t.tag == 'binop' and t[1] in ('Sub', 'Add') and const(t[3]) is not None:
        k = pow2_form(eng, t[2], is_bits, depth + 1)
        return None if k is None else (k - const(t[3]) if t[1] == 'Sub' else k + const(t[3]))
    if t.tag == 'tuple' and len(t.args) == 2 and t.args[1].tag == 'opaque':
        return pow2_form(eng, t.args[0], is_bits, depth + 1)
    if t.tag == 'field' and t[1] == '0':
        return pow2_form(eng, t[2], is_bits, depth + 1)
    if t.tag == 'call':
        nm = t[1].split('::')[-1]
        a = t[2]
        if nm in ('checked_shl', 'wrapping_shl', 'overflowing_shl', 'unbounded_shl') and len(a) == 2 and const(a[0]) == 1 and bits_arg(a[1]):
            return 0
        if nm == 'pow' and len(a) == 2 and const(a[0]) == 2 and bits_arg(a[1]):
            return 0
        if nm in ('saturating_sub', 'checked_sub', 'wrapping_sub') and len(a) == 2 and const(a[1]) is not None:
            k = pow2_form(eng, a[0], is_bits, depth + 1)
            return None if k is None else k - const(a[1])
        if nm in ('saturating_add', 'checked_add', 'wrapping_add') and len(a) == 2 and const(a[1]) is not None:
            k = pow2_form(eng, a[0], is_bits, depth + 1)
            return None if k is None else k + const(a[1])
        if nm == 'map_or' and len(a) == 3:
            # None (the shift overflowed: bits = 64) -> default; Some(p) -> f(p)
            inner = pow2_form(eng, a[0], is_bits, depth + 1)
            cl = a[2]
            while cl.tag == 'mut':
                cl = cl[1]
            if inner == 0 and cl.tag == 'closure':
                P = T('opaque', 'pow2')
                k = pow2_form(eng, eng.apply(cl, (P,)), lambda x: False, depth + 1) if False else _shift_of(eng, eng.apply(cl, (P,)), P)
                d = const(a[1])
                if k is not None and d is not None and d == U64_MAX + 1 + k:
                    return k
        if nm in ('unwrap_or',) and len(a) == 2:
            k = pow2_form(eng, a[0], is_bits, depth + 1)
            d = const(a[1])
            if k is not None and d is not None and d == U64_MAX + 1 + k:
                return k
        if nm in ('ok', 'and_then') and a:
            if nm == 'and_then' and len(a) == 2:
                cl = a[1]
                while cl.tag == 'mut':
                    cl = cl[1]
                if cl.tag == 'closure' and bits_arg(a[0]):
                    # bits.and_then(|b| 1.checked_shl(b)): apply to the bit length itself
                    return pow2_form(eng, eng.apply(cl, (a[0],)), is_bits, depth + 1)
            return pow2_form(eng, a[0], is_bits, depth + 1)
    if t.tag == 'phi':
        ks = {pow2_form(eng, x, is_bits, depth + 1) for x in t.args}
        return ks.pop() if len(ks) == 1 else None
    return None


def _shift_of(eng, t, P):
    """k such that t == P + k, for t built from the placeholder P by adding / subtracting constants"""
    while t.tag in ('mut', 'cast'):
        t = t[1] if t.tag == 'mut' else t[2]
    if t is P:
        return 0
    if t.tag == 'binop' and t[1] in ('Sub', 'Add') and t[3].tag == 'const' and isinstance(t[3][1], int):
        k = _shift_of(eng, t[2], P)
        return None if k is None else (k - t[3][1] if t[1] == 'Sub' else k + t[3][1])
    if t.tag == 'tuple' and len(t.args) == 2 and t.args[1].tag == 'opaque':
        return _shift_of(eng, t.args[0], P)
    if t.tag == 'field' and t[1] == '0':
        return _shift_of(eng, t[2], P)
    if t.tag == 'call' and t[1].split('::')[-1] in ('saturating_sub', 'checked_sub', 'wrapping_sub') and len(t[2]) == 2 and t[2][1].tag == 'const':
        k = _shift_of(eng, t[2][0], P)
        return None if k is None else k - t[2][1][1]
    return None


def bound_verdict(eng, cond, accept_when, is_value, is_bits):
    """For a comparison `cond` between a value and a bound of the form 2^bits + k: does accepting exactly when cond == accept_when
    mean value <= 2^bits - 1?  Returns (True/False, text) or (None, why) when the comparison is not of that form."""
    c = cond
    neg = False
    while c.tag == 'unop' and c[1] == 'Not':
        c, neg = c[2], not neg
    if c.tag != 'binop' or c[1] not in ('Lt', 'Le', 'Gt', 'Ge'):
        return None, 'not an ordering comparison'
    op, a, b = c[1], c[2], c[3]
    if is_value(b) and not is_value(a):
        a, b = b, a
        op = {'Lt': 'Gt', 'Gt': 'Lt', 'Le': 'Ge', 'Ge': 'Le'}[op]
    if not is_value(a):
        return None, 'the value is not one side of the comparison'
    k = pow2_form(eng, b, is_bits)
    if k is None:
        return None, 'the bound is not recognised as 2^bits + k'
    truth = accept_when != neg          # accept when (value op bound) == truth
    if not truth:
        op = {'Lt': 'Ge', 'Ge': 'Lt', 'Gt': 'Le', 'Le': 'Gt'}[op]
    # accept iff value op (2^bits + k)
    if op in ('Gt', 'Ge'):
        return False, 'values are accepted when they are ABOVE the bound 2^bits%+d' % k
    largest = (k - 1) if op == 'Lt' else k          # largest accepted value is 2^bits + largest
    return largest == -1, 'the largest accepted value is 2^bits%+d (documented: 2^bits - 1)' % largest



def enum_variants(ctx, body, local):
    """[(name, discriminant string)] of the crate-local enum that is the type of a parameter"""
    ty = body.local_ty(local)
    for path, a in ctx.facts.adts.items():
        if a['kind'] == 'Enum' and re.search(r'(^|[^A-Za-z0-9_])%s($|[^A-Za-z0-9_])' % re.escape(path.split('::')[-1]), ty):
            return [(x['name'], str(x['discr'])) for x in a['variants']]
    return None


def variants_under(ctx, body, pcs, local):
    """The set of variants of the enum parameter `local` under which all of the given path conditions hold, decided over the finite
    domain of the enum: (set of variant names, [conditions on the parameter that were not understood]).  Understood forms: a switch on
    the discriminant (`match`, `matches!`, `if let`), and `==` / `!=` against a constant variant."""
    from bpsa.terms import walk
    vs = enum_variants(ctx, body, local)
    if vs is None:
        return None, ['not an enum']
    allowed = {n for n, _ in vs}
    unknown = []
    for (sw, cond, arms, tg) in pcs:
        if not any(x.tag == 'param' and x[1] == body.key and x[2] == local for x in walk(cond)):
            continue
        c = canon(cond)
        if cond.tag == 'discr' and cond[1].tag == 'param' and cond[1][2] == local:
            listed = {str(v) for v, _ in body.block[sw]['term']['arms']} if isinstance(sw, int) else set()
            here = {n for n, d in vs if d in arms or ('otherwise' in arms and d not in listed)}
            allowed &= here
            continue
        if cond.tag == 'binop' and cond[1] in ('Eq', 'Ne'):
            named = [n for n, _ in vs if re.search(r'::%s\{\}' % n, c)]
            sides = [x for x in (cond[2], cond[3])]
            is_param = [x.tag == 'param' and x[1] == body.key and x[2] == local for x in sides]
            if len(named) == 1 and any(is_param):
                truth = None
                if arms == ('otherwise',):
                    truth = True
                elif arms == ('0',):
                    truth = False
                if truth is not None:
                    eq = (cond[1] == 'Eq') == truth
                    allowed &= {named[0]} if eq else (allowed - {named[0]})
                    continue
        unknown.append(c)
    return allowed, unknown


def shared(ctx, fn, frm, to, *a, **k):
    """Run another property's rule function as a clause of this one: the obligations it records are relabelled `to` (the clause is a
    necessary condition of both properties; each check reports it under its own rule id)."""
    n0 = len(ctx.rep.obligations)
    only = k.pop('only', None)
    r = fn(ctx, *a, **k)
    if only is not None:
        # one clause of the other rule is the necessary condition shared here; the rest stays with its owner
        ctx.rep.obligations[n0:] = [o for o in ctx.rep.obligations[n0:] if any(x in o['key'] for x in only)]
    for o in ctx.rep.obligations[n0:]:
        if o['rule'].startswith(frm):
            o['rule'] = to
            o['key'] = to + '/' + (o['key'][2:] if o['key'].startswith('R-') else o['key'])
    return r
