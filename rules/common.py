"""Helpers shared by rule modules: guard tables in normal form, table comparison."""
from bpsa.normal import canon, accept_atoms, bool_atom, atom_vars, variant_atom
from bpsa.terms import short, walk


def path_ctx(ctx, body, g_bb, guard_bbs):
    """context of a block: non-guard dominating branch conditions and loop quantifiers, as a sorted tuple of atoms"""
    out = []
    lps = ctx.loops(body)
    drivers = {getattr(lp, 'driver_switch', None): lp for lp in lps.values() if lp.driver_bb is not None}
    for (sw, cond, arms, targets) in ctx.path_conditions(body, g_bb):
        if sw in guard_bbs:
            continue
        if sw in drivers:
            if all(t in drivers[sw].blocks for t in targets):
                out.append(('forall', canon(drivers[sw].iter_term)))
            continue
        if cond.tag == 'discr':
            out.append(variant_atom(cond[1], ctx.discr_type(body, body.block[sw]['term']['discr']), arms))
        elif set(arms) <= {'0', 'otherwise'} and len(arms) == 1:
            out.extend(bool_atom(cond, positive=(arms[0] == 'otherwise')))
        else:
            out.append(('in', canon(cond), tuple(sorted(arms))))
    return tuple(sorted(out, key=repr))


def effectiveness(ctx, body, g):
    """how a guard relates to the success exits: 'dom' (dominates every success site), 'forall' (inside a whole
    loop whose header dominates them), or 'bypass'"""
    cfg = ctx.cfgof(body)
    oks = [s for s in ctx.ok_sites(body) if not ctx.rejecting(body, s)]
    res = 'dom'
    # anchor: the outermost enclosing non-guard, non-driver branch (a guard under `if c {..}` is judged at the `if`)
    gbbs = {x.bb for x in ctx.guards(body)}
    drivers = {getattr(lp, 'driver_switch', None) for lp in ctx.loops(body).values() if lp.driver_bb is not None}
    anchor = g.bb
    for (sw, cond, arms, targets) in ctx.path_conditions(body, g.bb):
        if sw in gbbs or sw in drivers:
            continue
        anchor = sw
    for s in oks:
        if cfg.dominates(anchor, s):
            continue
        okl = False
        for lp in ctx.enclosing_loops(body, anchor):
            if cfg.dominates(lp.header, s) and s not in lp.blocks:
                okl = True
        if okl:
            res = 'forall' if res != 'bypass' else res
        else:
            res = 'bypass'
    return res


def guard_table(ctx, body):
    """[{guard, ctx, atoms, eff}] for every guard of the body"""
    gs = ctx.guards(body)
    gbbs = {g.bb for g in gs}
    rows = []
    for g in gs:
        rows.append({'guard': g, 'ctx': path_ctx(ctx, body, g.bb, gbbs), 'atoms': accept_atoms(g),
                     'eff': effectiveness(ctx, body, g)})
    return rows


def fmt_atom(a):
    return repr(a)


def compare_table(ctx, rule, fnkey, body, expected, allowed_extra=()):
    """expected: list of (ctx atoms tuple, atom).  Reports one obligation per expected atom and one per extra."""
    rep = ctx.rep
    rows = guard_table(ctx, body)
    actual = []
    for r in rows:
        for a in r['atoms']:
            actual.append((r['ctx'], a, r))
    used = set()
    for (ectx, eatom) in expected:
        ectx = tuple(sorted(ectx, key=repr))
        key = '%s/%s/%s' % (rule, fnkey, fmt_atom((ectx, eatom)))
        alts = [(ectx, eatom)]
        if eatom[0] == 'any':
            # equivalent formulations: the first is the reference (used in keys and messages)
            alts = [(tuple(sorted(c2, key=repr)), a2) for (c2, a2) in eatom[1]]
            ectx, eatom = alts[0]
            key = '%s/%s/%s' % (rule, fnkey, fmt_atom((ectx, eatom)))
        hit = [i for i, (c, a, r) in enumerate(actual) if (c, a) in alts]
        if hit:
            bad = [i for i in hit if actual[i][2]['eff'] == 'bypass']
            good = [i for i in hit if actual[i][2]['eff'] != 'bypass']
            used.update(hit)
            if good:
                r = actual[good[0]][2]
                rep.ok(rule, key, 'guard %s under %s (%s) at line %d' % (fmt_atom(eatom), list(ectx), r['eff'], r['guard'].line),
                       ctx.where(body, r['guard'].bb))
            else:
                r = actual[bad[0]][2]
                rep.violation(rule, key, 'guard %s exists but a success exit bypasses it' % fmt_atom(eatom), ctx.where(body, r['guard'].bb))
            continue
        ev = atom_vars(eatom)
        related = [(i, c, a, r) for i, (c, a, r) in enumerate(actual) if i not in used and (atom_vars(a) & ev)]
        unknown = [x for x in related if x[2][0] in ('unknown', 'pred') and x[2] != eatom and eatom[0] not in ('pred',)]
        known = [x for x in related if x not in unknown]
        if known:
            i, c, a, r = known[0]
            used.add(i)
            rep.violation(rule, key, 'expected accept-condition %s under %s; the code enforces %s under %s instead' % (
                fmt_atom(eatom), list(ectx), fmt_atom(a), list(c)), ctx.where(body, r['guard'].bb))
        elif unknown:
            i, c, a, r = unknown[0]
            used.add(i)
            rep.idiom_absent(rule, key, 'expected %s; found unrecognised condition %s on the same data (not decided)' % (fmt_atom(eatom), fmt_atom(a)))
        else:
            rep.violation(rule, key, 'expected accept-condition %s under %s is not enforced by any guard of %s' % (
                fmt_atom(eatom), list(ectx), body.path), ctx.where(body))
    for i, (c, a, r) in enumerate(actual):
        if i in used:
            continue
        key = '%s/%s/extra/%s' % (rule, fnkey, fmt_atom((c, a)))
        if (c, a) in allowed_extra or a in [x for _, x in allowed_extra if _ is None]:
            rep.ok(rule, key, 'tabled extra guard %s (cannot reject a documented-valid input)' % fmt_atom(a), ctx.where(body, r['guard'].bb), nontrivial=False)
        elif a[0] == 'unknown':
            rep.idiom_absent(rule, key, 'unrecognised extra condition %s (not decided)' % fmt_atom(a))
        else:
            rep.violation(rule, key, 'extra guard %s under %s narrows the accepted domain of %s' % (fmt_atom(a), list(c), body.path),
                          ctx.where(body, r['guard'].bb))
    return rows
