"""C20 Secrets are wiped from heap memory before it is released (ownership / drop-site analysis).

R-C20-1  the secret-owning types wipe every field when dropped (Drop + Zeroize impl field coverage; ZeroizeOnDrop witnesses)
R-C20-2  drop-site rule: no heap-owning, non-wiping value that carries taint from a secret source is dropped (or moved into an
         external, non-wiping callee) in any crate body, on normal or unwinding paths
R-C20-3  a vector that receives secret data is allocated once at its final size: no fallible collect of secrets, no push beyond the
         capacity it was created with (worst path), and no content-moving operation (shrink_to_fit, reserve, resize, insert,
         into_boxed_slice ..) on a vector that holds secrets or becomes a secret field of an owner in that very function
"""
import re
from bpsa.facts import callee_decl, callee_name
from bpsa.normal import canon
from bpsa.terms import walk, short, TERM_IDX, is_term
from . import witness, roles

LEVEL_TEXT = ('Static ownership analysis over MIR (drop-elaborated Drop terminators, moves into external callees) with a backward '
              'secret-taint on reconstructed value terms, plus Drop/Zeroize impl field coverage and ZeroizeOnDrop witnesses. Decides that every '
              'heap-owning temporary in crate code that holds witness values, blinding factors, recovered masks, the recovery seed or prover nonces '
              'is a wipe-on-drop type. Vectors of secrets are created at their final size and never shrunk, reserved or resized afterwards. Does not decide buffers inside dependencies or stack copies.')
ASSUMPTIONS = ['zeroize::Zeroizing<T> and derived ZeroizeOnDrop wipe their contents on drop (also during unwinding)',
               'group elements, transcript challenges and the response scalars of a proof are public (declassified)',
               'vectors wrapped in Zeroizing are created with their final capacity (no reallocation copy)']
RULE_TEXT = ('one obligation per field of each secret-owning type (wiped in Drop and in Zeroize), one per Drop terminator / move of a heap-owning '
             'non-wiping value in any crate body (taint-free, or tabled with a reason); non-trivial = the dropped value has a non-constant term')

WIPING_PREFIX = ('zeroize::Zeroizing<',)
HEAP_MARKERS = ('std::vec::Vec<', 'std::string::String', 'std::boxed::Box<', 'std::vec::IntoIter<', 'std::collections::', 'std::vec::Drain<')
SECRET_OWNERS = ['commitment_opening::CommitmentOpening', 'range_witness::RangeWitness', 'extended_mask::ExtendedMask']
# calls whose result is public even though their inputs are secret (hiding commitments, hashes of public transcripts)
DECLASSIFY_LAST = {'vartime_multiscalar_mul', 'multiscalar_mul', 'vartime_mixed_multiscalar_mul', 'compress', 'commit', 'decompress',
                   'is_identity', 'len', 'is_empty', 'capacity', 'to_string', 'is_some', 'is_none', 'r_len'}
WIPING_CALLEES = ('zeroize::Zeroizing::<Z>::new',)
# vector operations that may copy the contents into a fresh allocation and free the old one un-wiped
REALLOCATING = ('shrink_to_fit', 'shrink_to', 'reserve', 'reserve_exact', 'try_reserve', 'try_reserve_exact', 'into_boxed_slice', 'insert', 'resize', 'resize_with',
                'clone_from', 'clone_into')

# reviewed exceptions: key -> reason
TABLED = {
    'R-C20-2/<verifier-core>/drop/std::vec::Vec<curve25519_dalek::Scalar>/nonce+seed':
        'temp_masks is moved into ExtendedMask::assign on the only feasible path; it is dropped only if nonce()/try_into fails, which needs a '
        'label > 16 bytes or an index >= 2^32 (labels are constants <= 5 bytes, indices are < 64) ',
    'R-C20-2/extended_mask::ExtendedMask::assign/drop/std::vec::Vec<curve25519_dalek::Scalar>/param#2':
        'error branch of the public constructor drops the caller\'s vector; at the verifier\'s call site the length is the extension degree by '
        'construction, so the branch cannot execute there; external callers own the buffer they pass',
}


def owns_heap(ty):
    return any(m in ty for m in HEAP_MARKERS)


def wiping_type(ctx, ty, wiping_adts):
    t = ty.strip()
    for p in ('&mut ', '&'):
        if t.startswith(p):
            return True     # references do not own
    if t.startswith(WIPING_PREFIX):
        return True
    base = re.sub(r'<.*$', '', t)
    if base in wiping_adts:
        return True
    # a vector (or its draining iterator) of self-wiping elements: each element's Drop runs before the buffer is freed
    m = re.match(r'^(std::vec::Vec|std::vec::IntoIter)<(.*)>$', t)
    if m:
        inner = split_args(m.group(2))
        if inner and owns_heap_or_adt(ctx, inner[0]) and wiping_type(ctx, inner[0], wiping_adts) and not inner[0].startswith('&'):
            return True
        if inner and inner[0].startswith('&') and not inner[0].startswith('&['):
            # a vector of references: the block that is freed holds addresses, the values stay where they are (and are wiped there)
            return True
        return False
    # wrappers whose heap content is entirely wiping
    m = re.match(r'^(std::option::Option|std::result::Result|std::ops::ControlFlow)<(.*)>$', t)
    if m:
        inner = split_args(m.group(2))
        return all((not owns_heap(x)) or wiping_type(ctx, x, wiping_adts) or 'errors::ProofError' in x or 'Infallible' in x for x in inner)
    if t.startswith('(') and t.endswith(')'):
        inner = split_args(t[1:-1])
        return all((not owns_heap(x)) or wiping_type(ctx, x, wiping_adts) for x in inner)
    adt = ctx.facts.adts.get(base)
    if adt is not None:
        for v in adt['variants']:
            for f in v['fields']:
                if owns_heap(f['ty']) and not wiping_type(ctx, f['ty'], wiping_adts):
                    return False
        return True
    return False


def owns_heap_or_adt(ctx, ty):
    return owns_heap(ty) or re.sub(r'<.*$', '', ty.strip()) in ctx.facts.adts or ty.strip().startswith('std::option::Option<')


def split_args(s):
    out, depth, cur = [], 0, ''
    for ch in s:
        if ch in '<([':
            depth += 1
        elif ch in '>)]':
            depth -= 1
        if ch == ',' and depth == 0:
            out.append(cur.strip())
            cur = ''
        else:
            cur += ch
    if cur.strip():
        out.append(cur.strip())
    return out


class Taint(object):
    def __init__(self, ctx, secret_fields):
        self.ctx = ctx
        self.secret_fields = secret_fields          # field name -> source label
        self.param_taint = {}                       # (bodykey, idx) -> set(labels)
        self.challenge_fns = set()
        self.prover_bodies = set()
        from . import roles, weights
        self.nonce_fns = roles.nonce_fns(ctx)
        self.samplers = set(weights.rejection_samplers(ctx))
        self._memo = {}

    def sources(self, t):
        """set of source labels reaching term t (cut at declassifying calls)"""
        out = set()
        seen = set()
        stack = [t]
        while stack:
            x = stack.pop()
            if is_term(x):
                if x.id in seen:
                    continue
                seen.add(x.id)
                tag = x.tag
                if tag == 'field' and x[1] in self.secret_fields:
                    out.add(self.secret_fields[x[1]])
                    continue
                if tag == 'param' or tag == 'upvar':
                    out |= self.param_taint.get((x[1], x[2]), set())
                    continue
                if tag == 'call':
                    nm = x[1]
                    last = nm.split('::')[-1]
                    if last in DECLASSIFY_LAST or nm in self.challenge_fns:
                        continue
                    if nm in self.nonce_fns:
                        out.add('nonce')
                    if nm in self.samplers and x[3] and x[3][0][0].split('::{closure')[0] in self.prover_bodies:
                        out.add('prover-rng')
                if tag == 'ev' and x[1] == 'call':
                    last = x[2].split('::')[-1]
                    if last in DECLASSIFY_LAST:
                        continue
                if tag == 'adt' and x[1].split('::')[-1] in ('Err', 'None'):
                    continue
                if tag == 'lv':
                    stack.extend(self.ctx.eng.lv_defs(x))
                    continue
                stack.extend(x.args)
            elif isinstance(x, tuple):
                stack.extend(x)
        return out


def wiped_fields(ctx, b, owner, depth=0):
    """names of the fields of `self` that body b hands to a zeroize call: field by field (`self.f.zeroize()`), or wholesale through the
    type's own Zeroize impl (`fn drop(&mut self) { self.zeroize() }`)"""
    wiped = set()
    for bb, t in ctx.calls(b):
        if 'zeroize' not in callee_decl(t).split('::')[-1]:
            continue
        for a in ctx.args(b, bb):
            a0 = a
            while a0.tag in ('mut', 'via'):
                a0 = a0[1] if a0.tag == 'mut' else a0[2]
            if a0.tag == 'param' and a0[1] == b.key and a0[2] == 1 and depth < 2:
                # the whole object: whatever its Zeroize impl wipes
                zs = [z for z in ctx.facts.fns() if z.impl_trait == 'zeroize::Zeroize' and (z.impl_self or '').split('<')[0] == owner and z.path.endswith('::zeroize')]
                if zs and zs[0].key != b.key:
                    wiped |= wiped_fields(ctx, zs[0], owner, depth + 1)
                continue
            for x in walk(a):
                if x.tag == 'field':
                    base = x[2]
                    while base.tag in ('mut', 'via'):
                        base = base[1] if base.tag == 'mut' else base[2]
                    if base.tag == 'param':
                        wiped.add(x[1])
    return wiped


def run(ctx):
    rep = ctx.rep
    facts = ctx.facts
    _PO.clear()

    # ---- R-C20-1 ------------------------------------------------------------------------------------
    wiping_adts = set()
    secret_fields = {}
    for owner in SECRET_OWNERS + ['range_statement::RangeStatement']:
        adt = facts.adts.get(owner)
        if adt is None:
            rep.anchor_missing('R-C20-1', 'R-C20-1/adt/%s' % owner, 'type %s not found' % owner)
            continue
        fields = [f for v in adt['variants'] for f in v['fields']]
        for trait, meth in (('std::ops::Drop', 'drop'), ('zeroize::Zeroize', 'zeroize')):
            if owner == 'range_statement::RangeStatement' and trait == 'zeroize::Zeroize':
                continue
            hits = [b for b in facts.fns() if b.impl_trait == trait and (b.impl_self or '').split('<')[0] == owner and b.path.endswith('::' + meth)]
            if not hits:
                rep.violation('R-C20-1', 'R-C20-1/%s/%s' % (owner, trait), '%s does not implement %s' % (owner, trait), adt['span']['file'])
                continue
            b = hits[0]
            rep.saw_body(b)
            wiped = wiped_fields(ctx, b, owner)
            want = [f['name'] for f in fields] if owner != 'range_statement::RangeStatement' else ['seed_nonce']
            for f in want:
                rep.check(f in wiped, 'R-C20-1', 'R-C20-1/%s/%s/%s' % (owner, trait, f), '<%s as %s>::%s wipes field %s' % (owner, trait, meth, f),
                          '<%s as %s>::%s does not wipe field %s (wiped: %s)' % (owner, trait, meth, f, sorted(wiped)), ctx.where(b))
            if trait == 'std::ops::Drop' and all(f in wiped for f in want):
                wiping_adts.add(owner)
        for f in fields:
            if owner == 'range_statement::RangeStatement':
                if f['name'] == 'seed_nonce':
                    secret_fields[f['name']] = 'seed'
            elif 'ExtensionDegree' not in f['ty']:
                secret_fields[f['name']] = {'v': 'witness-value', 'r': 'witness-blinding', 'openings': 'witness', 'blindings': 'mask'}.get(f['name'], owner.split('::')[-1] + '.' + f['name'])
    rep.floor('R-C20-1', 'secret fields', len(secret_fields), 5)
    if ctx.cfg == 'default':
        witness.check_pass(rep, 'R-C20-1', ['c20_zeroize_on_drop'])

    # ---- R-C20-2 ------------------------------------------------------------------------------------
    taint = Taint(ctx, secret_fields)
    # challenge functions: crate functions reaching merlin challenge_bytes that return scalars
    for b in facts.fns():
        ret = b.locals[0]['ty']
        if 'Scalar' in ret and 'RangeProof' not in ret and not b.is_closure:
            if any(callee_decl(t) == 'merlin::Transcript::challenge_bytes' for rb in facts.reachable_from([b]) for _, t in ctx.calls(rb)):
                taint.challenge_fns.add(b.path)
    for b in facts.fns():
        if any('RangeWitness' in b.local_ty(i) for i in range(1, b.argc + 1)) and not b.path.endswith('::new'):
            taint.prover_bodies.add(b.path)
    # interprocedural parameter taint (fixpoint over crate call sites)
    changed = True
    rounds = 0
    while changed and rounds < 6:
        changed = False
        rounds += 1
        for b in facts.fns():
            for bb, t in ctx.calls(b):
                nm = callee_name(t)
                if nm not in facts.fn:
                    continue
                callee = facts.fn[nm]
                for i, a in enumerate(ctx.args(b, bb)):
                    src = taint.sources(a)
                    if src:
                        k = (callee.key, i + 1)
                        cur = taint.param_taint.setdefault(k, set())
                        if not src <= cur:
                            cur |= src
                            changed = True
            # closures: upvars inherit from the captured operands
            for blk in b.blocks:
                for st in blk['stmts']:
                    if st['k'] == 'assign' and st['rv']['k'] == 'aggregate' and st['rv']['kind'].get('a') == 'closure':
                        cpath = st['rv']['kind']['path']
                        for j, o in enumerate(st['rv']['ops']):
                            src = taint.sources(ctx.eng.operand(b, blk['i'], 0, o))
                            if src:
                                k = (cpath, j)
                                cur = taint.param_taint.setdefault(k, set())
                                if not src <= cur:
                                    cur |= src
                                    changed = True
    ndrops = 0
    nheap = 0
    seen_keys = set()
    # tabled exceptions are keyed by role, not by the (private) function name
    role_name = {}
    from . import msm
    vc = msm.verifier_core(ctx, 'R-C20-2')
    if vc is not None:
        role_name[vc.path] = '<verifier-core>'
        # the recovery block may live in a private helper of the core: the body that hands the mask vector to ExtendedMask::assign
        for (fr, abb, at, aa) in ctx.flat_calls(vc, lambda n, t: n.endswith('ExtendedMask::assign'), stop=roles.nonce_fns(ctx)):
            role_name[fr.body.path] = '<verifier-core>'
    for b in facts.fns():
        if b.impl_trait in ('std::fmt::Debug', 'std::fmt::Display'):
            continue
        rep.saw_body(b)
        cfg = ctx.cfgof(b)
        for blk in b.blocks:
            t = blk['term']
            bb = blk['i']
            sites = []
            if t['k'] == 'drop':
                ndrops += 1
                sites.append(('drop', t['place'], t['place']['ty']))
            elif t['k'] == 'call' and not blk['cleanup']:
                nm, dc = callee_name(t), callee_decl(t)
                if nm not in facts.fn and dc not in WIPING_CALLEES:
                    for a in t['args']:
                        if a['k'] == 'move' and owns_heap(a['place']['ty']):
                            sites.append(('move:' + dc.split('::')[-1], a['place'], a['place']['ty']))
            for kind, place, ty in sites:
                if not owns_heap(ty) or wiping_type(ctx, ty, wiping_adts):
                    continue
                if kind.startswith('move:') and kind[5:] in ('into_iter', 'collect', 'push', 'extend', 'from_residual', 'branch', 'ok_or', 'map_err', 'into', 'unzip', 'new', 'ok_or_else', 'and_then', 'map', 'from'):
                    # value-preserving containers / adapters: the result is tracked as a term of its own and checked where it is dropped
                    continue
                nheap += 1
                # value term of the dropped place; for cleanup blocks evaluate at the nearest normal predecessor
                evalbb = bb
                if blk['cleanup'] or bb not in cfg.reach_set:
                    evalbb = nearest_normal(b, cfg, bb)
                    if evalbb is None:
                        continue
                if place['l'] in proof_operands(b):
                    rep.ok('R-C20-2', 'R-C20-2/%s/%s/%s/response' % (b.path, kind.split(':')[0], ty),
                           '%s local is a component of the returned proof (public response), dropped only while unwinding' % ty, ctx.where(b, bb), nontrivial=False)
                    continue
                term = ctx.eng.place(b, evalbb, TERM_IDX, place)
                src = taint.sources(term)
                if 1 <= place['l'] <= b.argc:
                    role = 'param#%d' % place['l']
                else:
                    role = '+'.join(sorted({s.split('-')[0] for s in src})) or 'clean'
                fn_role = role_name.get(b.path, b.path)
                key = 'R-C20-2/%s/%s/%s/%s' % (fn_role, kind.split(':')[0], ty, role)
                if key in seen_keys:
                    continue
                seen_keys.add(key)
                where = ctx.where(b, bb)
                if not src:
                    rep.ok('R-C20-2', key, '%s of %s local %s: no secret taint (%s)' % (kind, ty, b.local_name(place['l']) or '_%d' % place['l'], short(term, 100)), where,
                           nontrivial=term.tag not in ('const',))
                elif key in TABLED:
                    rep.ok('R-C20-2', key, 'tabled: ' + TABLED[key], where, nontrivial=False)
                else:
                    rep.violation('R-C20-2', key, '%s of heap-owning, non-wiping %s `%s` carrying secret taint from {%s}: freed without being overwritten; value = %s' % (
                        kind, ty, b.local_name(place['l']) or '_%d' % place['l'], ', '.join(sorted(src)), short(term, 260)), where)
    no_realloc(ctx, taint, wiping_adts)
    rep.floor('R-C20-2', 'Drop terminators examined', ndrops, 100)
    rep.floor('R-C20-2', 'heap-owning non-wiping drop/move sites', len(seen_keys), 10)
    rep.extra['drop_scan'] = {'drop_terminators': ndrops, 'heap_nonwiping_sites': nheap, 'distinct_keys': len(seen_keys),
                              'challenge_fns': sorted(taint.challenge_fns), 'prover_bodies': sorted(taint.prover_bodies),
                              'tainted_params': sorted('%s#%d<-%s' % (k[0], k[1], '+'.join(sorted(v))) for k, v in taint.param_taint.items())[:60]}


def no_realloc(ctx, taint, wiping_adts):
    """R-C20-3: a vector that receives secret data is allocated once at its final size.  A growing vector reallocates, and the
    outgrown block is released by the allocator without being overwritten (Zeroizing only wipes the final buffer).  Flags
      * a fallible collect (`collect::<Result<Vec<_>, _>>()` / `Option<Vec<_>>`): the adapter's size hint has lower bound 0, so the
        vector starts at the minimum capacity (4 elements for 32-byte scalars) and grows;
      * `Vec::new()` / `with_capacity(c)` followed by pushes that are not bounded by `c`."""
    rep = ctx.rep
    facts = ctx.facts
    n = 0
    for b in facts.fns():
        if b.impl_trait in ('std::fmt::Debug', 'std::fmt::Display'):
            continue
        cfg = ctx.cfgof(b)
        ix = ctx.eng.bx(b)
        # (a) fallible collects
        for bb, t in ctx.calls(b, decl='std::iter::Iterator::collect'):
            g = t['func'].get('gargs', [])
            tgt = g[1] if len(g) > 1 else ''
            if not (tgt.startswith('std::result::Result<std::vec::Vec<') or tgt.startswith('std::option::Option<std::vec::Vec<') or tgt.startswith('std::result::Result<zeroize::Zeroizing<std::vec::Vec<')):
                continue
            it = ctx.args(b, bb)[0]
            from bpsa.terms import mk_elem
            el = mk_elem(ctx.eng, it)
            src = taint.sources(el) | taint.sources(it)
            n += 1
            key = 'R-C20-3/%s/fallible-collect/%s' % (b.path, '+'.join(sorted({x.split('-')[0] for x in src})) or 'clean')
            if not src:
                rep.ok('R-C20-3', key, 'fallible collect of public data (%s)' % short(it, 80), ctx.where(b, bb), nontrivial=False)
            else:
                rep.violation('R-C20-3', key, 'secret data (%s) is collected through `collect::<%s>()`: the vector cannot be pre-sized (size hint 0), grows past its initial '
                              'capacity of 4 elements when more than 4 are produced (extension degree 5 or 6) and the outgrown block is freed without being wiped' % (', '.join(sorted(src)), tgt[:60]),
                              ctx.where(b, bb))
        # (b) push-filled vectors: every constructor definition of a vector local, with the fills that follow it
        for l in range(b.argc + 1, len(b.locals)):
            ty = b.local_ty(l)
            if not (ty.startswith('std::vec::Vec<') or ty.startswith('zeroize::Zeroizing<std::vec::Vec<')):
                continue
            wd_all = ix.whole_defs(l)
            fills_all = [e for e in ix.events_on(('L', l)) if e['decl'] in ('std::vec::Vec::<T, A>::push', 'std::iter::Extend::extend', 'std::vec::Vec::<T, A>::extend_from_slice', 'std::vec::Vec::<T, A>::append')]
            if not fills_all:
                continue
            for d in wd_all:
                if d[2] != 'call':
                    continue
                ctor_bb = d[0]
                ctor = ctx.eng.call_result(b, ctor_bb)
                base = ctor
                while base.tag == 'mut':
                    base = base[1]
                if not (base.tag == 'call' and base[1].split('::')[-1] in ('new', 'with_capacity') and 'Vec' in base[1]):
                    continue
                others = [d2[0] for d2 in wd_all if d2 is not d]
                pushes = [e for e in fills_all if (e['bb'] == ctor_bb or cfg.reaches(ctor_bb, e['bb'])) and not any(cfg.reaches(o, e['bb']) and not cfg.reaches(o, ctor_bb) for o in others)]
                if not pushes:
                    continue
                src = set()
                for e in pushes:
                    src |= taint.sources(ctx.eng.event_term(b, e))
                if not src:
                    continue
                n += 1
                key = 'R-C20-3/%s/%s/%s' % (b.path, ty[:40], '+'.join(sorted({x.split('-')[0] for x in src})))
                cap = base[2][0] if base[1].endswith('with_capacity') and base[2] else None
                if cap is None:
                    rep.violation('R-C20-3', key, 'secret data (%s) is pushed into a vector created with Vec::new(): it reallocates as it grows and the outgrown blocks are freed un-wiped' % ', '.join(sorted(src)), ctx.where(b, ctor_bb))
                    continue
                ccap = canon(cap)
                const_cap = cap.tag == 'const'
                loop_bounds = []
                per_push = []
                for e in pushes:
                    mine = []
                    for lp in ctx.enclosing_loops(b, e['bb']):
                        if ctor_bb in lp.blocks or lp.iter_term is None:
                            continue
                        loop_bounds.append(lp.iter_term)
                        mine.append(lp.iter_term)
                    per_push.append(mine)
                # (1) symbolic count: capacity - sum over fill sites of (items per fill * trip counts of the enclosing loops) >= 0
                verdict = None
                try:
                    from . import ilen
                    ilen.ENGINE = ctx.eng
                    ilen.CTX = ctx
                    capp = ilen.ival(cap)
                    total = {}
                    for e, nest in zip(pushes, per_push):
                        # a fill performed inside (nested) closures handed to for_each / map: the iterators they are applied to are part of
                        # the loop nest; terms of the closure bodies are rewritten into this body's vocabulary
                        nest = list(nest)
                        b_cur, e_cur, lift = b, e, (lambda t: t)
                        from bpsa.terms import mk_elem
                        while e_cur['kind'] == 'closure':
                            cb_ = e_cur['cbody']
                            it_ = ctx.eng.applied_to(b_cur, e_cur['bb'], e_cur['closure_local']) if e_cur.get('closure_local') is not None else None
                            if it_ is None:
                                raise ilen.NoLen('closure applied to an unknown iterator')
                            lit = lift(it_)
                            nest.append(lit)
                            env_ = {('upvar', cb_.key, j): lift(ctx.eng.operand(b_cur, e_cur['bb'], e_cur['idx'], o)) for j, o in enumerate(e_cur['captures'])}
                            env_[('param', cb_.key, 2)] = mk_elem(ctx.eng, lit)
                            lift = (lambda env_: (lambda t: ctx.eng.subst(t, env_, ())))(env_)
                            b_cur, e_cur = cb_, e_cur['inner']
                            for lp_ in ctx.enclosing_loops(b_cur, e_cur['bb']):
                                if lp_.iter_term is not None:
                                    nest.append(lift(lp_.iter_term))
                        if e_cur['decl'].endswith('::push'):
                            items = ilen.const(1)
                        else:
                            et = lift(ctx.eng.event_term(b_cur, e_cur))
                            items = ilen.icount(et[3][0])
                        for itb in nest:
                            z = itb
                            while z.tag == 'mut':
                                z = z[1]
                            if z.tag == 'zip':
                                # min of the two sides: either bound will do; take one that can be evaluated
                                cands = []
                                for side in (z[1], z[2]):
                                    try:
                                        cands.append(ilen.icount(side))
                                    except ilen.NoLen:
                                        pass
                                if not cands:
                                    raise ilen.NoLen('neither side of the zip has a length')
                                # (the number of pairs is at most either side: prefer the side the capacity is written in)
                                cap_atoms = {a for mono in capp for a in mono}
                                cnt = next((c for c in cands if {a for mono in c for a in mono} <= cap_atoms), cands[0])
                            else:
                                cnt = ilen.icount(itb)
                            items = ilen.pmul(items, cnt)
                        total = ilen.padd(total, items)
                    slack = ilen.padd(capp, total, -1)
                    verdict = ilen.ge0(slack)
                    vdet = 'capacity %s, filled with %s' % (capp, total)
                    if not verdict and ilen.is_const(capp) and ilen.is_const(total) and not any(per_push) and all(e_['kind'] != 'closure' for e_ in pushes):
                        # straight-line fills on *alternative* paths (`match (j, k) { (Some, Some) => .., (Some, None) => .., .. }`) do not
                        # add up: the most that one path through the function puts in
                        from bpsa import paths as _paths
                        cfg_ = ctx.cfgof(b)
                        per_block = {}
                        for e_ in pushes:
                            if e_['decl'].endswith('::push'):
                                it_n = 1
                            else:
                                c_ = ilen.icount(ctx.eng.event_term(b, e_)[3][0])
                                it_n = c_.get((), 0) if ilen.is_const(c_) else None
                            if it_n is None:
                                per_block = None
                                break
                            per_block[e_['bb']] = per_block.get(e_['bb'], 0) + it_n
                        worst = None
                        if per_block is not None:
                            for ret_ in cfg_.returns:
                                ps_ = _paths.paths_to(cfg_, ret_)
                                if ps_ is None:
                                    worst = None
                                    break
                                for path_ in ps_:
                                    n_ = sum(per_block.get(x, 0) for x in path_)
                                    worst = n_ if worst is None else max(worst, n_)
                        if worst is not None:
                            verdict = capp.get((), 0) >= worst
                            vdet = 'capacity %d, at most %d on any one path (the %d fill sites lie on alternative paths)' % (capp.get((), 0), worst, len(pushes))
                    if not verdict:
                        # symbolic fill counts against a smaller / constant capacity: bound each length by what the dominating guards and
                        # the enum's largest discriminant allow
                        bounded = bound_above(ctx, b, ctor_bb, total)
                        if bounded is not None and ilen.is_const(capp):
                            verdict = capp.get((), 0) >= bounded
                            vdet = 'capacity %d, filled with at most %d (%s, each length bounded by the dominating guards)' % (capp.get((), 0), bounded, total)
                        elif bounded is None and ilen.is_const(capp) and not ilen.is_const(total):
                            # inconclusive: a constant capacity against a symbolic fill count with no established bound is not a proof
                            # of excess; reported as not decided
                            rep.idiom_absent('R-C20-3', key, 'constant capacity %d against fills %s: no upper bound of the symbolic part is established (not decided)' % (capp.get((), 0), total))
                            continue
                except Exception as ex:
                    verdict = None
                    vdet = 'not evaluated (%s)' % ex
                if verdict is None and const_cap and not any(per_push):
                    rep.ok('R-C20-3', key, 'secret vector created with constant capacity %s, %d straight-line fill sites (%s)' % (ccap, len(pushes), vdet[:80]), ctx.where(b, ctor_bb), nontrivial=False)
                    continue
                if verdict is not None:
                    rep.check(verdict, 'R-C20-3', key, 'secret vector is created with_capacity(%s), which covers its fills (%s)' % (ccap[:80], vdet[:160]),
                              'secret vector is created with_capacity(%s) but its fills can exceed it (%s): it reallocates and the outgrown block is freed un-wiped' % (ccap[:80], vdet[:200]),
                              ctx.where(b, ctor_bb))
                    continue
                ok = True
                for itb in loop_bounds:
                    # a range(0, N) / take(N) / collection whose length is part of the capacity expression
                    bits = [canon(x) for x in walk(itb) if x.tag in ('field', 'param') or (x.tag == 'call' and x[1].split('::')[-1] == 'len')]
                    # an explicit bound: take(N) or 0..N with N the capacity itself
                    explicit = [canon(x.args[-1]) for x in walk(itb) if x.tag == 'adapt' and x[1] == 'take'] + \
                               [canon(x[2]) for x in walk(itb) if x.tag == 'range' and x[1].tag == 'const' and x[1][1] == 0]
                    if not any(bt in ccap for bt in bits if len(bt) > 2) and ccap not in explicit:
                        ok = False
                if not ok:
                    # product form: capacity = f1 * f2 * .., every fill site sits in a loop nest whose trip counts are bounded by
                    # distinct factors (lengths related by a constructor invariant count as equal)
                    ok = all(nest_within(ctx, b, nest, cap) for nest in per_push) and all(per_push)
                rep.check(ok, 'R-C20-3', key, 'secret vector is created with_capacity(%s), which covers its filling loops' % ccap[:80],
                          'secret vector is created with_capacity(%s) but filled by loops over %s: it may reallocate' % (ccap[:80], [canon(x)[:60] for x in loop_bounds]), ctx.where(b, ctor_bb))
    rep.floor('R-C20-3', 'secret vector construction sites', n, 5)
    # (c) operations that move the contents of a vector to another block (and release the old one as it is): none may be applied to
    #     a vector that holds secret data -- whether the data is already known to be secret (it was read from a secret owner) or
    #     becomes so because this very function stores the vector in a secret field of a secret owner (a constructor)
    nre = 0
    for b in facts.fns():
        if b.impl_trait in ('std::fmt::Debug', 'std::fmt::Display'):
            continue
        ix = ctx.eng.bx(b)
        evs = [e for e in ix.events() if e['kind'] == 'call' and e['decl'].split('::')[-1] in REALLOCATING and
               ('Vec' in e['decl'] or 'std::vec::Vec<' in e['node']['args'][e['mutarg']]['place'].get('ty', ''))]
        if not evs:
            continue
        stored = {}
        for blk in b.blocks:
            if blk.get('cleanup'):
                continue
            for st in blk['stmts']:
                if st['k'] == 'assign' and st['rv']['k'] == 'aggregate' and st['rv']['kind'].get('a') == 'adt' and \
                        any(st['rv']['kind'].get('path', '').startswith(o) for o in SECRET_OWNERS):
                    for fname, o in zip(st['rv']['kind'].get('fields', []), st['rv']['ops']):
                        if fname in taint.secret_fields and o['k'] in ('copy', 'move'):
                            stored[('L', o['place']['l'])] = fname
                            l0, seen0 = o['place']['l'], set()
                            while l0 not in seen0:
                                # the operand is a temporary that the vector was moved into
                                seen0.add(l0)
                                wd = ix.whole_defs(l0)
                                rv0 = wd[0][3]['rv'] if len(wd) == 1 and wd[0][2] == 'assign' else None
                                if rv0 is not None and rv0['k'] == 'use' and rv0['op']['k'] in ('copy', 'move') and not rv0['op']['place']['p']:
                                    l0 = rv0['op']['place']['l']
                                    stored[('L', l0)] = fname
        for e in evs:
            nre += 1
            op = e['decl'].split('::')[-1]
            why = None
            for r in e['roots']:
                if r in stored:
                    why = 'the vector becomes field `%s` of a secret owner' % stored[r]
            fp = e.get('fpath') or ()
            if why is None and fp and fp[-1] in taint.secret_fields and any(
                    r[0] == 'L' and any(o in b.local_ty(r[1]) for o in SECRET_OWNERS) for r in e['roots']):
                why = 'the vector is field `%s` of a secret owner' % fp[-1]
            if why is None:
                src = set()
                for r in e['roots']:
                    if r[0] == 'L':
                        lty = b.local_ty(r[1])
                        if wiping_type(ctx, lty, wiping_adts) and not lty.startswith('zeroize::Zeroizing<std::vec::Vec<'):
                            continue
                        try:
                            src |= taint.sources(ctx.eng.operand(b, e['bb'], TERM_IDX, {'k': 'copy', 'place': {'l': r[1], 'p': [], 'ty': lty}}))
                        except Exception:
                            pass
                if src:
                    why = 'the vector holds %s' % ', '.join(sorted(src))
            key = 'R-C20-3/%s/moves-contents/%s' % (b.path, op)
            rep.check(why is None, 'R-C20-3', key, '`%s` is applied to a vector of public data' % op,
                      '`%s` may move the contents to a new block and release the old one without wiping it: %s' % (op, why), ctx.where(b, e['bb']))
    rep.note('R-C20-3: %d content-moving vector operations examined' % nre)


def bound_above(ctx, body, bb, poly):
    """an integer upper bound of a polynomial with non-negative coefficients over length atoms, from guards `atom <= X` that dominate bb
    (X a constant, or the discriminant of a crate enum: its largest discriminant); None when an atom has no bound"""
    from . import ilen
    from .panics import path_atoms
    if any(c < 0 for c in poly.values()):
        return None
    known = path_atoms(ctx, body, bb)

    def enum_max(name):
        # `x.extension_degree`: a field whose type is a crate enum
        last = name.split('.')[-1].split(' ')[0].rstrip(')')
        for a in ctx.facts.adts.values():
            if a['kind'] != 'Struct':
                continue
            for f in a['variants'][0]['fields']:
                if f['name'] == last:
                    en = ctx.facts.adts.get(f.get('ty', '').split('<')[0])
                    if en and en['kind'] == 'Enum':
                        try:
                            return max(int(v['discr']) for v in en['variants'])
                        except (TypeError, ValueError):
                            return None
        return None

    def ub(atom, depth=0):
        if depth > 3:
            return None
        if atom.isdigit():
            return int(atom)
        best = None
        for a in known:
            if a[0] == 'cmp' and a[1] in ('Le', 'Eq') and a[2] == atom:
                x = a[3]
                v = int(x) if x.isdigit() else ub(x, depth + 1)
                if v is not None:
                    best = v if best is None else min(best, v)
            if a[0] == 'cmp' and a[1] == 'Eq' and a[3] == atom:
                x = a[2]
                v = int(x) if x.isdigit() else ub(x, depth + 1)
                if v is not None:
                    best = v if best is None else min(best, v)
        if best is None:
            m = enum_max(atom)
            if m is not None:
                best = m
        return best
    total = 0
    for mono, c in poly.items():
        term = c
        for a in mono:
            u = ub(a)
            if u is None:
                return None
            term *= u
        total += term
    return total


def cap_factors(t):
    """factors of a capacity expression written as a (checked) product"""
    while t.tag in ('mut', 'cast'):
        t = t[1] if t.tag == 'mut' else t[2]
    if t.tag == 'call' and t[1].split('::')[-1] in ('checked_mul', 'saturating_mul', 'wrapping_mul') and len(t[2]) == 2:
        return cap_factors(t[2][0]) + cap_factors(t[2][1])
    if t.tag == 'binop' and t[1] == 'Mul':
        return cap_factors(t[2]) + cap_factors(t[3])
    return [t]


def nest_within(ctx, body, nest, cap):
    """each loop of the nest has a trip count bounded by its own factor of the capacity"""
    from . import msm_pairs
    facs = [canon(f) for f in cap_factors(cap)]
    inv = []
    try:
        inv = msm_pairs.invariant_pairs(ctx)
    except Exception:
        inv = []
    eq = {}
    for a, c in inv:
        if a and c:
            eq.setdefault(a, set()).add(c)
            eq.setdefault(c, set()).add(a)
    free = list(facs)
    for it in nest:
        try:
            atoms = msm_pairs.lenform(ctx, it)
        except Exception:
            atoms = frozenset()
        cands = set()
        for a in atoms:
            cands.add(a[1:] if a.startswith('=') else a)
            # len(X.f) with |f| == |g| by a constructor invariant of X's type
            if a.startswith('len(') and '.' in a:
                obj, fld = a[4:-1].rsplit('.', 1)
                for g in eq.get(fld, ()):
                    cands.add('len(%s.%s)' % (obj, g))
        hit = next((f for f in free if f in cands), None)
        if hit is None:
            return False
        free.remove(hit)
    return True


_PO = {}


def proof_operands(b):
    """locals moved into an aggregate of the crate's proof type (the public output of the prover / decoder)"""
    if b.key not in _PO:
        out = set()
        for blk in b.blocks:
            for st in blk['stmts']:
                if st['k'] == 'assign' and st['rv']['k'] == 'aggregate' and st['rv']['kind'].get('path') == 'range_proof::RangeProof':
                    for o in st['rv']['ops']:
                        if o['k'] in ('move', 'copy') and not o['place']['p']:
                            out.add(o['place']['l'])
        # one level of copies
        for blk in b.blocks:
            for st in blk['stmts']:
                if st['k'] == 'assign' and not st['place']['p'] and st['place']['l'] in out and st['rv']['k'] == 'use' and st['rv']['op']['k'] in ('move', 'copy') and not st['rv']['op']['place']['p']:
                    out.add(st['rv']['op']['place']['l'])
        _PO[b.key] = out
    return _PO[b.key]


def nearest_normal(b, cfg, bb):
    """a reachable non-cleanup block from which the cleanup block bb is entered (unwind edge source)"""
    # search predecessors through cleanup blocks via unwind targets
    preds = {}
    for blk in b.blocks:
        t = blk['term']
        uw = t.get('unwind')
        if uw and 'Cleanup' in uw:
            m = re.search(r'bb(\d+)', uw)
            if m:
                preds.setdefault(int(m.group(1)), []).append(blk['i'])
        if blk['cleanup']:
            for k in ('target',):
                if k in t and isinstance(t[k], int) and t[k] >= 0:
                    preds.setdefault(t[k], []).append(blk['i'])
            if t['k'] == 'switch':
                for _, x in t['arms']:
                    preds.setdefault(x, []).append(blk['i'])
                preds.setdefault(t['otherwise'], []).append(blk['i'])
    seen, work = set(), [bb]
    best = None
    while work:
        x = work.pop()
        if x in seen:
            continue
        seen.add(x)
        blk = b.block[x]
        if not blk['cleanup'] and x in cfg.reach_set:
            if best is None or cfg.rpo.index(x) > cfg.rpo.index(best):
                best = x
            continue
        work.extend(preds.get(x, []))
    return best


def thorough(rep):
    witness.run(rep, 'C20', ['c20'])
