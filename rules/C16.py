"""C16 Decoding and verification never panic on untrusted input (crate code).

R-C16-1  every potentially panicking construct reachable from the decode / verify entry points is discharged by a verified
         pattern or is in the reviewed table
R-C16-2  the crate call graph reachable from those entry points is acyclic (no recursion)
R-C16-3  every loop in the reachable set is driven by an iterator over a finite collection / bounded range
         (exception tabled: rejection sampling in random_not_zero)
R-C16-4  allocation sizes derive from input lengths, constants or constructor-bounded parameters, never from decoded bytes nor from what a
         deserializer reports about its input (`SeqAccess::size_hint`); every method of a serde visitor impl is an entry point
R-C16-5  the two length preconditions of the mixed precomputed MSM (see rules/msm.py)
"""
from bpsa.facts import callee_decl, callee_name
from bpsa.normal import canon
from bpsa.terms import walk, short, TERM_IDX
from . import panics, msm

LEVEL_TEXT = ('Static analysis (panic-site enumeration over MIR of every crate function reachable from from_bytes, '
              'extension_degree_from_proof_bytes, verify_batch and the serde visitor). Decides that each MIR Assert, each call to a curated '
              'panicking function and each boundary call with a documented precondition is discharged by a dominating guard / range fact '
              'or is individually tabled with a reason; that there is no recursion; that loops are iterator-driven over finite collections; that '
              'allocation sizes come from lengths (never from decoded bytes or a deserializer\'s size hint); every method of a serde visitor impl is an entry point. Does not decide panics inside dependencies beyond the enumerated preconditions, nor wall-clock bounds.')
ASSUMPTIONS = ['dependencies panic only on the documented preconditions enumerated here (precomputed Straus length assertions)',
               'statements are built through RangeStatement::init with library-provided Pedersen generators (|g_base_vec| == extension degree)',
               'debug_assert in Scalar::batch_invert (a zero input) needs y == 1, a 2^-252 event on a hash output']
RULE_TEXT = ('one obligation per panic site (discharged/tabled), per loop, per allocation site, per call-graph SCC; non-trivial = discharged by a '
             'dominating condition or range fact rather than by table')

ROOTS = ['RangeProof::<P>::from_bytes', 'RangeProof::<P>::extension_degree_from_proof_bytes', 'RangeProof::<P>::verify_batch',
         "serde::Deserialize<'de>>::deserialize", 'visit_bytes']

REVIEWED = {
    '<curve25519_dalek::Scalar as protocols::scalar_protocol::ScalarProtocol>::from_hasher_blake2b/copy_len/repeatv(0,\'64\'),finalize_fixed(p1)':
        'destination is [u8; 64] and Blake2bMac512 has a 64-byte output (type-level sizes, checked by R-C19-2)',
}

LOOP_EXCEPTIONS = {
    '<curve25519_dalek::Scalar as protocols::scalar_protocol::ScalarProtocol>::random_not_zero':
        'rejection sampling: terminates with probability 1, one expected iteration (a zero scalar has probability 2^-252)',
}

ALLOC_DECLS = {'std::vec::Vec::<T>::with_capacity': 0, 'std::vec::from_elem': 1, 'std::vec::Vec::<T, A>::reserve': 1,
               'std::vec::Vec::<T, A>::reserve_exact': 1, 'std::vec::Vec::<T, A>::resize': 1, 'std::iter::repeat_n': 1}
UNBOUNDED_ITER = ('repeat', 'cycle')
TYPES = {}


def cursor_loop(ctx, body, lp):
    """a `while` loop that consumes a byte slice: some slice-typed local is re-defined, on every iteration that continues, as the
    tail of itself after a constant number n >= 1 of elements (`rest = rest.split_at(n).1`), so the loop runs at most len/n times.
    Returns a description, or None."""
    ix = ctx.eng.bx(body)
    for l in range(body.argc + 1, len(body.locals)):
        import re as _re
        if not _re.match(r"^&('\w+ )?(mut )?\[", body.local_ty(l)):
            continue
        ins = [d for d in ix.whole_defs(l) if d[0] in lp.blocks]
        outs = [d for d in ix.whole_defs(l) if d[0] not in lp.blocks]
        if not ins or not outs:
            continue
        good = True
        n_min = None
        for d in ins:
            t = ctx.eng.rvalue(body, d[0], d[1], d[3]['rv']) if d[2] == 'assign' else ctx.eng.call_result(body, d[0])
            while t.tag == 'mut':
                t = t[1]
            # one or more layers of `.1 of split_at(.., n)` around this local as carried into the iteration
            layers = 0
            cur = t
            while cur.tag == 'field' and cur[1] == '1' and cur[2].tag == 'adapt' and cur[2][1] in ('split_at', 'split_at_checked') and len(cur[2].args) >= 3:
                n = cur[2][3]
                nn = n[1] if n.tag == 'const' and isinstance(n[1], int) else None
                if n.tag == 'binop' and n[1] == 'Mul' and all(x.tag == 'const' and isinstance(x[1], int) for x in (n[2], n[3])):
                    nn = n[2][1] * n[3][1]
                if nn is None or nn < 1:
                    layers = 0
                    break
                n_min = nn if n_min is None else min(n_min, nn)
                layers += 1
                cur = cur[2][2]
                while cur.tag == 'mut':
                    cur = cur[1]
            if layers == 0 or not (cur.tag == 'lv' and cur[2] == l):
                good = False
                break
        if not good:
            continue
        # the loop continues only through such a definition
        if all(ctx.every_iteration(body, lp, d[0]) for d in ins) or any(_back_edges_pass(ctx, body, lp, d[0]) for d in ins):
            return 'every continuing iteration advances the slice `%s` by %d element(s) (at most len/%d iterations)' % (body.local_name(l) or '_%d' % l, n_min, n_min)
    return None


def input_driven_loop(ctx, body, lp):
    """a `while let Some(x) = seq.next_element()?` loop of a serde visitor: every iteration takes one element of the deserializer's
    input (the call dominates every latch) and the loop ends when the input does, or with its error"""
    cfg = ctx.cfgof(body)
    latches = [p for p in cfg.pred.get(lp.header, []) if p in lp.blocks]
    for bb in sorted(lp.blocks):
        t = body.block[bb]['term']
        if t['k'] == 'call' and callee_decl(t).startswith(('serde::de::SeqAccess::next_element', 'serde::de::MapAccess::next_')):
            if latches and all(cfg.dominates(bb, l) for l in latches):
                return 'one element of the deserializer\'s input per iteration (%s)' % callee_decl(t).split('::')[-1]
    return None


def _back_edges_pass(ctx, body, lp, dbb):
    """every path from the loop header back to the header passes block dbb"""
    cfg = ctx.cfgof(body)
    seen, work = set(), [s_ for s_ in cfg.succ.get(lp.header, []) if s_ in lp.blocks]
    while work:
        x = work.pop()
        if x in seen or x == dbb:
            continue
        seen.add(x)
        if x == lp.header:
            return False
        work.extend(s_ for s_ in cfg.succ.get(x, []) if s_ in lp.blocks)
    return True


def roots(ctx, rule):
    out = []
    for r in ROOTS:
        hits = [b for b in ctx.facts.find_fn(r)]
        if not hits:
            ctx.rep.anchor_missing(rule, '%s/root/%s' % (rule, r), 'entry point %s not found' % r)
        out.extend(hits)
    # every method of a serde visitor / deserialize impl is called by the format with untrusted input, whichever the crate's tests use
    for b in ctx.facts.fns():
        if (b.impl_trait or '').startswith(('serde::de::Visitor', 'serde::Deserialize', 'serde::de::DeserializeSeed')) and not b.is_closure and b not in out:
            out.append(b)
    return out


def run(ctx):
    rep = ctx.rep
    TYPES.clear()
    for b in ctx.facts.fns():
        for i in range(1, b.argc + 1):
            TYPES[(b.key, i)] = b.local_ty(i)
    rs = roots(ctx, 'R-C16-1')
    found, bodies = panics.check_panic_sites(ctx, 'R-C16-1', rs, floor=6, reviewed=dict(REVIEWED, **msm.REVIEW_PLACEHOLDER))
    keys = {b.key for b in bodies}

    # R-C16-2 recursion
    graph = {b.key: [c.key for _, c in ctx.facts.local_callees(b)] for b in bodies}
    cyc = find_cycle(graph)
    rep.check(cyc is None, 'R-C16-2', 'R-C16-2/acyclic', 'crate call graph reachable from the decode/verify entry points is acyclic (%d bodies)' % len(bodies),
              'recursion through %s' % (cyc,))

    # R-C16-3 loops
    from . import weights
    samplers = weights.rejection_samplers(ctx)
    nloops = 0
    for b in bodies:
        for h, lp in sorted(ctx.loops(b).items()):
            nloops += 1
            key = 'R-C16-3/%s/loop@%s' % (b.path, canon(lp.iter_term) if lp.iter_term is not None else 'nodriver')
            if b.path in samplers and samplers[b.path].get('exit_nonzero'):
                rep.ok('R-C16-3', key, 'tabled: rejection sampling (loop exits as soon as the draw is non-zero): terminates with probability 1, one expected iteration', ctx.where(b, h), nontrivial=False)
                continue
            if lp.driver_bb is None:
                why = cursor_loop(ctx, b, lp) or input_driven_loop(ctx, b, lp)
                if why:
                    rep.ok('R-C16-3', key, 'cursor loop: ' + why, ctx.where(b, h))
                else:
                    rep.violation('R-C16-3', key, 'loop without an iterator driver (while/loop) in code reachable from untrusted input', ctx.where(b, h))
                continue
            bad = unbounded(lp.iter_term)
            rep.check(not bad, 'R-C16-3', key, 'loop driven by Iterator::next over %s' % short(lp.iter_term, 160),
                      'loop driven by an unbounded iterator (%s) without a bounding adapter' % bad, ctx.where(b, lp.driver_bb))
    # a `for` loop rewritten as `iter.for_each(..)` / `try_for_each` / `fold` / .. is still an iteration site (it runs inside core, driven by
    # the same iterator): the positive control counts both forms
    consumers = ('for_each', 'try_for_each', 'fold', 'try_fold', 'sum', 'any', 'all', 'collect', 'extend', 'unzip', 'count', 'last')
    niter = sum(1 for b in bodies for bb, t in ctx.calls(b) if callee_decl(t).startswith('std::iter::') and callee_decl(t).split('::')[-1] in consumers)
    rep.floor('R-C16-3', 'iteration sites (loops + iterator consumers) in reachable set', nloops + niter, 15)
    rep.note('R-C16-3: %d MIR loops, %d iterator-consumer calls' % (nloops, niter))

    # R-C16-4 allocation sizes
    nalloc = 0
    for b in bodies:
        for bb, t in ctx.calls(b):
            d = callee_decl(t)
            if d not in ALLOC_DECLS:
                continue
            nalloc += 1
            a = ctx.args(b, bb)
            size = a[ALLOC_DECLS[d]] if ALLOC_DECLS[d] < len(a) else None
            if size is None:
                continue
            bad = data_dependent(size)
            if bad:
                # the discriminant of a crate enum obtained through its checked conversion is bounded by the enum's largest discriminant,
                # whatever byte it was decoded from
                s0 = size
                while s0.tag in ('cast', 'mut'):
                    s0 = s0[2] if s0.tag == 'cast' else s0[1]
                if s0.tag == 'discr':
                    import re as _re
                    for y in walk(s0[1]):
                        m_ = _re.match(r'^<(.+?) as std::convert::TryFrom<', y[1]) if y.tag == 'call' and isinstance(y[1], str) else None
                        adt_ = ctx.facts.adts.get(m_.group(1)) if m_ else None
                        if adt_ is not None and adt_['kind'] == 'Enum' and y[1].endswith('>::try_from'):
                            bad = False
            key = 'R-C16-4/%s/%s/%s' % (b.path, d.split('::')[-1], canon(size)[:100])
            rep.check(not bad, 'R-C16-4', key, 'allocation size %s derives from lengths / constants / bounded parameters' % short(size, 140),
                      'allocation size depends on input data values: %s' % short(size, 200), ctx.where(b, bb))
    rep.floor('R-C16-4', 'allocation sites', nalloc, 5)
    # .. and the validating constructors reserve no more than they are asked to hold: a reservation made once per party (inside a loop or a
    # closure mapped over `0..party_capacity`) whose size itself contains the party count is quadratic in a parameter that the caller may
    # legitimately make large (2^16 parties): the constructor aborts instead of returning an error
    from . import ilen
    ctor_roots = [b for n_ in ('RangeParameters::<P>::init', 'BulletproofGens::<P>::new', 'RangeStatement::<P>::init', 'RangeWitness::init')
                  for b in [ctx.fn(n_, required=False)] if b is not None]
    seen_b = set()
    for b in list(ctor_roots) + [x for r_ in ctor_roots for x in ctx.facts.reachable_from([r_])]:
        if b.key in seen_b:
            continue
        seen_b.add(b.key)
        for bb, t in ctx.calls(b):
            d = callee_decl(t)
            if d not in ALLOC_DECLS:
                continue
            a = ctx.args(b, bb)
            size = a[ALLOC_DECLS[d]] if ALLOC_DECLS[d] < len(a) else None
            if size is None:
                continue
            try:
                size_t = size
                if b.is_closure:
                    cs0 = ctx.closure_site(b)
                    if cs0 is not None:
                        # what the closure captured, in the vocabulary of the function that created it
                        env0 = {('upvar', b.key, j): ctx.eng.operand(cs0[0], cs0[1], cs0[2], o) for j, o in enumerate(cs0[3]['rv']['ops'])}
                        size_t = ctx.eng.subst(size, env0, ())
                total = ilen.ival(ctx.eng.expand(size_t))
                reps = []
                for lp in ctx.enclosing_loops(b, bb):
                    if lp.iter_term is not None:
                        reps.append(ilen.icount(lp.iter_term))
                fr = b
                hops = 0
                while fr.is_closure and hops < 3:
                    hops += 1
                    cs = ctx.closure_site(fr)
                    if cs is None or cs[3]['place']['p']:
                        break
                    itz = ctx.eng.applied_to(cs[0], cs[1], cs[3]['place']['l'])
                    if itz is not None:
                        reps.append(ilen.icount(itz))
                    for lp in ctx.enclosing_loops(cs[0], cs[1]):
                        if lp.iter_term is not None:
                            reps.append(ilen.icount(lp.iter_term))
                    fr = cs[0]
                for r_ in reps:
                    total = ilen.pmul(total, r_)
            except Exception:
                continue
            sq = sorted({a_ for mono, c_ in total.items() if c_ for a_ in mono if mono.count(a_) >= 2 and not a_.startswith('len(')})
            if reps and sq:
                rep.violation('R-C16-4', 'R-C16-4/%s/quadratic/%s' % (b.path, canon(size)[:80]),
                              'the reservation %s is made once per %s: in total it is quadratic in %s, a parameter the caller may make large' % (
                                  short(size, 80), ' x '.join(str(r_) for r_ in reps)[:80], ', '.join(x.split('.')[-1] for x in sq)), ctx.where(b, bb))

    # R-C16-5 MSM preconditions
    msm.check_verify_msm(ctx, 'R-C16-5')


def unbounded(it):
    """name of an unbounded source (repeat / open range) that is not bounded by take / zip with a finite partner"""
    def fin(t):
        k = t.tag
        if k == 'repeat':
            return False
        if k == 'range':
            return not (t[2].tag == 'const' and t[2][1] is None)
        if k == 'adapt':
            if t[1] in ('take',):
                return True
            if t[1] == 'cycle':
                return False
            return fin(t[2]) if len(t.args) > 1 else True
        if k == 'zip':
            return fin(t[1]) or fin(t[2])
        if k in ('chain', 'interleave'):
            return fin(t[1]) and fin(t[2])
        if k in ('map', 'enumerate', 'flatten', 'mut'):
            return fin(t[1])
        return True
    return None if fin(it) else 'repeat/open range'


def data_dependent(size):
    """does an allocation size depend on the *contents* of a byte slice / on proof scalars (rather than lengths)?"""
    def walk_values(t):
        # the length of anything is a length, whatever the thing holds: do not look inside `len(..)`
        stack = [t]
        while stack:
            y = stack.pop()
            yield y
            if y.tag == 'call' and y[1].split('::')[-1] in ('len', 'count', 'capacity') and len(y[2]) == 1:
                continue
            for a in y.args:
                if hasattr(a, 'tag'):
                    stack.append(a)
                elif isinstance(a, tuple):
                    stack.extend(z for z in a if hasattr(z, 'tag'))
    s0 = size
    while s0.tag in ('cast', 'mut', 'via'):
        s0 = s0[2] if s0.tag in ('cast', 'via') else s0[1]
    if s0.tag == 'call' and s0[1].split('::')[-1] in ('min',) and len(s0[2]) == 2 and any(y.tag == 'const' and isinstance(y[1], int) for y in s0[2]):
        return False            # capped by a constant, whatever the other side is
    for x in walk_values(size):
        if x.tag in ('elem', 'elemat'):
            # an element of a byte slice (decoded data), not an element of a slice of statements / proofs
            base = x[1]
            while base.tag in ('mut', 'adapt', 'elemat', 'elem', 'via') and base.tag != 'param':
                base = base[2] if base.tag in ('adapt', 'via') else base[1]
            if base.tag == 'param' and 'u8' in TYPES.get((base[1], base[2]), ''):
                return True
        if x.tag == 'call' and x[1].split('::')[-1] in ('from_le_bytes', 'from_be_bytes', 'read_u32', 'read_u64'):
            return True
        if x.tag == 'call' and x[1].startswith('serde::'):
            # what a deserializer reports about its input (`SeqAccess::size_hint`: the element count declared in the header) is input data
            return True
    return False


def find_cycle(graph):
    color = {}
    def dfs(u, stack):
        color[u] = 1
        for v in graph.get(u, []):
            if v not in graph:
                continue
            if color.get(v) == 1:
                return stack + [u, v]
            if color.get(v) is None:
                r = dfs(v, stack + [u])
                if r:
                    return r
        color[u] = 2
        return None
    for u in graph:
        if color.get(u) is None:
            r = dfs(u, [])
            if r:
                return r
    return None
