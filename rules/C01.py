"""C01 Completeness -- behaviour NOT decided; two structural necessary conditions are.

Completeness is the algebraic identity "the verifier's linear combination evaluated on the prover's output is the identity" over a
4-dimensional configuration lattice x 2^64 values x all field elements; no abstract domain in reach relates the prover's folded vectors to
the verifier's s recurrence without executing the loops symbolically (a different technique family).  Decided here:
R-C01-1  the closed-form aggregation sum is the doubling recurrence S <- S + S*T, T <- T*T from S0 = T0 = z^2, scaled by 2^bits - 1
         (conditional idiom rule; breaks honest verification from aggregation >= 8, which the suite never reaches)
R-C01-2  padding and table have one origin at both mixed MSMs (prover: the statement; verifier: the statement selected by the index
         returned from the consistency function, vectors sized by the length returned with it) -- breaks mixed-capacity configurations
R-C01-3  prover and verifier both build the range polynomial vector d with radix 2 (conditional idiom rule)
R-C01-5  (= R-C03-6) honest proofs verify in every batch order: the per-proof loop of the verifier carries no state between members
         other than the gate's accumulators, the result vector and the weight RNG
R-C01-7  (= R-C11-4/all-slots) every slot of the blinding-generator table receives a derived point: a slot left at its placeholder (the
         identity) makes the transcript refuse the generators of every extension degree that uses it
R-C01-8  a power of a challenge reached by repeated squaring is right for every round count: a chain that starts one squaring ahead and
         runs over `1..k` is wrong for k = 0 (bit length 1, one commitment) unless k >= 1 is established
R-C01-4  the prover refuses no valid witness: its witness-dependent rejections are exactly the five documented checks, with the right
         constants and quantifiers (= R-C06-1/2; an honest prover that is refused yields no accepted proof)
"""
from . import msm, recurrence, weights

LEVEL_TEXT = ('Static analysis; decides ONLY structural necessary conditions of completeness whose breakage makes honest proofs fail in configurations the '
              'test-suite never runs (aggregation >= 8; capacity > aggregation; mixed capacities in a batch): the closed-form aggregation recurrence '
              '(polynomial normal form) and the one-origin rule for precomputed table, padding and vector lengths. It does NOT decide completeness itself.'
              " Also runs C06's guard rules (an honest prover that is refused yields no accepted proof), the rule that the largest member sizes a batch "
              "whatever the order, and the rule that the verifier core rejects on lengths, decoding failures and the gate only (no test of its own on "
              "the content of a statement, such as the capacity of its parameters), and that every blinding-generator slot is filled.")
ASSUMPTIONS = ['induction recorded in DESIGN.md: T_i = z^(2*2^i), S_i = sum_{j=1..2^i} z^(2j)']
RULE_TEXT = 'one obligation per structural clause; non-trivial = decided from a normal form or argument term'


def _run(ctx):
    rep = ctx.rep
    g = weights.gate(ctx, 'R-C01-1')
    if g is not None:
        recurrence.check_aggregation_sum(ctx, 'R-C01-1', g[0])
        recurrence.check_constants(ctx, 'R-C01-3', g[0])
    p = ctx.fn('RangeProof::<P>::prove_with_rng', 'R-C01-2')
    if p is not None:
        msm.check_one_origin(ctx, 'R-C01-2', p, 'prover')
        recurrence.check_constants(ctx, 'R-C01-3', p)
    msm.check_verify_msm(ctx, 'R-C01-2')


def run(ctx):
    _run(ctx)
    from . import C06
    from .common import shared
    shared(ctx, C06.run, 'R-C06', 'R-C01-4')
    from . import C03
    shared(ctx, C03.per_member_independence, 'R-C03-6', 'R-C01-5')
    verifier_content_tests(ctx, 'R-C01-6')
    # R-C01-8: powers reached by repeated squaring are right for every round count, zero included
    for core in {b for b in (msm.verifier_core(ctx, 'R-C01-8'), ctx.fn('RangeProof::<P>::prove_with_rng', 'R-C01-8')) if b is not None}:
        recurrence.check_squaring_chains(ctx, 'R-C01-8', core)
    # R-C01-7: every blinding generator is a derived point (a slot left at the identity is refused by the transcript: no proof at that degree)
    from . import C11
    shared(ctx, C11.r4, 'R-C11-4', 'R-C01-7', only=('/all-slots',))


def _outside_len(sv):
    """what is left of an operand once every len(..) is taken out"""
    out, i = '', 0
    while i < len(sv):
        if sv.startswith('len(', i):
            d, j = 1, i + 4
            while j < len(sv) and d:
                d += sv[j] == '('
                d -= sv[j] == ')'
                j += 1
            i = j
            continue
        out += sv[i]
        i += 1
    return out


def verifier_content_tests(ctx, RULE):
    """The verifier core refuses on shapes (lengths against the bit length and the commitment count), on undecodable points, on the
    helpers' own failures, and at the gate.  A comparison of its own on the *content* of a statement or proof -- the capacity of the
    parameters, the presence of a seed, a promise, a commitment -- is a rejection no honest (statement, proof) pair may meet and none of
    the documented refusals (those live in the constructors and in the consistency function, which have their own tables): an honest proof
    verified under parameters of another capacity, or with a seed, must not be turned away by it."""
    from . import msm
    from .common import guard_table
    rep = ctx.rep
    core = msm.verifier_core(ctx, RULE)
    if core is None:
        return
    rows = guard_table(ctx, core)
    extra, n = [], 0
    for r in rows:
        if r['eff'] == 'bypass':
            continue
        for a in r['atoms']:
            if a[0] not in ('cmp', 'in', 'pred', 'unknown'):
                continue
            ops = [x for x in a[1:] if isinstance(x, str)] + [y for x in a[1:] if isinstance(x, tuple) for y in x if isinstance(y, str)]
            if any('vartime_mixed_multiscalar_mul' in o or 'vartime_multiscalar_mul' in o for o in ops):
                continue                    # the gate
            n += 1
            rest = [_outside_len(o).replace('.generators.bp_gens.gens_capacity', '#bits').replace('.generators.pc_gens.extension_degree', '#deg') for o in ops]
            # (`p2[..]#bits` is the bit length, a size; what remains of the statements / proofs parameters is content)
            import re as _re
            content = [o for o in rest if _re.search(r"(each\(p[23]\)|p[23]\[[^\]]*\])(?!#bits|#deg)", o) or 'party_capacity' in o or 'seed_nonce' in o]
            if content:
                extra.append((r, a))
    rep.floor(RULE, 'comparisons of the verifier core (besides the gate)', n, 2)
    rep.check(not extra, RULE, RULE + '/verifier/no-content-test', 'the verifier core compares lengths and sizes only (the gate aside): nothing in it turns away a statement for what it holds',
              'the verifier core also rejects on %s: an honest proof may be refused' % ([(a, list(r['ctx'])[:2]) for r, a in extra][:2],),
              ctx.where(core, extra[0][0]['guard'].bb) if extra else ctx.where(core))
