"""C15 Proof encoding (sibling agreement and parse discipline).

R-C15-1  the encoder writes and the decoder reads the same fields in the same order with the same element kind
R-C15-2  every scalar parsed from proof bytes goes through Scalar::from_canonical_bytes with None -> Err; no reducing parser anywhere
         on the decode path
R-C15-3  the decoder's Ok is dominated by: degree byte through ExtensionDegree::try_from(u8); non-empty L and R; no leftover tuple
         element; empty chunk remainder
R-C15-4  Serialize calls the encoder, Deserialize's visitor calls the decoder, and neither adds anything: the decoder is given the visitor's
         input as it is, the serializer emits the encoder's output as it is, none of the three serde functions has a rejection of its own
R-C15-5  contradiction rule: the decoder refuses an empty L/R vector, so every other construction site of the proof type must
         establish a non-empty one
"""
from bpsa.facts import callee_decl, callee_name
from bpsa.normal import canon
from bpsa.terms import walk, short, TERM_IDX, T
from .common import guard_table

LEVEL_TEXT = ('Static analysis (container-order model of the encoder, definition order and value terms of the decoder, guard normal forms, call graph). '
              'Decides that encoder and decoder agree on field order and element kinds, that scalars are parsed canonically, that the decoder\'s '
              'acceptance guards are present, that serde delegates to the byte codec without a rejection or a slice of its own, and that every construction site of a proof establishes what the '
              'decoder demands, and that no rejection on the decode path other than the canonical-scalar parser and the degree tag looks at the '
              'content of the bytes. Does not decide the exact acceptance set over all byte strings nor byte-for-byte round-trip equality.')
ASSUMPTIONS = ['Scalar::from_canonical_bytes rejects non-canonical encodings; FixedBytesRepr::{as,from}_fixed_bytes are mutually inverse',
               'chunks_exact / itertools::tuples consume their input sequentially']
RULE_TEXT = ('one obligation per encoded field position, per scalar parse site, per decoder guard, per serde delegate, per construction site of the proof '
             'type; non-trivial = decided from a value term or guard')

ORDER = ['extension_degree', 'd1', 'a', 'a1', 'b', 'r1', 's1', 'li', 'ri']
SCALARS = {'d1', 'r1', 's1'}
POINTS = {'a', 'a1', 'b', 'li', 'ri'}
REDUCING = ('from_bytes_mod_order', 'from_bits', 'from_bits_clamped', 'from_bytes_mod_order_wide', 'from_uniform_bytes', 'hash_from_bytes')


def _first_split(t):
    """the outermost `split_at(U, n).0` inside a parsed field's term: (split term, U) or None"""
    for x in walk(t):
        if x.tag == 'field' and x[1] == '0' and x[2].tag == 'adapt' and x[2][1] in ('split_at', 'split_at_checked') and len(x[2].args) >= 3:
            return x[2], x[2][2]
    return None


def _strip_mut(t):
    while t.tag == 'mut':
        t = t[1]
    return t


def _push_loop(ctx, dec, tl, tr):
    """(L pushed before R?, description) when li and ri are each filled by exactly one push inside one and the same loop of the decoder,
    None when they are built differently"""
    def one_push(t):
        if t.tag != 'mut':
            return None
        ps = [e for e in t[2] if e.tag == 'ev' and e[2].endswith('::push') and e[3] and e[4]]
        others = [e for e in t[2] if e.tag == 'ev' and not e[2].endswith('::push') and e[2].split('::')[-1] not in ('reserve', 'with_capacity')]
        if len(ps) != 1 or others or len(ps[0][4]) != 1 or ps[0][4][0][0] != dec.key:
            return None
        return ps[0][4][0][1]
    bl, br = one_push(tl), one_push(tr)
    if bl is None or br is None:
        return None
    cfg = ctx.cfgof(dec)
    hl, hr = cfg.loop_of.get(bl, []), cfg.loop_of.get(br, [])
    if not hl or hl != hr:
        return None
    if cfg.dominates(bl, br) and bl != br:
        return True, 'push of L at bb%d dominates push of R at bb%d' % (bl, br)
    if cfg.dominates(br, bl) and bl != br:
        return False, 'push of R at bb%d dominates push of L at bb%d' % (br, bl)
    return None


def cursor_order(ctx, terms):
    """(True/False/None, explanation): in a decoder of the form `x = rest.split_at(n).0; rest = rest.split_at(n).1; ..` every field is
    the head of what the previous field left: the nesting of the split terms *is* the order.  None when the terms are not of that form."""
    fixed = ['a', 'a1', 'b', 'r1', 's1']
    splits = {}
    pair_form = None
    for f in fixed + ['li', 'ri']:
        t = terms.get(f)
        if t is None:
            return None, 'field %s missing' % f
        if f in ('li', 'ri'):
            # element pushed per iteration
            pushed = [e[3][0] for e in (t[2] if t.tag == 'mut' else ()) if e.tag == 'ev' and e[2].endswith('::push') and e[3]]
            if len(pushed) != 1:
                return None, '%s is not filled by one push' % f
            t = pushed[0]
        fs = _first_split(t)
        if fs is None:
            return None, 'no split_at head in %s' % f
        if f == 'ri' and 'li' in splits and any(x is T('field', '1', splits['li'][0]) for x in walk(t)):
            # R is the remainder of the pair L was cut from: (L, R) = pair.split_at(32) with pair = rest.split_at(64).0
            pair = _strip_mut(splits['li'][1])
            if pair.tag == 'field' and pair[1] == '0' and pair[2].tag == 'adapt' and pair[2][1] in ('split_at', 'split_at_checked') and len(pair[2].args) >= 3:
                if canon(pair[2][3]) not in ('64', '(2 Mul 32)', '(32 Mul 2)', '(32 Add 32)'):
                    return False, 'an (L, R) pair is cut with size %s' % canon(pair[2][3])
                pair_form = pair[2]
                splits[f] = (splits['li'][0], splits['li'][1])
                continue
            return None, 'R is the tail of the slice L was cut from, which is not itself a 64-byte head of the cursor'
        if canon(fs[0][3]) != '32':
            return False, 'field %s is cut with size %s' % (f, canon(fs[0][3]))
        splits[f] = fs
    # a1 is the head of a's tail, b of a1's, ..
    for prev, cur in zip(fixed, fixed[1:]):
        want = T('field', '1', splits[prev][0])
        src_ = _strip_mut(splits[cur][1])
        if src_.tag == 'phi' and any(_strip_mut(y) is want for y in src_.args):
            return None, 'the cursor is advanced conditionally (%s is read from the advanced or the unadvanced cursor)' % cur
        if src_ is not want:
            return False, 'field %s is not read from what %s left (it is read from %s)' % (cur, prev, short(splits[cur][1], 80))
    # within one iteration R is the head of L's tail, and the loop starts with what s1 left
    if pair_form is not None:
        # .. or L and R are the two halves of one 64-byte head of the cursor, and the loop continues from that head's tail
        lv = _strip_mut(pair_form[2])
        left = pair_form
    else:
        if _strip_mut(splits['ri'][1]) is not T('field', '1', splits['li'][0]):
            return False, 'R is not read from what L left'
        lv = _strip_mut(splits['li'][1])
        left = splits['ri'][0]
    if lv.tag != 'lv':
        return None, 'L/R are not read in a loop over the cursor'
    inits = [_strip_mut(y) for y in ctx.eng.lv_defs(lv)]
    if not any(y is T('field', '1', splits['s1'][0]) for y in inits):
        return None, 'the L/R loop does not visibly start from what s1 left'
    if not any(y is T('field', '1', left) for y in inits):
        return False, 'the L/R loop does not continue from what R left'
    # d1 precedes a: a's source is the slice after the tag, advanced by the d1 closure
    ua = splits['a'][1]
    base = _strip_mut(ua)
    after_tag = canon(base) in ('p1[range(1,None)]', 'split_at(p1,1).1') or (base.tag == 'field' and base[1] == '1' and canon(base[2]).startswith('split_at(p1,1'))
    advanced = ua.tag == 'mut' and any(e.tag == 'ev' and e[1] == 'store' for e in ua[2])
    d1 = terms.get('d1')
    d1_from = d1 is not None and any(x is base for x in walk(d1))
    if not (after_tag and advanced and d1_from):
        return None, 'd1 / tag prefix not in the recognised form (after tag: %s, advanced by d1: %s)' % (after_tag, advanced and d1_from)
    return True, 'tag, d1, then a, a1, b, r1, s1 and (L, R) pairs are each cut from what the previous one left (32 bytes each)'


def run(ctx, with_contradiction=True):
    rep = ctx.rep
    enc = ctx.fn('RangeProof::<P>::to_bytes', 'R-C15-1')
    dec = ctx.fn('RangeProof::<P>::from_bytes', 'R-C15-1')
    if enc is None or dec is None:
        return
    # ---- encoder order
    ix = ctx.eng.bx(enc)
    cfg = ctx.cfgof(enc)
    pos = {b: i for i, b in enumerate(cfg.rpo)}
    bufs = [l for l in range(enc.argc + 1, len(enc.locals)) if enc.local_ty(l) == 'std::vec::Vec<u8>' and ix.events_on(('L', l)) and enc.local_name(l)]
    if len(bufs) != 1:
        rep.anchor_missing('R-C15-1', 'R-C15-1/encoder/buffer', 'cannot identify the output buffer of the encoder (%d candidates)' % len(bufs))
        return
    evs = sorted(ix.events_on(('L', bufs[0])), key=lambda e: pos.get(e['bb'], 1 << 30))
    enc_seq = []
    from bpsa.terms import mk_elem
    expanded = []
    for e in evs:
        t = ctx.eng.event_term(enc, e)
        inner = t
        if e['kind'] == 'closure':
            pass
        arg = t[3][0] if t.tag == 'ev' and t[3] else None
        if arg is not None and e['decl'].split('::')[-1] in ('extend', 'extend_from_slice', 'append'):
            # what is appended, piece by piece and element by element: `extend(xs.iter().flat_map(|x| x.as_bytes()))`,
            # `extend([a, b, c].iter().flat_map(..))`, `extend(a.iter().chain(b).chain(c).copied())`,
            # `extend(ls.iter().zip(rs).flat_map(|(l, r)| l.bytes().iter().chain(r.bytes()).copied()))`
            def pieces(x, each, depth=0):
                x0 = x
                while x0.tag == 'mut':
                    x0 = x0[1]
                if depth > 12:
                    return [(x0, each)]
                if x0.tag == 'adapt' and x0[1] in ('copied', 'cloned', 'iter', 'into_iter', 'by_ref') and len(x0.args) >= 3:
                    return pieces(x0[2], each, depth + 1)
                if x0.tag == 'chain':
                    return pieces(x0[1], each, depth + 1) + pieces(x0[2], each, depth + 1)
                if x0.tag == 'flatten':
                    inner = x0[1]
                    while inner.tag == 'mut':
                        inner = inner[1]
                    if inner.tag == 'map':
                        src = inner[1]
                        s1 = src
                        while s1.tag == 'mut' or (s1.tag == 'adapt' and s1[1] in ('iter', 'into_iter', 'copied', 'cloned') and len(s1.args) >= 3):
                            s1 = s1[1] if s1.tag == 'mut' else s1[2]
                        if s1.tag == 'array':
                            out_ = []
                            for it_ in s1.args:
                                out_ += pieces(ctx.eng.apply(inner[2], (it_,)), each, depth + 1)
                            return out_
                        return pieces(ctx.eng.apply(inner[2], (mk_elem(ctx.eng, src),)), True, depth + 1)
                    return pieces(mk_elem(ctx.eng, inner), True, depth + 1)
                if x0.tag == 'map':
                    return pieces(ctx.eng.apply(x0[2], (mk_elem(ctx.eng, x0[1]),)), True, depth + 1)
                return [(x0, each)]
            ps = pieces(arg, None)
            if len(ps) > 1 or (ps and ps[0][1]):
                for (v, each_) in ps:
                    el = v
                    while el.tag == 'elem' and el[1].tag in ('call',):
                        el = el[1]          # the bytes of one encoded element, not one byte of it
                    expanded.append((e, T('ev', 'call', e['decl'], (el,), t[4]), each_))
                continue
        expanded.append((e, t, None))
    for e, t, forced_each in expanded:
        fs = [x[1] for x in walk(t) if x.tag == 'field' and x[2].tag == 'param']
        kind = 'scalar' if any(x.tag == 'call' and x[1].endswith('Scalar::as_bytes') for x in walk(t)) else \
               'point' if any(x.tag == 'call' and x[1].endswith('as_fixed_bytes') for x in walk(t)) else \
               'byte' if any(x.tag == 'call' and x[1].endswith('to_le_bytes') for x in walk(t)) or \
               (e['decl'].endswith('::push') and any(x.tag == 'cast' and 'u8' in [y for y in x.args if isinstance(y, str)] for x in walk(t))) else '?'
        each = any(x.tag == 'elem' for x in walk(t)) if forced_each is None else (forced_each or any(x.tag == 'elem' for x in walk(t)))
        ads = ctx.adapters(t)
        enc_seq.append((fs[0] if len(fs) == 1 else tuple(fs), kind, each, tuple(ads), e))
    want_enc = [('extension_degree', 'byte', False), ('d1', 'scalar', True), ('a', 'point', False), ('a1', 'point', False), ('b', 'point', False),
                ('r1', 'scalar', False), ('s1', 'scalar', False), ('li', 'point', True), ('ri', 'point', True)]
    got_enc = [(f, k, each) for f, k, each, ads, e in enc_seq]
    for i, w in enumerate(want_enc):
        g = got_enc[i] if i < len(got_enc) else None
        e = enc_seq[i][4] if i < len(enc_seq) else None
        good = g == w and not enc_seq[i][3]
        rep.check(good, 'R-C15-1', 'R-C15-1/encoder/%d-%s' % (i, w[0]), 'encoder position %d writes %s as %s%s' % (i, w[0], w[1], ' (every element)' if w[2] else ''),
                  'encoder position %d writes %s, expected %s%s' % (i, g, w, ' through %s' % list(enc_seq[i][3]) if g and enc_seq[i][3] else ''),
                  ctx.where(enc, e['bb']) if e else ctx.where(enc))
    rep.check(len(got_enc) == len(want_enc), 'R-C15-1', 'R-C15-1/encoder/count', 'the encoder writes exactly %d field groups' % len(want_enc),
              'the encoder writes %d field groups, expected %d' % (len(got_enc), len(want_enc)), ctx.where(enc))
    # li / ri interleaved in one loop, l before r
    if len(enc_seq) >= 9:
        l_e, r_e = enc_seq[7][4], enc_seq[8][4]
        same_loop = tuple(cfg.loop_of.get(l_e['bb'], [])) == tuple(cfg.loop_of.get(r_e['bb'], [])) and cfg.loop_of.get(l_e['bb'])
        follows = ctx.must_follow(enc, l_e['bb'], r_e['bb'])
        if l_e['kind'] == 'closure' and r_e['kind'] == 'closure' and l_e['cbody'].key == r_e['cbody'].key and l_e['bb'] == r_e['bb']:
            # both written by one closure applied to each (l, r) pair (`izip!(li, ri).for_each(|(l, r)| ..)`): order inside the closure
            same_loop = True
            follows = ctx.must_follow(l_e['cbody'], l_e['inner']['bb'], r_e['inner']['bb'])
        if l_e is r_e and enc_seq[7][2] and enc_seq[8][2]:
            # two pieces of one per-element expansion (`flat_map(|(l, r)| l.bytes().chain(r.bytes()))`): written pairwise, in that order
            same_loop, follows = True, True
        rep.check(bool(same_loop) and follows, 'R-C15-1', 'R-C15-1/encoder/interleaved', 'L and R are written pairwise (L then R) in one loop',
                  'L and R are not written pairwise in one loop', ctx.where(enc, l_e['bb']))

    # ---- decoder: the aggregate, definition order of its operands, kinds
    dix = ctx.eng.bx(dec)
    dcfg = ctx.cfgof(dec)
    dpos = {b: i for i, b in enumerate(dcfg.rpo)}
    agg = None
    for b in dec.blocks:
        if b['cleanup']:
            continue
        for si, s in enumerate(b['stmts']):
            if s['k'] == 'assign' and s['rv']['k'] == 'aggregate' and s['rv']['kind'].get('path') == 'range_proof::RangeProof':
                agg = (b['i'], si, s)
    if agg is None:
        rep.anchor_missing('R-C15-1', 'R-C15-1/decoder/aggregate', 'the decoder does not construct a RangeProof aggregate')
        return
    abb, asi, ast = agg
    fields = ast['rv']['kind']['fields']
    order = []
    terms = {}
    for f, o in zip(fields, ast['rv']['ops']):
        terms[f] = ctx.eng.operand(dec, abb, asi, o)
        l = o['place']['l'] if o['k'] in ('move', 'copy') else None
        dbb = None
        hops = 0
        while l is not None and hops < 6:
            ds = dix.defs.get(l, [])
            if not ds:
                break
            d = ds[0]
            dbb = d[0]
            if d[2] == 'assign' and d[3]['rv']['k'] == 'use' and d[3]['rv']['op']['k'] in ('move', 'copy'):
                l = d[3]['rv']['op']['place']['l']
                hops += 1
            else:
                break
        order.append((dpos.get(dbb, 1 << 30), f))
    dec_order = [f for _, f in sorted(order)]
    # li and ri come from the same unzip: keep their relative order by tuple component
    def comp(t):
        # (components of a decoded pair the value is taken from, the pair sources)
        fs = [x for x in walk(t) if x.tag == 'field' and x[1] in ('0', '1') and x[2].tag != 'field']
        return sorted({x[1] for x in fs}), {x[2].id for x in fs}
    cursor_style0 = not any(x.tag == 'adapt' and x[1] == 'chunks_exact' for t_ in terms.values() for x in walk(t_)) and \
        any(x.tag == 'adapt' and x[1] in ('split_at', 'split_at_checked', 'split_first') for t_ in terms.values() for x in walk(t_))
    if 'li' in terms and 'ri' in terms and cursor_style0:
        dec_order = [f for f in dec_order if f not in ('li', 'ri')] + ['li', 'ri']
    elif 'li' in terms and 'ri' in terms and _push_loop(ctx, dec, terms['li'], terms['ri']) is not None:
        # both vectors are filled by one push each per iteration of one loop, each push taking the next element of the chunk iterator:
        # the order of the two pushes in the loop body is the order in which L and R are read
        l_first, why = _push_loop(ctx, dec, terms['li'], terms['ri'])
        rep.check(l_first, 'R-C15-1', 'R-C15-1/decoder/unzip', 'L is read before R in every iteration of the loop that fills both (%s)' % why,
                  'the loop that fills L and R reads R first (%s)' % why, ctx.where(dec, abb))
        dec_order = [f for f in dec_order if f not in ('li', 'ri')] + ['li', 'ri']
        # .. and the loop reads every whole pair that is left: a counted loop whose count is capped (`min`, `take`, `clamp`) stops early on
        # a long input, and what it leaves behind is accepted or dropped depending on where the leftover test looks
        pev = [e for e in terms['li'][2] if e.tag == 'ev' and e[2].endswith('::push') and e[4]] if terms['li'].tag == 'mut' else []
        lps_ = ctx.enclosing_loops(dec, pev[0][4][0][1]) if pev else []
        it_ = lps_[-1].iter_term if lps_ else None
        rng_ = getattr(lps_[-1], 'index_range', None) if lps_ else None
        bound = rng_ if rng_ is not None else it_
        caps = sorted({x[1].split('::')[-1] for x in walk(bound) if x.tag == 'call' and x[1].split('::')[-1] in ('min', 'clamp')} |
                      {x[1] for x in walk(bound) if x.tag == 'adapt' and x[1] in ('take', 'take_while', 'step_by')}) if bound is not None else []
        rep.check(not caps, 'R-C15-1', 'R-C15-1/decoder/all-pairs', 'the loop that reads the (L, R) pairs is not capped: it reads every whole pair that remains',
                  'the loop that reads the (L, R) pairs is capped by %s (%s): on a longer input the pairs beyond the cap are not read, and the decoded proof is not the byte string' % (
                      ', '.join(caps), short(bound, 100) if bound is not None else None), ctx.where(dec, abb))
    elif 'li' in terms and 'ri' in terms:
        (ci, bi), (cr, br) = comp(terms['li']), comp(terms['ri'])
        rep.check(ci == ['0'] and cr == ['1'] and bi == br and len(bi) == 1, 'R-C15-1', 'R-C15-1/decoder/unzip', 'L is the first and R the second component of each decoded pair',
                  'decoded pairs are assigned li <- .%s, ri <- .%s' % (ci, cr), ctx.where(dec, abb))
        dec_order = [f for f in dec_order if f not in ('li', 'ri')] + ['li', 'ri']
    # a decoder that walks the bytes with a hand-written cursor (`rest = rest.split_at(n).1`) instead of chunks_exact: the order in
    # which the fields are cut off is a property of the sequence of cursor updates, which this rule does not reconstruct -- not decided
    cursor_style = not any(x.tag == 'adapt' and x[1] == 'chunks_exact' for t_ in terms.values() for x in walk(t_)) and \
        any(x.tag == 'adapt' and x[1] in ('split_at', 'split_at_checked', 'split_first') for t_ in terms.values() for x in walk(t_))
    if cursor_style:
        verdict, why = cursor_order(ctx, terms)
        if verdict is None:
            rep.idiom_absent('R-C15-1', 'R-C15-1/decoder/order', 'the decoder uses a hand-written split_at cursor whose chain of updates is not in the recognised form (%s): field order not decided by this rule (encoder order, parsers, guards and serde delegation are)' % why)
        else:
            rep.check(verdict, 'R-C15-1', 'R-C15-1/decoder/order', 'cursor decoder: ' + why, 'cursor decoder: ' + why, ctx.where(dec, abb))
    else:
        rep.check(dec_order == ORDER, 'R-C15-1', 'R-C15-1/decoder/order', 'decoder reads the fields in the order %s' % ORDER,
                  'decoder reads the fields in the order %s, the encoder writes %s' % (dec_order, ORDER), ctx.where(dec, abb))
    src_ok = True
    for f in ORDER:
        t = terms.get(f)
        if t is None:
            rep.violation('R-C15-1', 'R-C15-1/decoder/field/%s' % f, 'decoder does not set field %s' % f, ctx.where(dec, abb))
            continue
        t = ctx.eng.expand(t)
        calls = {x[1].split('::')[-1] for x in walk(t) if x.tag == 'call'}
        for x in walk(t):
            # helpers that were not expanded (e.g. recursion guard): everything they can reach
            if x.tag == 'call' and x[1] in ctx.facts.fn:
                for cb in [ctx.facts.fn[x[1]]] + list(ctx.facts.reachable_from([ctx.facts.fn[x[1]]])):
                    calls |= {callee_decl(tt).split('::')[-1] for _, tt in ctx.calls(cb)}
        # closures applied lazily (map ... collect): look into their bodies
        for x in walk(t):
            if x.tag == 'closure' and x[1] in ctx.facts.fn:
                for cb in [ctx.facts.fn[x[1]]] + [c for c in ctx.facts.reachable_from([ctx.facts.fn[x[1]]])]:
                    calls |= {callee_decl(tt).split('::')[-1] for _, tt in ctx.calls(cb)}
                for cap in x[2]:
                    for y in walk(cap):
                        if y.tag == 'closure' and y[1] in ctx.facts.fn:
                            calls |= {callee_decl(tt).split('::')[-1] for _, tt in ctx.calls(ctx.facts.fn[y[1]])}
        if f in SCALARS:
            good = 'from_canonical_bytes' in calls and not (calls & set(REDUCING))
            rep.check(good, 'R-C15-2', 'R-C15-2/decoder/%s' % f, 'scalar field %s is parsed with from_canonical_bytes' % f,
                      'scalar field %s is parsed through %s' % (f, sorted(calls & (set(REDUCING) | {'from_canonical_bytes'})) or 'no canonical parser'), ctx.where(dec, abb))
        elif f in POINTS:
            rep.check('from_fixed_bytes' in calls, 'R-C15-1', 'R-C15-1/decoder/%s' % f, 'point field %s is read with from_fixed_bytes' % f,
                      'point field %s is not read with from_fixed_bytes (%s)' % (f, sorted(calls)[:6]), ctx.where(dec, abb))
        else:
            # (the usize conversion is the u8 one after a checked narrowing: R-C17-1)
            good = any(x.tag == 'call' and 'ExtensionDegree as std::convert::TryFrom<u' in x[1] and x[1].endswith('>::try_from') for x in walk(t)) and any(x.tag == 'elemat' and x[2].tag == 'const' and x[2][1] in ('first', 0) for x in walk(t))
            rep.check(good, 'R-C15-3', 'R-C15-3/decoder/degree-byte', 'the degree tag is ExtensionDegree::try_from(first byte)',
                      'the degree tag is %s' % short(t, 120), ctx.where(dec, abb))
        # all parsed elements come from the same chunk iterator over the bytes after the tag
        if f != 'extension_degree':
            its = [x for x in walk(t) if x.tag == 'adapt' and x[1] == 'chunks_exact']
            src_ok = src_ok and len({x.id for x in its}) == 1
    if cursor_style:
        roots_ = {x[2] for t_ in terms.values() for x in walk(t_) if x.tag == 'param'}
        rep.check(roots_ == {1}, 'R-C15-1', 'R-C15-1/decoder/one-cursor', 'every field is cut out of the one input slice (hand-written cursor)',
                  'fields are parsed from %s' % sorted(roots_), ctx.where(dec))
    else:
        rep.check(src_ok, 'R-C15-1', 'R-C15-1/decoder/one-cursor', 'all elements are taken from one sequential chunks_exact cursor over the bytes after the tag',
                  'fields are parsed from different cursors', ctx.where(dec))
    # d1 count is the decoded degree
    d1 = terms.get('d1')
    if d1 is not None:
        rng = [x for x in walk(d1) if x.tag == 'range' and x[1].tag == 'const' and x[1][1] == 0]
        if not rng:
            # filled by a push in a counting loop (`for _ in 0..degree { d1.push(parse(..)?) }`): the range is the loop's
            from bpsa.terms import ev_site
            for ev_ in [x for x in walk(d1) if x.tag == 'ev' and x[1] == 'call' and x[2].endswith('::push')]:
                bkey_, ebb_ = ev_site(ev_)
                eb_ = ctx.facts.by_key.get(bkey_)
                if eb_ is None:
                    continue
                for lp_ in ctx.enclosing_loops(eb_, ebb_):
                    it_ = getattr(lp_, 'index_range', None) or lp_.iter_term
                    while it_ is not None and it_.tag == 'mut':
                        it_ = it_[1]
                    if it_ is not None and it_.tag == 'range' and lp_.driver_only_exit and ctx.every_iteration(eb_, lp_, ebb_):
                        rng.append(it_)
        good = bool(rng) and rng[0][1].tag == 'const' and rng[0][1][1] == 0 and any(y is terms.get('extension_degree') or y is ctx.eng.expand(terms.get('extension_degree')) for y in walk(rng[0][2]))
        rep.check(good, 'R-C15-1', 'R-C15-1/decoder/d1-count', 'exactly `degree` scalars are read into d1 (0..degree)', 'd1 is read %s times' % (short(rng[0], 100) if rng else '?'), ctx.where(dec))

    # ---- R-C15-2 the canonical parser rejects (None -> Err) and no reducing parser on the decode path
    reach = ctx.facts.reachable_from([dec])
    ncanon = 0
    for b in reach:
        rep.saw_body(b)
        for bb, t in ctx.calls(b):
            nm = callee_decl(t).split('::')[-1]
            if nm == 'from_canonical_bytes':
                ncanon += 1
                # its result must be turned into an error when None
                res = ctx.result(b, bb)
                gd = [g for g in ctx.guards(b) if any(x is res or (x.tag == 'call' and x[1].endswith('from_canonical_bytes')) for x in walk(g.cond))]
                rt = ctx.eng.return_term(b)
                via_okor = any(callee_decl(t2).split('::')[-1] in ('ok_or', 'ok_or_else') for _, t2 in ctx.calls(b))
                rep.check(bool(gd) or via_okor, 'R-C15-2', 'R-C15-2/%s/none-is-error' % b.path, 'a non-canonical scalar (None) is converted into an error',
                          'the result of from_canonical_bytes is not checked', ctx.where(b, bb))
            elif nm in REDUCING and 'Scalar' in callee_name(t):
                rep.violation('R-C15-2', 'R-C15-2/%s/%s' % (b.path, nm), 'reducing scalar parser %s on the decode path' % callee_name(t), ctx.where(b, bb))
    rep.floor('R-C15-2', 'from_canonical_bytes call sites on the decode path', ncanon, 1)

    # ---- R-C15-3 the acceptance set is exact: on the decode path, the only rejection that looks at the *content* of the bytes is
    # from_canonical_bytes (and the degree tag, whose domain has its own rule); every other test is about lengths and presence
    def _content(sv):
        # what is left of an operand once every len(..) is taken out: a mention of input data there is a test of content
        out, depth, i = '', 0, 0
        while i < len(sv):
            if sv.startswith('len(', i) and depth == 0:
                d, j = 1, i + 4
                while j < len(sv) and d:
                    d += sv[j] == '('
                    d -= sv[j] == ')'
                    j += 1
                i = j
                continue
            out += sv[i]
            i += 1
        return out
    extra_rej = []
    for b in reach:
        if b.impl_trait and 'TryFrom' in b.impl_trait:
            continue            # ExtensionDegree::try_from: R-C15-3/degree-domain
        if b.key != dec.key and not b.is_closure and not b.path.startswith(dec.path.rsplit('::', 1)[0]):
            continue            # library-side helpers of other types are not part of the decoder
        try:
            rws = guard_table(ctx, b)
        except Exception:
            continue
        for r_ in rws:
            if r_['eff'] == 'bypass' or r_['parent'] is not None:
                continue
            for a_ in r_['atoms']:
                if a_[0] in ('cmp', 'in', 'unknown', 'pred'):
                    ops = [x for x in a_[1:] if isinstance(x, str)] + [y for x in a_[1:] if isinstance(x, tuple) for y in x if isinstance(y, str)]
                    data = [o for o in ops if any(m in _content(o) for m in ('each(', 'p1', 'p2', 'p3', 'upvar', '['))]
                    if data and a_[0] != 'pred' or (a_[0] == 'pred' and data and a_[1] not in ('is_empty',)):
                        extra_rej.append((b, r_, a_))
    rep.check(not extra_rej, 'R-C15-3', 'R-C15-3/no-other-content-test', 'no rejection on the decode path looks at the content of the bytes other than the canonical-scalar parser and the degree tag',
              'the decoder also rejects on %s: a canonical encoding may be refused' % ([a_ for _, _, a_ in extra_rej][:3],),
              ctx.where(extra_rej[0][0], extra_rej[0][1]['guard'].bb) if extra_rej else ctx.where(dec))

    # ---- R-C15-3 decoder guards
    rows = guard_table(ctx, dec, deep=True, expand=True)
    # (code after a `while remaining.len() >= n {..}` loop runs under that loop's exit condition: a condition on the remaining length
    # is not a restriction of the inputs the guard applies to)
    def ctx_ok(r):
        return all(x[0] == 'cmp' and 'len(' in (x[2] + x[3]) for x in r['ctx'])
    atoms = [(a, r) for r in rows for a in r['atoms'] if r['eff'] != 'bypass' and ctx_ok(r)]
    def find(pred):
        return [r for a, r in atoms if pred(a)]
    g1 = find(lambda a: a[0] == 'succ' and 'try_from(' in a[1] and ("'first'" in a[1] or '[0]' in a[1]) and 'p1' in a[1])
    rep.check(bool(g1), 'R-C15-3', 'R-C15-3/degree-valid', 'an invalid degree byte is rejected', 'no guard rejects an invalid degree byte', ctx.where(dec))
    ne = find(lambda a: a[0] == 'cmp' and a[1] == 'Le' and a[2] == '1' and a[3].startswith('len('))
    rep.check(len(ne) >= 2, 'R-C15-3', 'R-C15-3/non-empty-LR', 'empty L / R vectors are rejected (%d guards)' % len(ne), 'only %d non-emptiness guards on L / R' % len(ne), ctx.where(dec))
    # the leftover buffer is empty: `len() == 0`, `is_empty()`, or `next().is_none()` on it
    # (the remainder is *empty*: len(remainder) == 0, in either order of the operands, or remainder.next() is None -- not any test that mentions it)
    def _empty_test(a, what):
        if a[0] == 'cmp' and a[1] in ('Eq', 'Le'):
            x, y = a[2], a[3]
            if a[1] == 'Eq' and ((x == '0' and y.startswith('len(%s(' % what)) or (y == '0' and x.startswith('len(%s(' % what))):
                return True
            if a[1] == 'Le' and y == '0' and x.startswith('len(%s(' % what):
                return True
        return a[0] == 'fail' and a[1].startswith('each(%s(' % what)
    lo = find(lambda a: _empty_test(a, 'into_buffer'))
    rm = find(lambda a: _empty_test(a, 'remainder'))
    if not lo:
        # .. or the pairs are taken by hand and a flag remembers an element whose partner is missing: under "the partner's next() is None"
        # (inside the loop over the chunks) the decoder always rejects
        lo = [r for r in rows if r['eff'] != 'bypass' and r['atoms'] == [('const', False)] and
              any(x[0] == 'fail' and x[1].startswith('each(chunks_exact(') for x in r['ctx']) and
              all(x[0] in ('fail', 'forall', 'succ') and 'chunks_exact(' in x[1] for x in r['ctx'])]
    if not lo:
        # .. or the number of whole elements left for the L/R pairs is required to be even: `chunks.len() % 2 == 0`
        import re as _re
        lo = find(lambda a: a[0] == 'cmp' and a[1] == 'Eq' and '0' in (a[2], a[3]) and any(_re.match(r'^\(len\(chunks_exact\(.*\)\) Rem 2\)$', x) for x in (a[2], a[3])))
    if cursor_style and not lo and not rm:
        # one test covers both: whatever the cursor has not consumed must be empty
        ex = [r for a, r in atoms if a[0] == 'cmp' and a[1] == 'Eq' and a[2] == '0' and a[3].startswith('len(') and r['eff'] != 'bypass' and
              any(x.tag in ('lv', 'adapt') for x in walk(r['guard'].cond))]
        lo = rm = ex
    rep.check(bool(lo), 'R-C15-3', 'R-C15-3/no-leftover-element', 'a leftover single element after the L/R pairs is rejected', 'no guard on the tuple iterator\'s leftover buffer', ctx.where(dec))
    rep.check(bool(rm), 'R-C15-3', 'R-C15-3/no-trailing-bytes', 'trailing bytes that do not fill an element are rejected', 'no guard on the chunk remainder', ctx.where(dec))
    tf = ctx.fn('TryFrom<u8>>::try_from', 'R-C15-3', required=False)
    if tf is not None:
        t = guard_table(ctx, tf)
        good = any(a == ('in', 'p1', ('1', '2', '3', '4', '5', '6')) for r in t for a in r['atoms'])
        if not good:
            from . import C17
            dt_ = C17.degree_table(ctx)
            if dt_ is not None and tf in (dt_['fn'], dt_['other']):
                good = sorted(dt_['map']) == [1, 2, 3, 4, 5, 6]          # the conversion as a table lookup
        rep.check(good, 'R-C15-3', 'R-C15-3/degree-domain', 'ExtensionDegree::try_from(u8) accepts exactly 1..=6', 'ExtensionDegree::try_from(u8) accepts %s' % [r['atoms'] for r in t], ctx.where(tf))

    # ---- R-C15-4 serde delegates
    ser = [b for b in ctx.facts.fns() if b.impl_trait == 'serde::Serialize' and 'RangeProof' in (b.impl_self or '')]
    vis = [b for b in ctx.facts.fns() if b.path.endswith('::visit_bytes')]
    de = [b for b in ctx.facts.fns() if b.impl_trait == 'serde::Deserialize' and 'RangeProof' in (b.impl_self or '') and b.path.endswith('::deserialize')]
    rep.check(bool(ser) and any(callee_name(t) == enc.path for _, t in ctx.calls(ser[0])) and any(callee_decl(t).endswith('serialize_bytes') for _, t in ctx.calls(ser[0])),
              'R-C15-4', 'R-C15-4/serialize', 'Serialize emits serialize_bytes(to_bytes())', 'Serialize does not delegate to the byte encoder', ctx.where(ser[0]) if ser else None)
    rep.check(bool(vis) and any(callee_name(t) == dec.path for _, t in ctx.calls(vis[0])), 'R-C15-4', 'R-C15-4/visit_bytes', 'the visitor\'s visit_bytes calls from_bytes',
              'visit_bytes does not delegate to the byte decoder', ctx.where(vis[0]) if vis else None)
    rep.check(bool(de) and any(callee_decl(t).endswith('deserialize_bytes') for _, t in ctx.calls(de[0])), 'R-C15-4', 'R-C15-4/deserialize', 'Deserialize requests bytes (deserialize_bytes)',
              'Deserialize does not request bytes', ctx.where(de[0]) if de else None)

    # .. and they add nothing of their own: the acceptance set of the serde form is that of the byte form only if the visitor hands the
    # decoder the very bytes it was given and has no rejection besides the decoder's, and the serializer emits exactly the encoder's bytes
    def _peel(t):
        while True:
            while t.tag in ('mut', 'via'):
                t = t[1] if t.tag == 'mut' else t[2]
            if t.tag == 'elemat' and 'RangeFull' in canon(t[2]):
                t = t[1]
            elif t.tag == 'call' and t[1].split('::')[-1] in ('as_slice', 'deref', 'as_ref', 'borrow', 'as_bytes') and len(t[2]) == 1:
                t = t[2][0]
            elif t.tag in ('ref', 'deref') and len(t.args) == 1:
                t = t[1]
            else:
                return t
    for nm, lst, callee in (('visit_bytes', vis, dec), ('serialize', ser, enc), ('deserialize', de, None)):
        if not lst:
            continue
        b0 = lst[0]
        extra = [r for r in guard_table(ctx, b0) if not all(a[0] == 'succ' and callee is not None and a[1].startswith(callee.path.split('::')[-1] + '(') for a in r['atoms'])
                 and not all(a[0] == 'succ' and ('serialize_bytes(' in a[1] or 'deserialize_bytes(' in a[1]) for a in r['atoms'])]
        rep.check(not extra, 'R-C15-4', 'R-C15-4/%s/no-other-rejection' % nm, '%s has no rejection of its own' % nm,
                  '%s rejects on a condition of its own, so the serde form and the byte form accept different strings: %s' % (
                      nm, [(list(r['ctx']), r['atoms']) for r in extra][:3]), ctx.where(b0, extra[0]['guard'].bb) if extra else ctx.where(b0))
        if callee is None:
            continue
        sites = [(bb, t) for bb, t in ctx.calls(b0) if callee_name(t) == callee.path]
        if len(sites) != 1:
            continue
        if nm == 'visit_bytes':
            arg = _peel(ctx.args(b0, sites[0][0])[0])
            byte_params = [i for i in range(1, b0.argc + 1) if b0.local_ty(i).replace("'de ", '').replace("'_ ", '') in ('&[u8]',)]
            okb = arg.tag == 'param' and arg[2] in byte_params
            rep.check(okb, 'R-C15-4', 'R-C15-4/visit_bytes/whole-input', 'the decoder is given the visitor\'s input as it is',
                      'the decoder is given %s, not the visitor\'s input' % short(arg, 120), ctx.where(b0, sites[0][0]))
        else:
            outs = [(bb, t) for bb, t in ctx.calls(b0) if callee_decl(t).endswith('serialize_bytes')]
            if len(outs) == 1:
                a_ = ctx.args(b0, outs[0][0])
                payload = _peel(a_[-1])
                okb = payload.tag == 'call' and payload[1] == callee.path and len(payload[2]) == 1 and _peel(payload[2][0]).tag == 'param'
                rep.check(okb, 'R-C15-4', 'R-C15-4/serialize/whole-output', 'serialize_bytes is given the encoder\'s output as it is',
                          'serialize_bytes is given %s, not the encoder\'s output' % short(a_[-1], 120), ctx.where(b0, outs[0][0]))

    # ---- R-C15-5 contradiction rule
    if not with_contradiction:
        return
    nsites = 0
    for b in ctx.facts.fns():
        if b.impl_trait == 'std::clone::Clone':
            continue
        for blk in b.blocks:
            if blk['cleanup']:
                continue
            for si, s in enumerate(blk['stmts']):
                if s['k'] == 'assign' and s['rv']['k'] == 'aggregate' and s['rv']['kind'].get('path') == 'range_proof::RangeProof':
                    nsites += 1
                    fn = b.path.split('::')[-1]
                    key = 'R-C15-5/%s/RangeProof-aggregate' % fn
                    fs = dict(zip(s['rv']['kind']['fields'], s['rv']['ops']))
                    li_t = ctx.eng.operand(b, blk['i'], si, fs['li'])
                    # a dominating guard that makes li non-empty: on len(li) itself, or on the round count / vector length it is built from
                    atoms_here = [a for r in guard_table(ctx, b) for a in r['atoms'] if r['guard'].bb != blk['i'] and ctx.cfgof(b).dominates(r['guard'].bb, blk['i'])]
                    ok = False
                    why = ''
                    for a in atoms_here:
                        if a[0] == 'cmp' and a[1] == 'Le' and a[2].isdigit() and int(a[2]) >= 1 and a[3].startswith('len('):
                            ok = True
                            why = 'guard %s' % (a,)
                        if a[0] == 'cmp' and a[1] == 'Le' and a[2].isdigit() and int(a[2]) >= 2 and ('checked_mul' in a[3] or 'full_length' in a[3]):
                            ok = True
                            why = 'guard %s' % (a,)
                    rep.check(ok, 'R-C15-5', key, '%s establishes a non-empty L/R vector before constructing a proof (%s)' % (b.path, why),
                              '%s constructs a proof without establishing the non-empty L/R vector that the decoder demands: with bit length 1 and one commitment '
                              'the prover emits zero folding rounds, the verifier accepts, and from_bytes(to_bytes(p)) fails' % b.path, ctx.where(b, blk['i']))
    rep.floor('R-C15-5', 'construction sites of the proof type', nsites, 2)
