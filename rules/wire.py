"""Frozen 0.4.0 wire table (transcript schedule, labels, primitives) and helpers to extract / compare the per-proof
transcript schedule from the boundary-event trace.  Shared by C04, C07, C08, C14, C19."""
from bpsa.trace import Tracer, strip
from bpsa.terms import walk, short, T
from bpsa.facts import callee_decl

DOMSEP = b'Bulletproofs+ Range Proof'
# (kind, label, relative loop depth, must, validated-point?, data slot name)
SCHEDULE = [
    ('append', b'dom-sep', 0, True, False, 'domsep'),
    ('append', b'H', 0, True, True, 'h_base'),
    ('append', b'G', 1, True, True, 'g_bases'),
    ('append_u64', b'N', 0, True, False, 'bit_length'),
    ('append_u64', b'T', 0, True, False, 'extension_degree'),
    ('append_u64', b'M', 0, True, False, 'aggregation'),
    ('append', b'Ci', 1, True, False, 'commitments'),
    ('append_u64', b'vi - minimum_value', 1, False, False, 'promise'),
    ('append_u64', b'vi - minimum_value', 1, False, False, 'promise'),
    ('append', b'A', 0, True, True, 'a'),
    ('challenge', b'y', 0, True, False, None),
    ('challenge', b'z', 0, True, False, None),
    ('append', b'L', 1, True, True, 'li'),
    ('append', b'R', 1, True, True, 'ri'),
    ('challenge', b'e', 1, True, False, None),
    ('append', b'A1', 0, True, True, 'a1'),
    ('append', b'B', 0, True, True, 'b'),
    ('challenge', b'e', 0, True, False, None),
]
VERIFIER_TAIL = [
    ('append', b'r1', 0, True, False, 'r1'),
    ('append', b's1', 0, True, False, 's1'),
    ('append', b'd1', 1, True, False, 'd1'),
]
# absorptions inside loops: the ones that share a loop in the released layout carry the same group
LOOP_GROUPS = {b'G': 'G', b'Ci': 'Ci', b'vi - minimum_value': 'vi', b'L': 'round', b'R': 'round', b'e': 'round', b'd1': 'd1'}
WEIGHT_LABEL = b'Bulletproofs+ verifier weights'
WITNESS_LABEL = b'witness'
NONCE_LABELS = {b'alpha', b'dL', b'dR', b'd', b'eta'}

_TR = {}


def tracer(ctx):
    k = id(ctx)
    if k not in _TR:
        _TR.clear()
        _TR[k] = Tracer(ctx)
    return _TR[k]


def entry_trace(ctx, body):
    tr = tracer(ctx)
    key = ('trace', body.key)
    if key not in _TR:
        _TR[key] = tr.trace(body)
    return _TR[key]


def root_of(t):
    """the parameter / constructor a transcript receiver term denotes: strips mut, elem, adapt, via, field wrappers"""
    t = strip(t)
    while t.tag in ('elem', 'elemat', 'adapt', 'via', 'mut'):
        t = strip(t[2]) if t.tag in ('adapt', 'via') else strip(t[1])
    return t


def proof_events(ctx, body, rule):
    """events on the caller-supplied transcript(s) of an entry point, and the others"""
    evs = entry_trace(ctx, body)
    mine, other = [], []
    for e in evs:
        if e.kind in ('append', 'append_u64', 'challenge'):
            r = root_of(e.receiver())
            if r.tag == 'param' and r[1] == body.key and 'Transcript' in body.local_ty(r[2]):
                mine.append(e)
            else:
                other.append(e)
        else:
            other.append(e)
    if not mine:
        ctx.rep.anchor_missing(rule, rule + '/trace/' + body.path, 'no transcript event on the caller-supplied transcript in the trace of %s' % body.path)
    return mine, other, evs


DESTRUCTIVE = {'zeroize', 'fill', 'fill_with', 'clear', 'truncate', 'reverse', 'swap', 'sort', 'sort_unstable', 'rotate_left', 'rotate_right', 'copy_from_slice',
               'clone_from_slice', 'clone_from', 'drain', 'retain', 'resize', 'set_len', 'swap_with_slice', 'write_u32', 'write_u64', 'conditional_assign',
               'conditional_negate'}
CONVERSIONS = {'as_bytes', 'to_bytes', 'as_fixed_bytes', 'compress', 'deref', 'as_ref', 'borrow', 'clone', 'to_vec', 'to_owned', 'as_slice', 'into', 'from', 'iter',
               'into_iter', 'as_mut', 'deref_mut', 'as_mut_slice', 'to_le_bytes', 'new'}


def overwritten(t):
    """names of the in-place operations that change the content of an absorbed value between the datum it is taken from and the
    absorption (`let mut b = x.to_bytes(); b.zeroize(); append(&b)`): what the transcript then absorbs is not the datum.  Only the
    spine from the absorbed bytes down to the datum is read (conversions, the collection an element is taken from); how the datum itself
    was computed (`a1 += g * d`) is not the concern here.  Building a collection (push / extend) is not overwriting; a store is."""
    out = []
    seen = 0
    while t is not None and seen < 40:
        seen += 1
        if t.tag == 'mut':
            for ev in t[2]:
                if ev.tag != 'ev':
                    continue
                if ev[1] == 'store':
                    out.append('store')
                elif ev[2].split('::')[-1] in DESTRUCTIVE:
                    out.append(ev[2].split('::')[-1])
            t = t[1]
        elif t.tag == 'via':
            t = t[2]
        elif t.tag in ('elem', 'elemat'):
            t = t[1]
        elif t.tag == 'call' and t[1].split('::')[-1] in CONVERSIONS and len(t[2]) == 1:
            t = t[2][0]
        else:
            break
    return out


def spine_stop(t):
    """the term at which the spine of an absorbed value (see `overwritten`) ends: the datum itself when every step down from the
    absorbed bytes is an encoding (CONVERSIONS), otherwise the first step that is something else"""
    seen = 0
    while t is not None and seen < 40:
        seen += 1
        if t.tag == 'mut':
            t = t[1]
        elif t.tag == 'via':
            t = t[2]
        elif t.tag in ('elem', 'elemat'):
            t = t[1]
        elif t.tag in ('cast',):
            t = t[2]
        elif t.tag == 'call' and t[1].split('::')[-1] in CONVERSIONS and len(t[2]) == 1:
            t = t[2][0]
        else:
            break
    return t


MEASURES = {'len', 'count'}          # unary functions of a datum that are absorbed for what they are (a count), not as an encoding of it


def recoded(t):
    """names of the unary functions, other than encodings, that lie between a stored datum (a field of a parameter) and the bytes
    absorbed for it: `append(label, Scalar::from_bytes_mod_order(point.bytes).as_bytes())` absorbs a function of the point that need
    not be injective -- two different data may then be absorbed as the same bytes.  Values the caller computes (a binop, a call
    with several arguments) are not stored data and give no verdict here."""
    seen = 0
    unknown = []
    while t is not None and seen < 40:
        seen += 1
        if t.tag == 'mut':
            t = t[1]
        elif t.tag == 'via':
            t = t[2]
        elif t.tag in ('elem', 'elemat'):
            t = t[1]
        elif t.tag == 'cast':
            t = t[2]
        elif t.tag == 'call' and len(t[2]) == 1:
            nm = t[1].split('::')[-1]
            if nm in MEASURES:
                return []
            if nm not in CONVERSIONS and nm not in ('try_from', 'try_into', 'to_be_bytes', 'to_ne_bytes', 'unwrap', 'expect', 'as_array', 'to_array'):
                # (a checked integer conversion that succeeds keeps the value; byte orders other than little-endian are a matter for C19)
                unknown.append(nm)
            t = t[2][0]
        else:
            break
    return unknown if t is not None and t.tag == 'field' else []


def validated(ctx, e):
    """is the append guarded by a negative identity test of the appended point?"""
    # the test may sit in any frame of the call chain that leads to the absorption (validate_and_append_point may delegate
    # the absorption itself to another helper)
    frames = list(e.site) if e.site else [(e.body.key, e.bb)]
    for (bkey, bb) in frames:
        body = ctx.facts.by_key.get(bkey)
        if body is None:
            continue
        for (sw, cond, arms, targets) in ctx.path_conditions(body, bb):
            c = cond
            if c.tag == 'call' and c[1].endswith('is_identity') and arms == ('0',):
                return True
    return False


def match_schedule(ctx, rule, body, role, table=None):
    """compare the per-proof schedule with the frozen table; returns {slot: [events]} or None"""
    rep = ctx.rep
    mine, other, evs = proof_events(ctx, body, rule)
    if not mine:
        return None
    table = list(table or SCHEDULE)
    base = min(len(e.loops) for e in mine)
    got = [(e.kind, e.label(), len(e.loops) - base, e.must) for e in mine]
    want = [(k, l, d, m) for (k, l, d, m, v, s) in table]
    where = ctx.where(body)
    n = min(len(got), len(want))
    slots = {}
    okall = True
    for i in range(n):
        k, l, d, m, v, slot = table[i]
        e = mine[i]
        key = '%s/%s/schedule/%02d-%s-%s' % (rule, role, i, k, (l or b'?').decode('latin1'))
        if got[i] != want[i]:
            okall = False
            rep.violation(rule, key, 'transcript schedule position %d: expected %s %r (loop depth %d, %s); the code has %s %r (loop depth %d, %s)' % (
                i, k, l, d, 'on every path' if m else 'alternative', got[i][0], got[i][1], got[i][2], 'on every path' if got[i][3] else 'conditional'),
                ctx.where(e.body, e.bb))
            break
        isval = validated(ctx, e) if k == 'append' else False
        if k == 'append' and isval != v:
            rep.violation(rule, key + '/validated', 'append %r: identity-point validation %s, expected %s' % (l, 'present' if isval else 'absent', 'present' if v else 'absent'),
                          ctx.where(e.body, e.bb))
        else:
            rep.ok(rule, key, '%s %r at loop depth %d%s%s; data = %s' % (k, l, d, '' if m else ' (alternative)', ' validated' if isval else '',
                                                                          short(e.data(), 120) if e.data() is not None else '-'), ctx.where(e.body, e.bb))
        if slot:
            slots.setdefault(slot, []).append(e)
    if okall:
        # which absorptions share a loop is part of the layout: `C_0 .. C_{m-1} v_0 .. v_{m-1}` and `C_0 v_0 C_1 v_1 ..` are the same
        # sequence of (kind, label, depth) and different byte streams as soon as m > 1
        for i in range(n - 1):
            (k1, l1, d1_, _, _, _), (k2, l2, d2_, _, _, _) = table[i], table[i + 1]
            if d1_ > 0 and d2_ > 0 and mine[i].loops and mine[i + 1].loops:
                want_same = LOOP_GROUPS.get(l1) == LOOP_GROUPS.get(l2)
                same = mine[i].loops[-1] == mine[i + 1].loops[-1]
                key = '%s/%s/schedule/%02d-%s-%s/loop' % (rule, role, i + 1, k2, (l2 or b'?').decode('latin1'))
                if same != want_same:
                    okall = False
                    rep.violation(rule, key, '%r and %r are absorbed %s; the released layout absorbs them %s' % (
                        l1, l2, 'in the same loop (interleaved per element)' if same else 'in two loops one after the other',
                        'in the same loop (interleaved per element)' if want_same else 'in two loops one after the other (all of the first, then all of the second)'),
                        ctx.where(mine[i + 1].body, mine[i + 1].bb))
    if okall and len(got) < len(want):
        k, l, d, m, v, slot = table[len(got)]
        rep.violation(rule, '%s/%s/schedule/missing-%02d-%s-%s' % (rule, role, len(got), k, l.decode('latin1')),
                      'transcript schedule ends after %d events; expected %s %r next' % (len(got), k, l), where)
        okall = False
    if okall and len(got) > len(want):
        e = mine[len(want)]
        rep.violation(rule, '%s/%s/schedule/extra-%02d' % (rule, role, len(want)), 'unexpected extra transcript event %s %r after the frozen schedule' % (e.kind, e.label()),
                      ctx.where(e.body, e.bb))
        okall = False
    if not okall:
        return None
    slots['_events'] = mine
    slots['_other'] = other
    return slots


def entry(ctx, which, rule):
    if which == 'prover':
        return ctx.fn('RangeProof::<P>::prove_with_rng', rule)
    return ctx.fn('RangeProof::<P>::verify_batch', rule)
