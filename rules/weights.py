"""Shared helpers for the verifier's batch weighting (C02, C05, C08): the gate MSM, the weight atom, accumulation events,
degree analysis."""
from bpsa.terms import walk, short, TERM_IDX, mk_elem, T, is_term
from bpsa.facts import callee_decl, callee_name
from . import msm


def strip(t):
    while t.tag == 'mut':
        t = t[1]
    return t


def gate(ctx, rule):
    """(core body, msm block, [recv, static, dyn scalars, dyn points])"""
    v = msm.verifier_core(ctx, rule)
    if v is None:
        return None
    sites = msm.msm_sites(ctx, v)
    bb = sites[0][0]
    return v, bb, ctx.args(v, bb)


def rejection_samplers(ctx):
    """crate functions that return a scalar only through the exit of a loop whose condition is value == ZERO"""
    out = {}
    for b in ctx.facts.fns():
        if 'Scalar' not in b.locals[0]['ty'] or b.is_closure:
            continue
        lps = ctx.loops(b)
        for h, lp in lps.items():
            # loop exit condition: a switch in the loop with an arm leaving it, on eq(value, ZERO)
            for blk in lp.blocks:
                t = b.block[blk]['term']
                if t['k'] != 'switch':
                    continue
                tg = [x for _, x in t['arms']] + [t['otherwise']]
                if not any(x not in lp.blocks for x in tg):
                    continue
                cond = ctx.eng.operand(b, blk, TERM_IDX, t['discr'])
                if cond.tag == 'binop' and cond[1] in ('Eq', 'Ne') and any(x.tag == 'scalar' and x[1] == 0 for x in (cond[2], cond[3])):
                    # which arm exits?  exit must be the "not zero" side
                    exit_arms = [str(v) for v, x in t['arms'] if x not in lp.blocks] + (['otherwise'] if t['otherwise'] not in lp.blocks else [])
                    nz = (cond[1] == 'Eq' and exit_arms == ['0']) or (cond[1] == 'Ne' and exit_arms == ['otherwise'])
                    draws = [callee_decl(tt) for bb2, tt in ctx.calls(b) if bb2 in lp.blocks and 'random' in callee_decl(tt)]
                    out[b.path] = {'exit_nonzero': nz, 'draws': draws, 'bb': blk}
    return out


def weight_atoms(ctx, v, scalars_terms):
    """call terms (with site) of rejection-sampled draws occurring in the gate's scalar arguments, inside a loop of v"""
    samplers = rejection_samplers(ctx)
    found = {}
    for t in scalars_terms:
        for x in walk(t):
            if x.tag == 'call' and x[1] in samplers and x[3] and x[3][0][0] == v.key:
                found[x.id] = x
    return list(found.values()), samplers


# calls that receive `&mut acc[i]` on its way to the update (`acc.get_mut(i).ok_or(E)?`): not updates themselves
PLUMBING = ('ok_or', 'ok_or_else', 'branch', 'from_residual', 'get_mut', 'as_mut', 'unwrap', 'expect', 'iter_mut', 'deref_mut', 'index_mut', 'as_mut_slice')


def accumulation_events(ctx, v, terms, loop_header):
    """in-place updates, executed inside loop `loop_header` of body v, of accumulators that outlive one iteration: the
    'ev' nodes of the outermost `mut` terms found top-down in the given (gate argument) terms.  Updates of per-iteration
    temporaries (nested inside the value of such an event) are not accumulation sites."""
    cfg = ctx.cfgof(v)
    blocks = cfg.loops[loop_header]
    out = {}
    seen = set()

    def in_loop(e):
        site = e[4]
        return bool(site) and site[0][0] == v.key and site[0][1] in blocks

    def visit(t):
        if not is_term(t):
            if isinstance(t, tuple):
                for x in t:
                    visit(x)
            return
        if t.id in seen:
            return
        seen.add(t.id)
        if t.tag == 'mut':
            visit(t[1])
            for e in t[2]:
                if e.tag == 'ev' and e[1] == 'call' and e[2].split('::')[-1] in PLUMBING:
                    continue                # handed a reference to (an element of) the accumulator, writes nothing
                if e.tag == 'ev' and in_loop(e):
                    out[e.id] = e           # root-level accumulation: do not look inside its value
                else:
                    visit(e)
            return
        if t.tag == 'closure':
            return
        for a in t.args:
            visit(a)
    for t in terms:
        visit(t)
    return list(out.values())


def degree(t, w, memo=None):
    """homogeneous degree of term t in atom w: int, or None if not homogeneous / unknown"""
    if memo is None:
        memo = {}
    if not is_term(t):
        return 0
    if t.id in memo:
        return memo[t.id]
    memo[t.id] = None
    r = _degree(t, w, memo)
    memo[t.id] = r
    return r


def _contains(t, w, memo):
    k = ('c', t.id)
    if k in memo:
        return memo[k]
    memo[k] = False
    r = t is w or any(_contains(a, w, memo) for a in _kids(t))
    memo[k] = r
    return r


def _kids(t):
    out = []
    for a in t.args:
        if is_term(a):
            out.append(a)
        elif isinstance(a, tuple):
            for b in a:
                if is_term(b):
                    out.append(b)
                elif isinstance(b, tuple):
                    out.extend(c for c in b if is_term(c))
    return out


def _degree(t, w, memo):
    if t is w:
        return 1
    if not _contains(t, w, memo):
        return 0
    k = t.tag
    if k == 'binop':
        a, b = degree(t[2], w, memo), degree(t[3], w, memo)
        if a is None or b is None:
            return None
        if t[1] == 'Mul':
            return a + b
        if t[1] in ('Add', 'Sub'):
            return a if a == b else None
        return None
    if k == 'unop' and t[1] == 'Neg':
        return degree(t[2], w, memo)
    if k == 'phi':
        ds = {degree(x, w, memo) for x in t.args}
        return ds.pop() if len(ds) == 1 else None
    if k in ('cast', 'via'):
        return degree(t[2], w, memo)
    if k in ('array', 'tuple') and t.args:
        # a literal list of values handed to extend(): homogeneous when all of them have the same degree
        ds = {degree(x, w, memo) for x in t.args}
        return ds.pop() if len(ds) == 1 else None
    if k == 'elem':
        return degree(t[1], w, memo)
    if k == 'mut':
        # an accumulator read: base plus in-place updates
        d = degree(t[1], w, memo)
        for e in t[2]:
            if e.tag != 'ev':
                return None
            op = e[2].split('::')[-1]
            ds = [degree(a, w, memo) for a in e[3]]
            if any(x is None for x in ds):
                return None
            if op in ('add_assign', 'sub_assign'):
                if ds and ds[0] != d:
                    return None
            elif op == 'mul_assign':
                if ds and ds[0] != 0:
                    return None
            elif any(x != 0 for x in ds):
                return None
        return d
    return None
