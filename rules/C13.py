"""C13 Every blinding nonce in a proof is fresh (provenance, structural).

Roles are found from their sinks: the scalars paired with the blinding generators in the expressions of the five proof points.
R-C13-1  each role's vector is built per element (one draw per k), either nonce(seed, LABEL, j, k) or a draw from the transcript RNG,
         never a repeated / cloned value; the five roles have pairwise disjoint draw sites and pairwise distinct label constants; index
         arguments are the per-element k and (for L / R) the round counter
R-C13-2  the two final masking scalars have RNG draw sites only, unconditional on the seed, and are distinct
R-C13-3  random_not_zero returns only through the exit of a loop whose condition is value == ZERO
R-C13-4  no role value is a constant or a public value (every alternative contains a draw)
R-C13-5  every generator a draw is taken from is built with the caller's RNG mixed in (else the drawn nonces, the two final masks
         included, do not vary with the caller's randomness); shared with R-C14-1
R-C13-6  draws made while the transcript stands still come from one generator: between two draws the generator is rebuilt only if an
         absorption or a challenge lies between them (else the two differ only by what the external RNG returns)
"""
from bpsa.facts import callee_decl, callee_name
from bpsa.normal import canon
from bpsa.terms import walk, short, TERM_IDX, T
from . import roles as R, wire

LEVEL_TEXT = ('Static provenance analysis of the prover (sink-based role discovery over reconstructed value terms). Decides that the blinding '
              'components of A, every L, every R, A1 and B and the two scalars masking the final responses each come from their own per-element draw '
              '(seed-derived with the documented label and indices, or from the transcript RNG), that draws are rejection-sampled, and that no role reuses '
              'another role\'s draw. Does not decide unpredictability or distinctness of the drawn values.')
ASSUMPTIONS = ['nonce() is a PRF of (seed, label, j, k); the transcript RNG is unpredictable (C14)']
RULE_TEXT = 'one obligation per role and clause; non-trivial = decided from the role\'s value term'

EXPECTED = {'A': b'alpha', 'L': b'dL', 'R': b'dR', 'A1': b'd', 'B': b'eta'}


def one_stream_per_state(ctx, p):
    """R-C13-6: nonces drawn while the transcript stands still come from ONE generator that each draw advances.  If the generator is
    rebuilt between two draws with no absorption or challenge in between, the two generators are built from the same transcript state and
    the same witness and differ only in the bytes taken from the external RNG: with an external RNG that repeats itself the two nonces
    are equal (r == s, d == eta, d_L == d_R).  In the event trace: between two draws there is no `finalize` unless a transcript event
    (append / challenge) lies between them as well."""
    rep = ctx.rep
    evs = wire.entry_trace(ctx, p)
    last_draw = None
    fin_since = False
    changed_since = False
    bad = []
    n = 0
    for e in evs:
        if e.kind in ('append', 'append_u64', 'challenge'):
            changed_since = True
        elif e.kind == 'finalize':
            fin_since = True
        elif e.kind == 'draw':
            n += 1
            if last_draw is not None and fin_since and not changed_since:
                bad.append(e)
            last_draw, fin_since, changed_since = e, False, False
    rep.check(not bad, 'R-C13-6', 'R-C13-6/one-stream-per-state', 'between two draws the RNG is rebuilt only when the transcript has changed (%d draws)' % n,
              'the RNG is rebuilt between two draws although the transcript has not changed in between (%d place(s)): the two draws differ only by what the external RNG returns' % len(bad),
              ctx.where(bad[0].body, bad[0].bb) if bad else ctx.where(p))


def run(ctx):
    rep = ctx.rep
    p = ctx.fn('RangeProof::<P>::prove_with_rng', 'R-C13-1')
    if p is None:
        return
    one_stream_per_state(ctx, p)
    roles, samplers = R.discover(ctx, p, 'R-C13-1')
    rep.floor('R-C13-1', 'blinding roles discovered from sinks', len(roles), 5)
    # name the roles by the proof field their point ends up in
    rt = ctx.eng.return_term(p)
    agg = [x for x in walk(rt) if x.tag == 'adt' and x[1].endswith('RangeProof::RangeProof')]
    fields = dict(agg[0][2]) if agg else {}
    ix = ctx.eng.bx(p)
    for r in roles:
        if r.name == 'A':
            continue
        if r.name.startswith('LR@'):
            for f, nm in (('li', 'L'), ('ri', 'R')):
                ft = fields.get(f)
                if ft is None:
                    continue
                # the vector whose compression is stored: map(mut(with_capacity; push(MSM)), compress)
                vec = ft
                while vec.tag in ('map',):
                    vec = vec[1]
                pushed = [e[3][0] for e in (vec[2] if vec.tag == 'mut' else ()) if e.tag == 'ev' and e[2].endswith('::push') and e[3]]
                # (the point may be compressed before it is pushed)
                def unwrap1(t):
                    # look through unary conversions of the point (compress(), clone(), ..), not into its operands
                    out = [t]
                    while t.tag == 'call' and len(t[2]) == 1:
                        t = t[2][0]
                        out.append(t)
                    return out
                if any(x.tag == 'call' and x[3] and x[3][-1] == (p.key, r.bb) for pv in pushed for x in unwrap1(pv)):
                    r.name = nm
        elif r.name.startswith('ACC@'):
            for f, nm in (('a1', 'A1'), ('b', 'B')):
                ft = fields.get(f)
                if ft is not None and any(x.tag == 'ev' and x[4] and x[4][0] == (p.key, r.bb) for x in walk(ft)):
                    r.name = nm
                elif ft is not None and getattr(r, 'acc_lv', None) is not None and any(x.tag == 'lv' and (x[2], x[3]) == r.acc_lv for x in walk(ft)):
                    r.name = nm
    names = sorted(r.name for r in roles)
    rep.check(names == sorted(EXPECTED), 'R-C13-1', 'R-C13-1/roles', 'one blinding role per proof point A, L, R, A1, B', 'blinding roles found at sinks: %s' % names, ctx.where(p))
    labels, sites = {}, {}
    seedp = None
    for r in roles:
        nonce = [a for a in r.alts if a['kind'] == 'nonce']
        rng = [a for a in r.alts if a['kind'] == 'rng']
        other = [a for a in r.alts if a['kind'] == 'other']
        key = 'R-C13-1/%s' % r.name
        ok = len(nonce) == 1 and len(rng) == 1 and not other
        rep.check(ok, 'R-C13-1', key + '/alternatives', 'role %s is nonce(seed, label, j, k) when a seed is present and a transcript-RNG draw otherwise' % r.name,
                  'role %s is built from %s' % (r.name, [(a['kind'], short(a['term'], 80)) for a in r.alts]), r.where)
        pe = all(a['per_element'] for a in r.alts)
        rep.check(pe and bool(r.alts), 'R-C13-1', key + '/per-element', 'role %s draws once per blinding generator (map / push over 0..extension_degree)' % r.name,
                  'role %s is not generated per element: %s' % (r.name, [short(a['term'], 100) for a in r.alts if not a['per_element']]), r.where)
        rng_rng = [a for a in r.alts if a.get('range') and 'extension_degree' not in a['range']]
        rep.check(not rng_rng, 'R-C13-1', key + '/count', 'role %s has extension-degree many components' % r.name, 'role %s ranges over %s' % (r.name, [a.get('range') for a in rng_rng]), r.where)
        for a in nonce:
            labels[r.name] = a['label']
            want = EXPECTED.get(r.name)
            k = canon(a['k']) if a['k'] is not None else ''
            j = canon(a['j']) if a['j'] is not None else ''
            k_ok = k.startswith('Option::Some{0:idx(range(0,') 
            if r.name in ('L', 'R'):
                # the round counter: a variable carried around the round loop, or the index of a `for round in 0..rounds` loop
                j_ok = j.startswith('Option::Some{0:lv') or j.startswith('Option::Some{0:idx(range(0,')
            else:
                j_ok = j == 'Option::None{}'
            seed_ok = any(x.tag == 'field' and x[1] == 'seed_nonce' for x in walk(a['seed']))
            rep.check(k_ok and j_ok and seed_ok, 'R-C13-1', key + '/indices', 'role %s: nonce(seed, %r, j=%s, k=per-element index)' % (r.name, a['label'], 'round counter' if r.name in ('L', 'R') else 'None'),
                      'role %s: nonce arguments seed=%s j=%s k=%s' % (r.name, short(a['seed'], 40), j, k), r.where)
        for a in r.alts:
            sites.setdefault(str(a['site']), []).append(r.name)
        for a in rng:
            # drawn from the transcript wrapper's RNG
            t = a.get('rng')
            builder_fns = {b.path for (b, bb, tt) in ctx.facts.callers_decl.get('merlin::TranscriptRngBuilder::finalize', [])}
            derived = t is not None and any(x.tag == 'call' and (x[1].endswith('TranscriptRngBuilder::finalize') or x[1] in builder_fns) for x in walk(t))
            rep.check(derived, 'R-C13-1', key + '/rng-source', 'role %s draws from the transcript RNG' % r.name, 'role %s draws from %s' % (r.name, short(t, 120) if t is not None else None), r.where)
    rep.check(labels == EXPECTED, 'R-C13-1', 'R-C13-1/labels', 'labels per role are %s (pairwise distinct)' % {k: v.decode() for k, v in labels.items() if v},
              'labels per role are %s, expected %s' % (labels, EXPECTED), ctx.where(p))
    shared = {s: n for s, n in sites.items() if len(n) > 1}
    rep.check(not shared, 'R-C13-1', 'R-C13-1/disjoint-draw-sites', 'the %d draw sites of the five roles are pairwise disjoint' % len(sites), 'draw sites shared between roles: %s' % shared, ctx.where(p))
    # round counter: the two per-round roles use the same counter, starting at 0, incremented once per round after both draws
    lvs = set()
    for r in roles:
        if r.name in ('L', 'R'):
            for a in r.alts:
                if a['kind'] == 'nonce' and a['j'] is not None:
                    lvs |= {x for x in walk(a['j']) if x.tag == 'lv'}
    if len(lvs) == 1:
        lv = next(iter(lvs))
        defs = ctx.eng.bx(p).whole_defs(lv[2])
        cfg = ctx.cfgof(p)
        loop = cfg.loops.get(lv[3], set())
        init = [d for d in defs if d[0] not in loop]
        step = [d for d in defs if d[0] in loop]
        ok = len(init) == 1 and len(step) == 1
        det = ''
        if ok:
            it = ctx.eng.rvalue(p, init[0][0], init[0][1], init[0][3]['rv']) if init[0][2] == 'assign' else None
            stt = ctx.eng.rvalue(p, step[0][0], step[0][1], step[0][3]['rv']) if step[0][2] == 'assign' else ctx.eng.call_result(p, step[0][0])
            c = canon(stt)
            ok = it is not None and it.tag == 'const' and it[1] == 0 and c in ('checked_add(lv%d,1)' % lv[2], '(1 Add lv%d)' % lv[2], '(lv%d Add 1)' % lv[2])
            det = 'init %s, step %s' % (canon(it) if it is not None else None, c)
            # the increment follows both round draws
            sbb = step[0][0]
            draws = [getattr(r, 'bb', None) for r in roles if r.name in ('L', 'R')]
        rep.check(ok, 'R-C13-1', 'R-C13-1/round-counter', 'L and R use one round counter: %s' % det, 'round counter of L / R: %s' % (det or 'several definitions'), ctx.where(p))
    else:
        # .. or the counter is the index of the round loop itself (`for round in 0..rounds`): both roles must use that one index, and the
        # loop must be the one both draws sit in
        idxs = set()
        for r in roles:
            if r.name in ('L', 'R'):
                for a in r.alts:
                    if a['kind'] == 'nonce' and a['j'] is not None:
                        idxs |= {x for x in walk(a['j']) if x.tag == 'index'}
        if not lvs and len(idxs) == 1:
            ix_ = next(iter(idxs))
            rng = ix_[1]
            while rng.tag == 'mut':
                rng = rng[1]
            from0 = rng.tag == 'range' and rng[1].tag == 'const' and rng[1][1] == 0
            def top(t):
                while t.tag == 'mut':
                    t = t[1]
                return t
            lps = [lp for lp in ctx.loops(p).values() if lp.iter_term is not None and (top(lp.iter_term) is rng or top(lp.iter_term) is top(ix_[1]))]
            draws = [getattr(r, 'bb', None) for r in roles if r.name in ('L', 'R')]
            inside = bool(lps) and all(d is not None and d in lps[0].blocks for d in draws)
            rep.check(from0 and len(lps) == 1 and inside, 'R-C13-1', 'R-C13-1/round-counter', 'L and R use the index of the round loop, which starts at 0: %s' % canon(ix_),
                      'round index of L / R: %s (from 0: %s, one loop containing both draws: %s)' % (canon(ix_), from0, len(lps) == 1 and inside), ctx.where(p))
        else:
            rep.violation('R-C13-1', 'R-C13-1/round-counter', 'L and R nonce derivations do not share a single round counter (%d loop variables)' % len(lvs), ctx.where(p))

    # ---- R-C13-2 final masks
    cfg = ctx.cfgof(p)
    direct = []
    for bb, t in ctx.calls(p):
        if callee_name(t) in samplers:
            drivers = {getattr(lp, 'driver_switch', None) for lp in ctx.loops(p).values()}
            pcs = ctx.path_conditions(p, bb) + [(sw, c, s, m) for (sw, c, s, m) in ctx.control_deps(p, bb)]
            gbbs = {g.bb for g in ctx.guards(p)}
            pcs = [x for x in pcs if x[0] not in drivers and x[0] not in gbbs]     # loop exits depend on extents; error edges are not selections
            seed_dep = any(any(x.tag == 'field' and x[1] == 'seed_nonce' for x in walk(c)) for (_, c, _, _) in pcs)
            if not seed_dep and not cfg.loop_of.get(bb):
                direct.append(bb)
    rep.check(len(direct) == 2, 'R-C13-2', 'R-C13-2/two-unconditional-draws', 'exactly two draws are unconditional on the seed and outside any loop (the final masking scalars)',
              '%d unconditional draw sites outside loops' % len(direct), ctx.where(p))
    for f, other in (('r1', 's1'), ('s1', 'r1')):
        ft = fields.get(f)
        if ft is None:
            continue
        ds = [x for x in walk(ft) if x.tag == 'call' and x[1] in samplers and x[3] and x[3][0][0] == p.key and x[3][0][1] in direct]
        # the response is `mask + secret * e`: its own top-level summand is one of the two unconditional draws
        top = ft
        own = None
        if top.tag == 'binop' and top[1] == 'Add':
            for side in (top[2], top[3]):
                s0 = side
                if s0.tag == 'call' and s0[1] in samplers:
                    own = s0
        rep.check(own is not None and own[3][0][1] in direct, 'R-C13-2', 'R-C13-2/%s' % f, 'response %s is masked by its own unconditional transcript-RNG draw' % f,
                  'response %s = %s is not masked by an unconditional draw' % (f, short(ft, 120)), ctx.where(p))
        fields['_mask_' + f] = own
    m1, m2 = fields.get('_mask_r1'), fields.get('_mask_s1')
    rep.check(m1 is not None and m2 is not None and m1 is not m2, 'R-C13-2', 'R-C13-2/distinct', 'the two final masks come from two different draw sites', 'the two final masks are the same draw', ctx.where(p))
    # both masks hide A1 and B
    for f in ('a1', 'b'):
        ft = fields.get(f)
        ok = ft is not None and m1 is not None and m2 is not None and any(x is m1 for x in walk(ft)) and any(x is m2 for x in walk(ft))
        rep.check(ok, 'R-C13-2', 'R-C13-2/used-in-%s' % f, 'both final masks enter %s' % f.upper(), '%s does not contain both final masks' % f.upper(), ctx.where(p))

    # ---- R-C13-3
    rep.check(bool(samplers) and all(v['exit_nonzero'] and v['draws'] for v in samplers.values()), 'R-C13-3', 'R-C13-3/rejection-sampling',
              'random_not_zero re-draws while the value equals zero (%s)' % sorted(samplers), 'rejection sampling defective or missing: %s' % samplers, ctx.where(p))
    # ---- R-C13-5 (shared with R-C14-1): the generator every draw is taken from was built with the caller's RNG mixed in
    from . import C14
    C14.finalize_uses_external(ctx, 'R-C13-5')
    # ---- R-C13-4
    for r in roles:
        consts = [a for a in r.alts if a['kind'] == 'other']
        rep.check(not consts, 'R-C13-4', 'R-C13-4/%s' % r.name, 'every alternative of role %s contains a draw' % r.name,
                  'role %s has a component that is not a draw: %s' % (r.name, [short(a.get('elem', a['term']), 100) for a in consts]), r.where)
