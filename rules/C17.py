"""C17 Constructors accept exactly the documented parameter space.

R-C17-1  guard normal form of each constructor == the documented domain (missing / weakened / extra guards)
R-C17-2  ExtensionDegree::try_from(u8) maps exactly 1..=6 to the variant with that discriminant
R-C17-3  no silently adjusted value: the constructed object stores the caller's arguments themselves; a copy (`Clone::clone`, and
         `clone_from` where an impl has one) takes every field from the source's namesake
R-C17-4  (thorough) compile-fail witnesses: the validated types cannot be built or mutated from outside the crate
"""
from bpsa.normal import canon
from bpsa.terms import walk, short
from .common import compare_table, guard_table, fmt_atom
from . import panics

LEVEL_TEXT = ('Static analysis (guard normal forms over MIR dominators). Decides that the conjunction of guards protecting '
              'each constructor\'s success exit is exactly the documented domain, that ExtensionDegree conversions map '
              '1..=6 to the variant with that discriminant, that the constructed values are the arguments themselves, and that no '
              'potentially panicking construct is reachable from the constructors. The space is finite and the guards are the behaviour; '
              'nothing is executed.')
ASSUMPTIONS = ['usize::is_power_of_two, len, is_empty and integer comparisons behave as documented in core',
               'an accept-condition written in an unrecognised form is reported as not decided (idiom-absent), never as a pass of that clause']
RULE_TEXT = ('one obligation per expected accept-atom per constructor (exact match in normal form, enforced on every path to the success '
             'exit), one per extra guard, one per try_from arm, one per stored field; non-trivial = discharged by a guard or dataflow fact')

P = lambda n, *a: ('pred', n, tuple(a), True)

TABLE = {
    'RangeParameters::<P>::init': {
        'expected': [((), P('is_power_of_two', 'p2')), ((), P('is_power_of_two', 'p1')), ((), ('cmp', 'Le', 'p1', '64'))],
        # BulletproofGens::new can only fail on a party index above u32::MAX
        'extra': [((), ('succ', 'new(p1,p2)'))],
    },
    # reached through RangeParameters::init: fails only when a party index does not fit u32 (the derivation label has 4 index bytes);
    # any other rejection here narrows the documented domain of RangeParameters::init
    # (party indexes are encoded as u32: the conversion of the loop index, or of the party capacity once up front, refuses the same
    # capacities above u32::MAX -- none of which is a usable input)
    'BulletproofGens::<P>::new': {'expected': [], 'extra': [lambda c, a: a[0] == 'succ' and a[1].startswith('try_from(idx(') and any(x[0] == 'forall' for x in c),
                                                            lambda c, a: a == ('succ', 'try_from(p2)') and not c]},
    'RangeStatement::<P>::init': {
        'expected': [((), P('is_power_of_two', 'len(p2)')), ((), ('cmp', 'Eq', 'len(p2)', 'len(p3)')),
                     ((), ('cmp', 'Le', 'len(p2)', 'p1.bp_gens.party_capacity')),
                     ((('succ', 'p4'),), ('cmp', 'Le', 'len(p2)', '1'))],
        'extra': [],
    },
    'RangeWitness::init': {
        'expected': [((), ('succ', "p1['first']")), ((), ('succ', "r_len(p1['first'])")),
                     # every opening after the first (the first is checked above) -- or simply every opening
                     ((), ('any', (((('forall', 'skip(p1,1)'),), ('succ', 'r_len(each(p1)<skip>)')),
                                   ((('forall', 'p1'),), ('succ', 'r_len(each(p1))'))))),
                     ((), ('any', (((('forall', 'skip(p1,1)'),), ('cmp', 'Eq', 'r_len(each(p1)<skip>)', "r_len(p1['first'])")),
                                   ((('forall', 'p1'),), ('cmp', 'Eq', 'r_len(each(p1))', "r_len(p1['first'])"))))),
                     ((), ('succ', "try_from(r_len(p1['first']))"))],
        'extra': [],
    },
    'CommitmentOpening::r_len': {'expected': [((), ('cmp', 'Le', '1', 'len(p1.r)'))], 'extra': []},
    'ExtendedMask::assign': {
        'expected': [((), ('cmp', 'Le', '1', 'len(p2)')), ((), ('cmp', 'Eq', 'len(p2)', 'p1'))], 'extra': []},
    'PedersenGens::<P>::commit': {
        'expected': [((), ('cmp', 'Le', '1', 'len(p3)')), ((), ('cmp', 'Le', 'len(p3)', 'p1.extension_degree'))], 'extra': []},
    'TryFrom<u8>>::try_from': {'expected': [((), ('in', 'p1', ('1', '2', '3', '4', '5', '6')))], 'extra': []},
    'TryFrom<usize>>::try_from': {'expected': [((), ('succ', 'try_from(p1)'))], 'extra': []},
}

# fields of the success value that must be the caller's argument itself: fn -> {field: canonical term}
STORED = {
    'RangeParameters::<P>::init': {'pc_gens': 'p3', 'bp_gens': 'new(p1,p2)'},
    'RangeStatement::<P>::init': {'generators': 'p1', 'commitments': 'p2', 'minimum_value_promises': 'p3', 'seed_nonce': 'p4'},
    'RangeWitness::init': {'openings': 'p1', 'extension_degree': "try_from(r_len(p1['first']))"},
    'ExtendedMask::assign': {'blindings': 'p2'},
    'CommitmentOpening::new': {'v': 'p1', 'r': 'p2'},
}


def stored_fields(ctx, only=None):
    """R-C17-3: the constructed object stores the caller's arguments themselves (shared with C05 / C07 / C09: the statement the
    prover and the verifier read is the one the caller built).  `only`: {constructor suffix: [fields]} to restrict."""
    rep = ctx.rep
    for suffix, fields in STORED.items():
        if only is not None and suffix not in only:
            continue
        body = ctx.fn(suffix, 'R-C17-3')
        if body is None:
            continue
        rt = ctx.eng.return_term(body)
        adts = [x for x in walk(rt) if x.tag == 'adt' and not x[1].startswith('std::') and 'ProofError' not in x[1]]
        if not adts:
            rep.anchor_missing('R-C17-3', 'R-C17-3/%s/aggregate' % suffix, 'no aggregate of the constructed type in the return value of %s' % body.path)
            continue
        a = adts[0]
        got = {f: canon(x) for f, x in a[2]}
        raw = dict(a[2])
        for f, want in fields.items():
            if only is not None and f not in only[suffix]:
                continue
            # the argument as it came in: an in-place operation on it before it is stored (`r.truncate(6)`, `sort`, `dedup`, `retain` ..)
            # adjusts the value while the stored term still names the parameter
            changed = []
            t0 = raw.get(f)
            while t0 is not None and t0.tag == 'mut':
                changed += [ev[2].split('::')[-1] if ev[1] == 'call' else 'store' for ev in t0[2] if hasattr(ev, 'tag') and ev.tag == 'ev']
                t0 = t0[1]
            changed = [c for c in changed if c not in ('shrink_to_fit', 'reserve', 'reserve_exact', 'as_mut', 'as_mut_slice', 'iter_mut')]
            rep.check(got.get(f) == want and not changed, 'R-C17-3', 'R-C17-3/%s/%s' % (suffix, f),
                      'field %s of the constructed value is %s' % (f, want),
                      ('field %s of the constructed value is the argument after %s: a silently adjusted value' % (f, ', '.join(changed))) if got.get(f) == want else
                      'field %s of the constructed value is %s, expected the unadjusted %s' % (f, got.get(f), want), ctx.where(body))


def copies_are_complete(ctx, only=None):
    """R-C17-3 for the other way a protocol object comes into being: a hand-written (or derived) `Clone` impl of a crate struct.  `clone`
    builds the copy from the source's fields, each from its namesake; `clone_from`, when the impl has one, overwrites *every* field of
    the destination from the source's namesake (a field it forgets keeps what the destination held before: a statement whose promises
    belong to another statement, a witness with the old blinding factors).  `only`: type-name suffixes to restrict to."""
    rep = ctx.rep
    n = 0
    for b in ctx.facts.fns():
        if b.impl_trait != 'std::clone::Clone' or not b.impl_self:
            continue
        base = b.impl_self.split('<')[0]
        adt = ctx.facts.adts.get(base)
        if adt is None or len(adt['variants']) != 1 or adt.get('kind') not in (None, 'Struct', 'struct'):
            continue
        tname = base.split('::')[-1]
        if only is not None and tname not in only:
            continue
        fields = [f['name'] for f in adt['variants'][0]['fields']]
        if not fields:
            continue
        last = b.path.split('::')[-1]
        if last == 'clone':
            rt = ctx.eng.expand(ctx.eng.return_term(b))
            aggs = [x for x in walk(rt) if x.tag == 'adt' and x[1].split('::')[-1] == tname]
            if not aggs:
                continue
            got = dict(aggs[0][2])
            for f in fields:
                n += 1
                t = got.get(f)
                ok = t is not None and any(x.tag == 'field' and x[1] == f and any(y.tag == 'param' and y[2] == 1 for y in walk(x)) for x in walk(t))
                rep.check(ok, 'R-C17-3', 'R-C17-3/%s::clone/%s' % (tname, f), 'the copy\'s field %s is the source\'s field %s' % (f, f),
                          'the copy\'s field %s is %s, not the source\'s field %s' % (f, canon(t)[:120] if t is not None else None, f), ctx.where(b))
        elif last == 'clone_from' and b.argc == 2:
            covered = {}
            for e in ctx.eng.bx(b).events():
                if ('L', 1) not in e['roots']:
                    continue
                fp = e.get('fpath') or ()
                name = e['decl'].split('::')[-1]
                if e['kind'] == 'store' or name in ('clone_from', 'clone_from_slice', 'copy_from_slice', 'clone_into', 'extend_from_slice', 'extend', 'append'):
                    try:
                        t = ctx.eng.event_term(b, e)
                    except Exception:
                        continue
                    srcf = {x[1] for x in walk(t) if x.tag == 'field' and any(y.tag == 'param' and y[2] == 2 for y in walk(x))}
                    if not fp:
                        if any(y.tag == 'param' and y[2] == 2 for y in walk(t)):
                            for f in fields:
                                covered.setdefault(f, set()).add(f)
                    else:
                        covered.setdefault(fp[0], set()).update(srcf)
            for f in fields:
                n += 1
                src = covered.get(f)
                rep.check(src is not None and f in src, 'R-C17-3', 'R-C17-3/%s::clone_from/%s' % (tname, f), 'clone_from overwrites field %s from the source\'s field %s' % (f, f),
                          ('clone_from leaves field %s of the destination as it was: the result mixes the source with what the destination held before' % f) if src is None else
                          ('clone_from fills field %s from the source\'s %s' % (f, sorted(src))), ctx.where(b))
    return n


def degree_table(ctx):
    """The conversion integer -> ExtensionDegree written as a lookup in a constant table instead of a `match`:
        value.checked_sub(MINIMUM).and_then(|i| TABLE.get(i)).copied().ok_or(..)
    Returns {'fn': body of the table-driven impl, 'other': body of the impl that delegates to it (or None), 'map': {value: variant name},
    'why': text} when that is the form, None otherwise.  The accepted values are base .. base + len(TABLE) - 1 (the subtraction fails below
    base, the lookup fails from len(TABLE) on), and value v yields TABLE[v - base]: read off the table, nothing is run."""
    from bpsa.terms import walk
    impls = [ctx.fn(sfx, None, required=False) for sfx in ('TryFrom<usize>>::try_from', 'TryFrom<u8>>::try_from')]
    impls = [b for b in impls if b is not None]
    for b in impls:
        rt = ctx.eng.return_term(b)
        t = rt
        while t.tag in ('mut', 'via') or (t.tag == 'call' and t[1].split('::')[-1] in ('copied', 'cloned', 'ok_or', 'ok_or_else') and t[2]):
            t = t[1] if t.tag == 'mut' else t[2] if t.tag == 'via' else t[2][0]
        if t.tag != 'elemat':
            continue
        tab, idx = t[1], t[2]
        while tab.tag in ('mut', 'via'):
            tab = tab[1] if tab.tag == 'mut' else tab[2]
        while idx.tag in ('mut', 'via', 'cast'):
            idx = idx[1] if idx.tag == 'mut' else idx[2]
        if tab.tag == 'item' and tab[1] in ctx.facts.consts:
            tab = ctx.eng.return_term(ctx.facts.consts[tab[1]])
        if tab.tag != 'array' or not all(x.tag == 'adt' and x[1].split('::')[0].endswith('ExtensionDegree') or (x.tag == 'adt' and 'ExtensionDegree' in x[1]) for x in tab.args):
            continue
        if not (idx.tag == 'call' and idx[1].split('::')[-1] == 'checked_sub' and len(idx[2]) == 2):
            continue
        src, base = idx[2]
        while src.tag in ('mut', 'via', 'cast'):
            src = src[1] if src.tag == 'mut' else src[2]
        base = ctx.eng.expand(base)
        while base.tag in ('mut', 'via'):
            base = base[1] if base.tag == 'mut' else base[2]
        bval = base[1] if base.tag == 'const' and isinstance(base[1], int) else None
        if bval is None and base.tag == 'cast':
            # `MINIMUM = Self::DefaultPedersen as usize`: the discriminant of a named variant
            inner = base[2]
            if inner.tag == 'discr' and inner[1].tag == 'adt':
                adt = ctx.facts.adts.get('generators::pedersen_gens::ExtensionDegree')
                dv = {v['name']: int(v['discr']) for v in adt['variants']} if adt else {}
                bval = dv.get(inner[1][1].split('::')[-1])
        if bval is None or not (src.tag == 'param' and src[2] == 1):
            continue
        names = [x[1].split('::')[-1] for x in tab.args]
        other = next((o for o in impls if o is not b), None)
        deleg = None
        if other is not None:
            ort = ctx.eng.return_term(other)
            calls = [x for x in walk(ort) if x.tag == 'call' and x[1] == b.path]
            if calls and len(calls[0][2]) == 1:
                a0 = calls[0][2][0]
                while a0.tag in ('mut', 'via', 'cast') or (a0.tag == 'call' and a0[1].split('::')[-1] in ('from', 'into', 'try_from') and len(a0[2]) == 1):
                    a0 = a0[1] if a0.tag == 'mut' else a0[2] if a0.tag in ('via', 'cast') else a0[2][0]
                if a0.tag == 'param' and a0[2] == 1:
                    deleg = other
        return {'fn': b, 'other': deleg, 'map': {bval + k: n for k, n in enumerate(names)},
                'why': 'TABLE[value - %d] with TABLE = %s' % (bval, names)}
    return None


def domain_of(ctx, suffixes, rule='R-C17-1'):
    """the domain tables of the named functions only (a clause shared with the properties whose honest path calls them: a function that
    refuses part of its documented domain refuses honest inputs of its callers)"""
    n = 0
    for suffix in suffixes:
        tab = TABLE.get(suffix)
        body = ctx.fn(suffix, rule) if tab is not None else None
        if body is None:
            continue
        n += len(compare_table(ctx, rule, suffix, body, tab['expected'], tab['extra']))
    return n


def run(ctx):
    rep = ctx.rep
    n_guards = 0
    dt = degree_table(ctx)
    for suffix, tab in TABLE.items():
        body = ctx.fn(suffix, 'R-C17-1')
        if body is None:
            continue
        if dt is not None and body in (dt['fn'], dt['other']):
            # the conversion is a table lookup: its domain is read off the table (same obligation keys as the `match` form)
            vals = sorted(dt['map'])
            key = 'R-C17-1/%s/%s' % (suffix, fmt_atom(((), TABLE[suffix]['expected'][0][1])))
            rep.check(vals == [1, 2, 3, 4, 5, 6], 'R-C17-1', key, 'the conversion accepts exactly 1..=6 (%s%s)' % (dt['why'], '' if body is dt['fn'] else ', through ' + dt['fn'].path.split(' as ')[-1]),
                      'the conversion accepts %s (%s)' % (vals, dt['why']), ctx.where(body))
            n_guards += 1
            continue
        rows = compare_table(ctx, 'R-C17-1', suffix, body, tab['expected'], tab['extra'])
        n_guards += len(rows)
        # the table is closed under propagation: a crate function whose failure this constructor hands on (in its own body or in a
        # closure it runs) decides part of the constructor's domain, so it must have a table of its own
        seen_c = set()
        work = [body]
        while work:
            b0 = work.pop()
            for _, cal in ctx.facts.local_callees(b0):
                if cal.key in seen_c:
                    continue
                seen_c.add(cal.key)
                if cal.is_closure:
                    work.append(cal)
                    continue
                rty = cal.locals[0]['ty']
                if not (rty.startswith('std::result::Result<') or rty.startswith('std::option::Option<')):
                    continue
                tabled = any(cal.path.endswith('::' + k) or cal.path == k or cal.path.endswith(k) for k in TABLE)
                rep.check(tabled, 'R-C17-1', 'R-C17-1/%s/propagates/%s' % (suffix, cal.path.split('::')[-1] if not cal.path.startswith('<') else cal.path[-40:]),
                          'the fallible crate function %s reached from this constructor has a domain table of its own' % cal.path,
                          'the constructor hands on the failure of %s, whose rejections are not tabled: its domain is not decided' % cal.path, ctx.where(body))
    rep.floor('R-C17-1', 'constructor guards', n_guards, 12)

    # R-C17-2 arm -> variant mapping of try_from(u8)
    tf = ctx.fn('TryFrom<u8>>::try_from', 'R-C17-2')
    adt = ctx.facts.adts.get('generators::pedersen_gens::ExtensionDegree')
    if tf is not None and adt is None:
        rep.anchor_missing('R-C17-2', 'R-C17-2/adt', 'enum ExtensionDegree not found')
    if tf is not None and adt is not None:
        discr = {v['name']: int(v['discr']) for v in adt['variants']}
        rep.check(sorted(discr.values()) == [1, 2, 3, 4, 5, 6], 'R-C17-2', 'R-C17-2/discriminants',
                  'ExtensionDegree discriminants are exactly 1..=6: %s' % discr, where=adt['span']['file'])
        sw = tf.block[0]['term']
        nmap = 0
        if dt is not None:
            # the table form: value v yields TABLE[v - base]
            for v, got in sorted(dt['map'].items()):
                nmap += 1
                rep.check(discr.get(got) == int(v), 'R-C17-2', 'R-C17-2/arm/%s' % v, 'try_from(%s) yields the variant with discriminant %s (%s, table position %d)' % (v, v, got, v - min(dt['map'])),
                          'try_from(%s) yields %s whose discriminant is %s' % (v, got, discr.get(got)), ctx.where(dt['fn']))
        elif sw['k'] == 'switch':
            for v, tgt in sw['arms']:
                got = None
                for s in tf.block[tgt]['stmts']:
                    if s['k'] == 'assign' and s['rv']['k'] == 'aggregate' and s['rv']['kind'].get('path', '').endswith('ExtensionDegree'):
                        got = s['rv']['kind']['variant']
                good = got is not None and discr.get(got) == int(v)
                nmap += 1
                rep.check(good, 'R-C17-2', 'R-C17-2/arm/%s' % v, 'try_from(%s) yields the variant with discriminant %s (%s)' % (v, v, got),
                          'try_from(%s) yields %s whose discriminant is %s' % (v, got, discr.get(got)), ctx.where(tf, tgt))
        rep.floor('R-C17-2', 'try_from arms', nmap, 6)

    # R-C17-3 stored values are the arguments
    stored_fields(ctx)
    copies_are_complete(ctx)

    # no panic in constructors: shared enumeration with C16
    roots = [ctx.fn(s, 'R-C17-5', required=False) for s in list(TABLE) + ['CommitmentOpening::new', 'ExtendedMask::blindings']]
    panics.check_panic_sites(ctx, 'R-C17-5', [r for r in roots if r is not None], floor=0)


def thorough(rep):
    from . import witness
    witness.run(rep, 'C17', ['c17_'])
