"""C10 Mask recovery never changes the verdict (non-interference, structural).

R-C10-1  (the draws of the batch weight are sites too: whether the weight RNG is advanced must not depend on the seed)
R-C10-1  the statement's recovery seed does not reach the verdict: no explicit flow into the gate MSM's arguments, into any
         transcript / weight-transcript absorption, or into a rejecting condition; no branch on seed-dependent data controls them.
         Tabled: the error edges of the nonce derivation / mask constructor inside the recovery block (cannot fire)
R-C10-2  the action parameter reaches only the match that selects recovery and the RecoverOnly skip / exit
R-C10-3  the transcript absorptions read only commitments and promises of the statement, never the seed (field sensitivity)
R-C10-4  both recovering modes run the same recovery code: the mask push is reached under exactly RecoverAndVerify and RecoverOnly
R-C10-5  recovery is keyed by the whole seed (= R-C19-2): the MAC key of every nonce is 0x00 || all 32 seed bytes || tagged indices, so that two
         distinct seeds give distinct keys (that distinct keys give distinct masks is Blake2b's collision resistance, assumed)
"""
from bpsa.facts import callee_decl, callee_name
from bpsa.normal import canon
from bpsa.terms import ev_site, walk, short, TERM_IDX, mk_elem
from .common import variants_under, guard_table
from . import wire, msm, weights

LEVEL_TEXT = ('Static non-interference analysis (backward dependence on reconstructed value terms + control dependence on MIR). Decides that '
              'neither the recovery seed nor the requested mode can influence the arguments of the verdict gate, the transcript, the batch weights or '
              'any rejection on the verdict path, apart from enumerated infeasible error edges. Does not decide that a wrong seed yields a different '
              'mask (needs collision resistance of Blake2b).'
              ' Also decides the byte layout of the nonce MAC key on every path (the whole seed is in the key).')
ASSUMPTIONS = ['nonce() fails only for labels > 16 bytes or indices >= 2^32; labels are constants <= 5 bytes and indices are bounded by 64 rounds / 6 generators',
               'ExtendedMask::assign fails only on a length mismatch; the mask vector has extension-degree many elements by construction']
RULE_TEXT = 'one obligation per sink (gate argument, transcript event, guard, accumulation site); non-trivial = the sink term was searched for seed / action atoms'


def has_seed(t):
    return any(x.tag == 'field' and x[1] == 'seed_nonce' for x in walk(t))


def has_action(t, v, act):
    return any(x.tag == 'param' and x[1] == v.key and x[2] == act for x in walk(t))


def _run(ctx):
    rep = ctx.rep
    g = weights.gate(ctx, 'R-C10-1')
    if g is None:
        return
    v, gbb, args = g
    cfg = ctx.cfgof(v)
    act = next((i for i in range(1, v.argc + 1) if 'VerifyAction' in v.local_ty(i)), None)
    if act is None:
        rep.anchor_missing('R-C10-2', 'R-C10-2/action-param', 'the verifier core has no VerifyAction parameter')
        return
    # positive control: the seed is read somewhere in the verifier (otherwise the rule would pass vacuously)
    seed_reads = 0
    from . import roles
    nfn = roles.nonce_fns(ctx)
    for fr in ctx.frames(v, stop=nfn):
        for e in ctx.eng.bx(fr.body).events():
            if has_seed(fr.lift(ctx.eng.event_term(fr.body, e))):
                seed_reads += 1
    rep.floor('R-C10-1', 'events depending on the seed (recovery block)', seed_reads, 3)

    # ---- explicit flows into the gate
    for nm, a in zip(('table', 'G/H scalars', 'dynamic scalars', 'dynamic points'), args):
        rep.check(not has_seed(a), 'R-C10-1', 'R-C10-1/gate/%s' % nm, 'gate argument `%s` does not depend on the recovery seed' % nm,
                  'gate argument `%s` depends on the recovery seed' % nm, ctx.where(v, gbb))
        rep.check(not has_action(a, v, act), 'R-C10-2', 'R-C10-2/gate/%s' % nm, 'gate argument `%s` does not depend on the action' % nm,
                  'gate argument `%s` depends on the requested action' % nm, ctx.where(v, gbb))
    # ---- transcript events (R-C10-1 / R-C10-3)
    vb = wire.entry(ctx, 'verifier', 'R-C10-3')
    evs = wire.entry_trace(ctx, vb)
    bad = [e for e in evs if any(has_seed(a) for a in e.args if e.kind in ('append', 'append_u64', 'rekey'))]
    nev = len([e for e in evs if e.kind in ('append', 'append_u64')])
    rep.check(not bad, 'R-C10-3', 'R-C10-3/transcript', 'none of the %d transcript / weight-transcript absorption sites reads the seed' % nev,
              'the seed is absorbed into a transcript: %s' % [(e.kind, e.label()) for e in bad], ctx.where(bad[0].body, bad[0].bb) if bad else ctx.where(vb))
    rep.floor('R-C10-3', 'absorption events examined', nev, 10)
    # ---- guards of the verifier core and of the consistency function
    cons = msm.consistency_fn(ctx, 'R-C10-1')
    nseedg = 0
    for body in [v] + ([cons] if cons is not None else []):
        rows = guard_table(ctx, body, deep=True)
        covered = set()          # rows inside a tabled helper call: the table entry of the call speaks for them
        has_children = {r['parent'] for r in rows if r['parent'] is not None}
        for ri, r in enumerate(rows):
            gcond = r['guard'].cond
            if r['parent'] is not None and r['parent'] in covered:
                covered.add(ri)
                continue
            if has_seed(gcond):
                a0 = r['atoms'][0]
                head0 = a0[1].split('(')[0] if a0[0] == 'succ' else ''
                if ri in has_children and not (head0 in {x.split('::')[-1] for x in nfn} or head0 == 'assign'):
                    # a crate-local helper that is not itself tabled: judged by its own guards (spliced below), not as a whole
                    continue
                nseedg += 1
                covered.add(ri)
                # only the infeasible error edges inside the recovery block are tolerated
                a = r['atoms'][0]
                under_some = any(x[0] == 'succ' and 'seed_nonce' in x[1] for x in r['ctx'])
                from . import roles
                nf = {x.split('::')[-1] for x in roles.nonce_fns(ctx)}
                head = a[1].split('(')[0] if a[0] == 'succ' else ''
                tolerated = a[0] == 'succ' and (head in nf or head == 'assign') and under_some
                key = 'R-C10-1/guard/%s' % a[1][:60]
                if tolerated:
                    rep.ok('R-C10-1', key, 'tabled: error edge of %s inside the recovery block cannot fire (constant labels, bounded indices, mask length = extension degree)' % a[1].split('(')[0],
                           ctx.where(body, r['guard'].bb), nontrivial=False)
                else:
                    rep.violation('R-C10-1', key, 'a rejection depends on the recovery seed: %s under %s' % (a, list(r['ctx'])), ctx.where(body, r['guard'].bb))
            if body is v and has_action(gcond, v, act):
                rep.violation('R-C10-2', 'R-C10-2/guard/%s' % (r['atoms'][0],), 'a rejection depends on the requested action: %s' % (r['atoms'],), ctx.where(body, r['guard'].bb))
    rep.floor('R-C10-1', 'seed-dependent error edges (all tabled)', nseedg, 5)

    # ---- implicit flows: branch conditions controlling accumulation sites and the gate
    ws, _ = weights.weight_atoms(ctx, v, [args[1], args[2]])
    L = cfg.loop_of.get(ws[0][3][0][1], [None])[0] if len(ws) == 1 else None
    sites = [(gbb, 'gate')]
    # the draws of the batch weight: whether (and how often) the weight RNG is advanced must not depend on the seed either
    for w_ in ws:
        if w_[3] and w_[3][0][0] == v.key:
            sites.append((w_[3][0][1], 'weight draw'))
    if L is not None:
        for e in weights.accumulation_events(ctx, v, [args[1], args[2]], L):
            sites.append((e[4][0][1], 'accumulation %s' % e[2].split('::')[-1]))
    nsite = 0
    for bb, what in sites:
        nsite += 1
        deps = [(sw, cond, arms, tg) for (sw, cond, arms, tg) in ctx.path_conditions(v, bb)] + [(sw, cond, sure, maybe) for (sw, cond, sure, maybe) in ctx.control_deps_transitive(v, bb)]
        # a condition on the *content* of a container (`let Some(c) = challenges[i] else { continue }`) depends, implicitly, on whatever
        # decided which alternative was stored: the conditions at the sites of the stores
        extra = []
        for (sw, cond, arms, tg) in deps:
            for x in walk(cond):
                if x.tag == 'ev' and x[4]:
                    bkey, ebb = ev_site(x)
                    eb = ctx.facts.by_key.get(bkey)
                    if eb is None:
                        continue
                    for (sw2, c2, a2, t2) in list(ctx.path_conditions(eb, ebb)) + list(ctx.control_deps_transitive(eb, ebb)):
                        if has_seed(c2) or (eb is v and has_action(c2, v, act)):
                            extra.append((('store', bkey, sw2), c2, tuple(a2), t2))
        deps += extra
        seen_sw = set()
        for (sw, cond, arms, tg) in deps:
            if (sw, arms) in seen_sw:
                continue
            seen_sw.add((sw, arms))
            if has_seed(cond):
                rep.violation('R-C10-1', 'R-C10-1/implicit/%s@%d' % (what, nsite), '%s is control-dependent on the seed: %s' % (what, short(cond, 120)), ctx.where(v, bb))
            if has_action(cond, v, act):
                c = canon(cond)
                # allowed: the test for RecoverOnly that skips verification (action != RecoverOnly on the taken arm)
                allowed = 'RecoverOnly' in c and ((cond.tag == 'binop' and cond[1] == 'Eq' and arms == ('0',)) or (cond.tag == 'binop' and cond[1] == 'Ne' and arms == ('otherwise',)))
                # or the match on the action itself that keeps VerifyOnly and recovering modes on the same continuation
                is_match = cond.tag == 'discr'
                # `action == VerifyOnly` / `!=` written as a comparison is the same selection as the match arm
                if cond.tag == 'binop' and cond[1] in ('Eq', 'Ne') and 'VerifyOnly' in c and 'RecoverOnly' not in c:
                    is_match = True
                if not (allowed or is_match):
                    rep.violation('R-C10-2', 'R-C10-2/implicit/%s@%d' % (what, nsite), '%s depends on the action through %s (arms %s)' % (what, c, arms), ctx.where(v, bb))
                if is_match and not allowed:
                    # a match arm that bypasses verification for a mode other than RecoverOnly would show here as a restriction to some arms
                    pass
    rep.check(True, 'R-C10-1', 'R-C10-1/implicit', 'none of the %d gate / accumulation sites is control-dependent on seed-derived data' % nsite, where=ctx.where(v))
    # every non-RecoverOnly mode reaches the accumulations: the only action-dependent skip compares with RecoverOnly
    reach = []
    for bb, what in sites[1:2] + sites[:1]:
        vset, unknown = variants_under(ctx, v, ctx.path_conditions(v, bb), act)
        reach.append((what, sorted(vset) if vset is not None else None, unknown))
    rep.check(bool(reach) and all(vs is not None and not unk and {'VerifyOnly', 'RecoverAndVerify'} <= set(vs) for _, vs, unk in reach), 'R-C10-2', 'R-C10-2/only-recover-only-skips',
              'the only mode that may skip the verdict is RecoverOnly: %s' % ['%s reached under %s' % (w, vs) for w, vs, _ in reach],
              'a verifying mode skips the verdict: %s' % ['%s reached under %s%s' % (w, vs, (' (not understood: %s)' % unk) if unk else '') for w, vs, unk in reach], ctx.where(v))

    # ---- R-C10-4 same recovery code for both recovering modes
    rls = None
    from .C03 import result_local
    rl = result_local(ctx, v)
    if len(rl) == 1:
        l = next(iter(rl))
        pushes = [e for e in ctx.eng.bx(v).events_on(('L', l)) if e['decl'].endswith('::push')]
        somes = []
        for e in pushes:
            for val, dbb in ctx.alternatives(v, e['bb'], TERM_IDX, e['args'][0]):
                # (a definition that is itself one of several values -- the payload of `opt.map(f).transpose()?` -- counts per value)
                for val_ in (val.args if val.tag == 'phi' else (val,)):
                    if val_.tag == 'adt' and val_[1].endswith('Option::Some'):
                        somes.append((e, val_, dbb))
        rep.floor('R-C10-4', 'Some(mask) push sites', len(somes), 1)
        for e, val, dbb in somes:
            pcs = ctx.path_conditions(v, e['bb']) + (ctx.path_conditions(v, dbb) if dbb != e['bb'] else [])
            vset, unknown = variants_under(ctx, v, pcs, act)
            rep.check(vset == {'RecoverAndVerify', 'RecoverOnly'} and not unknown, 'R-C10-4', 'R-C10-4/same-code', 'the mask is computed by the same code in both recovering modes (reached under exactly RecoverAndVerify and RecoverOnly)',
                      'mask computation is reached under %s%s' % (sorted(vset) if vset is not None else None, (' (not understood: %s)' % unknown) if unknown else ''), ctx.where(v, e['bb']))
            rep.check(has_seed(val) and not has_action(val, v, act), 'R-C10-4', 'R-C10-4/mask-depends-on-seed-only', 'the recovered mask depends on the seed and not on the action',
                      'recovered mask: depends on seed=%s, on action=%s' % (has_seed(val), has_action(val, v, act)), ctx.where(v, e['bb']))


def run(ctx):
    _run(ctx)
    from . import C19
    from .common import shared
    shared(ctx, C19.nonce_derivation, 'R-C19-2', 'R-C10-5')
