"""Enumeration and discharge of potentially panicking constructs in crate code (shared by C16, C17, C05).

A *site* is a MIR `Assert` terminator (overflow / bounds / division), a call to a function on the curated panicking-callee
list, or a boundary call with a documented precondition.  Each site must be discharged by a mechanically verified pattern
or appear in the reviewed table below (exact, line-free key + reason).
"""
import re
from bpsa.facts import callee_name, callee_decl
from bpsa.normal import canon, bool_atom
from bpsa.terms import walk, short, TERM_IDX

# callee (declared path) -> kind
PANICKING = {
    'std::option::Option::<T>::unwrap': 'unwrap', 'std::option::Option::<T>::expect': 'unwrap',
    'std::result::Result::<T, E>::unwrap': 'unwrap', 'std::result::Result::<T, E>::expect': 'unwrap',
    'std::result::Result::<T, E>::unwrap_err': 'unwrap', 'std::result::Result::<T, E>::expect_err': 'unwrap',
    'std::option::Option::<T>::unwrap_unchecked': 'unwrap',
    'std::ops::Index::index': 'index', 'std::ops::IndexMut::index_mut': 'index',
    'core::num::<impl usize>::ilog2': 'ilog', 'core::num::<impl u64>::ilog2': 'ilog', 'core::num::<impl u32>::ilog2': 'ilog',
    'core::num::<impl usize>::ilog10': 'ilog', 'core::num::<impl usize>::ilog': 'ilog',
    'core::slice::<impl [T]>::split_at': 'split', 'core::slice::<impl [T]>::split_at_mut': 'split',
    'core::slice::<impl [T]>::copy_from_slice': 'copy_len', 'core::slice::<impl [T]>::clone_from_slice': 'copy_len',
    'core::slice::<impl [T]>::chunks': 'chunk0', 'core::slice::<impl [T]>::chunks_exact': 'chunk0',
    'core::slice::<impl [T]>::chunks_mut': 'chunk0', 'core::slice::<impl [T]>::chunks_exact_mut': 'chunk0',
    'core::slice::<impl [T]>::windows': 'chunk0', 'core::slice::<impl [T]>::rchunks': 'chunk0',
    'std::iter::Iterator::step_by': 'chunk0',
    'std::vec::Vec::<T, A>::remove': 'vec_index', 'std::vec::Vec::<T, A>::insert': 'vec_index',
    'std::vec::Vec::<T, A>::swap_remove': 'vec_index', 'std::vec::Vec::<T, A>::drain': 'vec_index',
    'std::vec::Vec::<T, A>::split_off': 'vec_index', 'core::slice::<impl [T]>::swap': 'vec_index',
    'std::vec::Vec::<T, A>::truncate|no': 'vec_index',
    'std::cell::RefCell::<T>::borrow': 'refcell', 'std::cell::RefCell::<T>::borrow_mut': 'refcell',
    'std::iter::Iterator::sum': 'int_sum', 'std::iter::Iterator::product': 'int_sum',
    'core::num::<impl usize>::pow': 'int_arith', 'core::num::<impl u64>::pow': 'int_arith', 'core::num::<impl u32>::pow': 'int_arith',
    'core::num::<impl usize>::next_power_of_two': 'int_arith', 'core::num::<impl usize>::div_ceil': 'int_arith',
    'core::num::<impl usize>::abs_diff|no': 'int_arith',
    'std::process::abort': 'panic', 'std::process::exit': 'panic',
    'core::str::<impl str>::split_at': 'split',
}
PANIC_PREFIXES = ('core::panicking::', 'std::rt::begin_panic', 'std::rt::panic', 'core::panic::', 'std::panicking::',
                  'core::option::unwrap_failed', 'core::option::expect_failed', 'core::result::unwrap_failed',
                  'core::slice::index::slice_', 'std::alloc::handle_alloc_error', 'core::intrinsics::abort',
                  'core::hint::unreachable_unchecked', 'core::hint::assert_unchecked')
INT_ARITH_DECLS = {'std::ops::Add::add', 'std::ops::Sub::sub', 'std::ops::Mul::mul', 'std::ops::Shr::shr', 'std::ops::Shl::shl',
                   'std::ops::Div::div', 'std::ops::Rem::rem', 'std::ops::Neg::neg', 'std::ops::AddAssign::add_assign',
                   'std::ops::SubAssign::sub_assign', 'std::ops::MulAssign::mul_assign', 'std::ops::ShlAssign::shl_assign',
                   'std::ops::ShrAssign::shr_assign', 'std::ops::DivAssign::div_assign', 'std::ops::RemAssign::rem_assign'}
INT_RE = re.compile(r'<&?(?:\'\w+ )?(?:mut )?(u8|u16|u32|u64|u128|usize|i8|i16|i32|i64|i128|isize) as ')
# boundary calls with documented length preconditions (curve25519-dalek precomputed Straus asserts both)
BOUNDARY = {
    'curve25519_dalek::traits::VartimePrecomputedMultiscalarMul::vartime_mixed_multiscalar_mul': 'msm_mixed',
}

# Reviewed table: key -> reason.  Keys are line-free: function / kind / canonical operands.
REVIEWED = {}


import hashlib


def mk_key(path, kind, ops):
    c = ','.join(canon(o) for o in ops)
    if len(c) > 140:
        c = c[:120] + '~' + hashlib.sha1(c.encode()).hexdigest()[:8]
    return '%s/%s/%s' % (path, kind, c)


def sites(ctx, bodies):
    """yield dicts {body, bb, kind, key, detail, term/args} for every potentially panicking construct"""
    out = []
    for body in bodies:
        cfg = ctx.cfgof(body)
        for b in body.blocks:
            bb = b['i']
            if b['cleanup'] or bb not in cfg.reach_set:
                continue
            t = b['term']
            if t['k'] == 'assert':
                if t['span'].get('exp') and 'overflow' not in t['kind'] and 'bounds' not in t['kind']:
                    pass
                cond = ctx.eng.operand(body, bb, TERM_IDX, t['cond'])
                ops = assert_operands(ctx, body, bb, t)
                out.append({'body': body, 'bb': bb, 'kind': 'assert:' + t['kind'], 'ops': ops, 'node': t,
                            'key': mk_key(body.path, 'assert:' + t['kind'], ops)})
            elif t['k'] == 'call':
                decl = callee_decl(t)
                name = callee_name(t)
                kind = None
                if decl in PANICKING:
                    kind = PANICKING[decl]
                elif any(decl.startswith(p) or name.startswith(p) for p in PANIC_PREFIXES):
                    kind = 'panic'
                elif decl in INT_ARITH_DECLS and INT_RE.search(name):
                    kind = 'int_arith:' + decl.split('::')[-1]
                elif decl in BOUNDARY:
                    kind = BOUNDARY[decl]
                if kind is None:
                    continue
                if kind == 'panic' and t['span'].get('exp') and _in_fmt_impl(body):
                    continue
                args = ctx.args(body, bb)
                out.append({'body': body, 'bb': bb, 'kind': kind, 'ops': list(args), 'node': t,
                            'key': mk_key(body.path, kind, args)})
    return out


def _in_fmt_impl(body):
    return body.impl_trait in ('std::fmt::Debug', 'std::fmt::Display')


def assert_operands(ctx, body, bb, t):
    """operands of the checked operation guarded by an Assert terminator"""
    # overflow asserts test `_x.1` of a `*WithOverflow` tuple; bounds asserts test `Lt(index, len)`
    op = t['cond']
    if op['k'] in ('copy', 'move'):
        l = op['place']['l']
        for d in ctx.eng.bx(body).defs.get(l, []):
            if d[2] == 'assign':
                rv = d[3]['rv']
                if rv['k'] == 'binop':
                    return [ctx.eng.operand(body, d[0], d[1], rv['a']), ctx.eng.operand(body, d[0], d[1], rv['b'])]
                if rv['k'] == 'use' and rv['op']['k'] in ('copy', 'move'):
                    return [ctx.eng.operand(body, d[0], d[1], rv['op'])]
    return [ctx.eng.operand(body, bb, TERM_IDX, op)]


# ---- discharge patterns ---------------------------------------------------------------------------------

def path_atoms(ctx, body, bb):
    """atoms known to hold at bb: accept-atoms of dominating guards + branch conditions"""
    from .common import guard_table
    cfg = ctx.cfgof(body)
    atoms = []
    for r in guard_table(ctx, body):
        g = r['guard']
        if g.bb != bb and ctx.holds_at(body, g.bb, bb) and not ctx.rejecting(body, bb):
            atoms.extend(r['atoms'])
    for (sw, cond, arms, targets) in ctx.path_conditions(body, bb):
        if set(arms) <= {'0', 'otherwise'} and len(arms) == 1 and cond.tag != 'discr':
            atoms.extend(bool_atom(cond, positive=(arms[0] == 'otherwise')))
    return atoms


def _const_int(t):
    if t.tag == 'const' and isinstance(t[1], int) and not isinstance(t[1], bool):
        return t[1]
    if t.tag == 'cast':
        return _const_int(t[2])
    if t.tag == 'binop' and t[1] in ('Add', 'Sub', 'Mul'):
        # arithmetic on constants (`SERIALIZED_ELEMENT_SIZE - 1`)
        a, b = _const_int(t[2]), _const_int(t[3])
        if a is not None and b is not None:
            r = a + b if t[1] == 'Add' else a - b if t[1] == 'Sub' else a * b
            return r if r >= 0 else None
    return None


def _range_lower(t):
    """constant lower bound of a value drawn from `range(c, _)` through index/elem wrappers"""
    if t.tag == 'index' and t[1].tag == 'range':
        return _const_int(t[1][1])
    if t.tag == 'cast':
        return _range_lower(t[2])
    return None


def _strip(t):
    while t.tag == 'cast' or (t.tag == 'call' and t[1].endswith('try_from') and len(t[2]) == 1):
        t = t[2] if t.tag == 'cast' else t[2][0]
    return t


def _is_ilog2(t):
    t = _strip(t)
    return t.tag == 'call' and t[1].split('::')[-1] in ('checked_ilog2', 'ilog2') and len(t[2]) == 1


def _succ_atoms(atoms):
    return {a[1] for a in atoms if a[0] == 'succ'}


def callers_pass_none(ctx, body, param_idx, bodies):
    """every call of `body` from the analysed set passes the constant `None` for parameter param_idx"""
    n = 0
    for (cb, bb, t) in ctx.facts.callers.get(body.path, []):
        if cb.key not in bodies:
            continue
        a = ctx.args(cb, bb)
        if param_idx - 1 >= len(a):
            return False
        x = a[param_idx - 1]
        if not (x.tag == 'adt' and x[1].endswith('Option::None')):
            return False
        n += 1
    return n > 0


def discharge(ctx, s, scope=None):
    """returns a reason string if the site is discharged by a verified pattern, else None"""
    body, bb, kind, ops = s['body'], s['bb'], s['kind'], s['ops']
    atoms = None

    def known():
        nonlocal atoms
        if atoms is None:
            atoms = path_atoms(ctx, body, bb)
        return atoms

    # -- an assertion whose condition a dominating check has already established: `if a.len() != b.len() { return Err(..) }` ..
    #    `debug_assert_eq!(a.len(), b.len())`.  The panic is reached through the arm of the nearest controlling switch on which the
    #    asserted condition is false; if the condition's atoms are among the facts that hold at that switch, the arm is dead.
    if kind == 'panic':
        pcs = ctx.path_conditions(body, bb)
        if pcs:
            sw, cond, arms, targets = pcs[0]
            if cond.tag != 'discr' and set(arms) <= {'0', 'otherwise'} and len(arms) == 1:
                asserted = bool_atom(cond, positive=(arms[0] == '0'))      # the panic arm is taken when the condition has the other value
                if asserted and not any(a[0] == 'unknown' for a in asserted):
                    have = path_atoms(ctx, body, sw)
                    from .common import _match_form
                    have_n = {_match_form(a) for a in have} | set(have)
                    if all(a in have_n or _match_form(a) in have_n for a in asserted):
                        return 'assertion of %s, which a dominating check has established' % (asserted,)
    # -- dead code under a constant argument: the site is only reachable when parameter k is Some, and every caller
    #    in scope passes None
    if scope is not None:
        # walk from the site outwards through the closures it is nested in; at every level the code runs only if
        #   (a) the dominating `if let Some(..) = param` conditions at that level hold, and
        #   (b) the closure is the argument of Option::map / and_then / .. on a parameter, which calls it only for Some
        cur, cur_bb = body, bb
        for _ in range(4):
            for (sw, cond, arms, targets) in ctx.path_conditions(cur, cur_bb):
                if cond.tag == 'discr' and cond[1].tag == 'param' and cond[1][1] == cur.key and arms == ('1',) and not cur.is_closure:
                    ty = ctx.discr_type(cur, cur.block[sw]['term']['discr']) or ''
                    if ty.startswith('std::option::Option<') and callers_pass_none(ctx, cur, cond[1][2], scope):
                        return 'only reachable when parameter %d of %s is Some; every caller in the analysed set passes None' % (cond[1][2], cur.path)
            if not cur.is_closure:
                break
            cs = ctx.closure_site(cur)
            if cs is None:
                break
            pb, pbb, psi, pst = cs
            if not pst['place']['p'] and not pb.is_closure:
                # which call consumes the closure?
                cl = pst['place']['l']
                cfgp = ctx.cfgof(pb)
                seen_b, work = set(), [pbb]
                while work:
                    x = work.pop()
                    if x in seen_b or len(seen_b) > 12:
                        continue
                    seen_b.add(x)
                    t2 = pb.block[x]['term']
                    if t2['k'] == 'call' and any(a['k'] in ('move', 'copy') and a['place']['l'] == cl and not a['place']['p'] for a in t2['args']):
                        d2 = callee_decl(t2)
                        if d2.startswith('std::option::Option::<T>::') and d2.split('::')[-1] in ('map', 'and_then', 'map_or', 'map_or_else', 'inspect', 'is_some_and', 'filter') and t2['args']:
                            recv = ctx.eng.operand(pb, x, TERM_IDX, t2['args'][0])
                            r0 = recv
                            while r0.tag == 'mut':
                                r0 = r0[1]
                            if r0.tag == 'param' and r0[1] == pb.key and pb.local_ty(r0[2]).startswith('std::option::Option<') and callers_pass_none(ctx, pb, r0[2], scope):
                                return 'only run by Option::%s on parameter %d of %s; every caller in the analysed set passes None' % (d2.split('::')[-1], r0[2], pb.path)
                        break
                    work.extend(cfgp.succ.get(x, []))
            cur, cur_bb = pb, pbb

    if kind in ('int_arith:shr', 'int_arith:shl') and len(ops) == 2:
        views = [(canon(ops[1]), known())]
        b2, t2 = body, ops[1]
        while b2.is_closure:
            # conditions that hold where the closure is created hold inside it (captured values are immutable copies / shared borrows)
            up = ctx.lift(b2, t2)
            if up is None:
                break
            b2, pbb, t2 = up
            views.append((canon(t2), path_atoms(ctx, b2, pbb)))
        for amt, ats in views:
            for a in ats:
                if a[0] == 'cmp' and a[1] == 'Le' and a[2] == amt and a[3].isdigit() and int(a[3]) <= 63:
                    return 'shift amount %s is at most %s on every path to the shift (dominating condition)' % (amt, a[3])
    if kind in ('assert:divzero', 'assert:remzero') and len(ops) == 2:
        # the assert condition compares the divisor with 0: a non-zero constant divisor cannot trip it
        d0, z0 = _const_int(_strip(ops[0])), _const_int(_strip(ops[1]))
        if d0 is not None and z0 == 0 and d0 != 0:
            return 'division by the non-zero constant %d' % d0
    if kind in ('assert:overflow:Shr', 'assert:overflow:Shl') and len(ops) == 2:
        # operands of the assert condition: Lt(amount, width)
        amt, width = ops[0], _const_int(ops[1])
        if width is not None:
            if _is_ilog2(amt):
                return 'shift amount is an integer logarithm of a %d-bit value, hence below %d' % (width, width)
            c = _const_int(_strip(amt))
            if c is not None and 0 <= c < width:
                return 'constant shift amount %d' % c
            sa = canon(amt)
            for a in known():
                if a[0] == 'cmp' and a[1] == 'Le' and a[2] == sa and a[3].isdigit() and int(a[3]) <= width - 1:
                    return 'shift amount %s is at most %s on every path to the shift (dominating condition)' % (sa, a[3])
    if kind == 'assert:overflow:Sub' and len(ops) == 2:
        # i - lo with i drawn from lo..hi
        a0 = ops[0]
        while a0.tag in ('cast', 'via'):
            a0 = a0[2]
        if a0.tag == 'index' and a0[1].tag == 'range' and canon(a0[1][1]) == canon(ops[1]):
            return 'minuend is drawn from the range %s.. and the subtrahend is its lower bound' % canon(ops[1])
        c = _const_int(ops[1])
        lo = _range_lower(ops[0])
        if c is not None and lo is not None and lo >= c:
            return 'minuend ranges over %d.. and the subtrahend is the constant %d' % (lo, c)
        sa, sb = canon(ops[0]), canon(ops[1])
        for a in known():
            if a[0] == 'cmp' and a[1] in ('Le', 'Lt') and a[2] == sb and a[3] == sa:
                return 'dominating condition %s' % (a,)
        # i - (1 << ilog2(i))
        if ops[1].tag == 'binop' and ops[1][1] == 'Shl' and _const_int(ops[1][2]) == 1 and _is_ilog2(ops[1][3]):
            if canon(_strip(ops[1][3])[2][0]) == sa:
                return 'subtrahend is 2^ilog2(minuend) <= minuend'
        # len(X) - ilog2(i) [- 1]  with i in 1..F and a dominating guard 1 << len(X) == F
        inner = ops[0]
        minus1 = False
        if c == 1 and inner.tag == 'binop' and inner[1] == 'Sub':
            minus1 = True
            a0, a1 = inner[2], inner[3]
        else:
            a0, a1 = ops[0], ops[1]
        if _is_ilog2(a1):
            i = _strip(a1)[2][0]
            if i.tag == 'index' and i[1].tag == 'range':
                F = canon(i[1][2])
                M = canon(a0)
                for a in known():
                    if a[0] == 'cmp' and a[1] == 'Eq' and F in (a[2], a[3]):
                        other = a[3] if a[2] == F else a[2]
                        if other.startswith('checked_shl(1,') and M in other:
                            return 'index below %s = 2^%s (dominating guard), so its logarithm is at most %s - 1' % (F, M, M)
    if kind == 'split' and len(ops) == 2:
        # the first part of an earlier split has exactly the length it was split at
        x0 = ops[0]
        while x0.tag == 'mut':
            x0 = x0[1]
        cands = [x0]
        if x0.tag == 'lv':
            cands = [y for y in ctx.eng.lv_defs(x0)] or [x0]
        n_here = _const_int(_strip(ops[1]))
        okc = bool(cands) and n_here is not None
        for y in cands:
            while y.tag == 'mut':
                y = y[1]
            if y.tag == 'adt' and y[1].split('::')[-1] in ('None', 'Err'):
                continue            # the split is on the success path of `?`
            if y.tag == 'adt' and y[1].split('::')[-1] in ('Some', 'Ok') and y[2]:
                y = y[2][0][1]
                while y.tag == 'mut':
                    y = y[1]
            n0 = None
            if y.tag == 'field' and y[1] == '0' and y[2].tag == 'adapt' and y[2][1] in ('split_at', 'split_at_checked', 'split_at_mut') and len(y[2].args) >= 3:
                nt = y[2][3]
                n0 = _const_int(_strip(nt))
                if n0 is None and nt.tag == 'binop' and nt[1] == 'Mul':
                    a_, b_ = _const_int(_strip(nt[2])), _const_int(_strip(nt[3]))
                    n0 = a_ * b_ if a_ is not None and b_ is not None else None
            if n0 is None or n_here is None or n_here > n0:
                okc = False
        if okc:
            return 'the slice is the first %s elements of an earlier split and is split at %d' % ('n', n_here)
        # split_at(X, n) panics when n > len(X): discharged by a dominating test n <= len(X)
        n_c, x_len = canon(ops[1]), 'len(%s)' % canon(ops[0])
        for a in known():
            if a[0] == 'cmp' and a[1] == 'Le' and a[2] == n_c and a[3] == x_len:
                return 'dominating condition %s <= %s' % (n_c, x_len)
            if a[0] == 'cmp' and a[1] == 'Le' and a[3] == x_len and a[2].isdigit() and n_c.isdigit() and int(n_c) <= int(a[2]):
                return 'dominating condition %s <= %s with constant split point %s' % (a[2], x_len, n_c)
    if kind in ('assert:overflow:Mul', 'assert:overflow:Add', 'assert:overflow:Sub') and len(ops) == 2:
        ca, cb = _const_int(_strip(ops[0])), _const_int(_strip(ops[1]))
        if ca is not None and cb is not None:
            v = ca * cb if kind.endswith('Mul') else ca + cb if kind.endswith('Add') else ca - cb
            if 0 <= v < 2 ** 32:
                return 'constant operands (%d, %d): the result %d fits' % (ca, cb, v)
    if kind == 'assert:overflow:Add' and len(ops) == 2:
        # len(x) + k: the length of a slice or vector is at most isize::MAX (of elements that occupy memory), so a small constant fits
        for a_, b_ in ((ops[0], ops[1]), (ops[1], ops[0])):
            a0, kb = _strip(a_), _const_int(_strip(b_))
            if kb is not None and 0 <= kb < 2 ** 16 and a0.tag == 'call' and a0[1].split('::')[-1] == 'len' and len(a0[2]) == 1 and \
                    ('slice' in a0[1] or 'Vec' in a0[1]):
                return 'a slice or vector length (at most isize::MAX) plus the constant %d' % kb
    if kind in ('assert:overflow:Mul', 'assert:overflow:Add') and len(ops) == 2:
        # (j - 1) * B [+ i]   with j in 1..A, i in 0..B and checked_mul(A, B) known to succeed
        x, y = ops
        prod = x if kind.endswith('Add') else None
        if prod is not None and prod.tag == 'binop' and prod[1] == 'Mul':
            i = y
            x, y = prod[2], prod[3]
        else:
            i = None
        if x.tag == 'binop' and x[1] == 'Sub' and _const_int(x[3]) == 1 and x[2].tag == 'index' and x[2][1].tag == 'range':
            A, B = canon(x[2][1][2]), canon(y)
            succ = _succ_atoms(known())
            okmul = any(('checked_mul(%s,%s)' % (A, B)) in z or ('checked_mul(%s,%s)' % (B, A)) in z for z in succ)
            if okmul and (i is None or (i.tag == 'index' and i[1].tag == 'range' and canon(i[1][2]) == B)):
                return '(j-1)*B%s stays below A*B, and checked_mul(A, B) is known to have succeeded' % ('+i' if i is not None else '')
    if kind == 'index' and len(ops) >= 2:
        ty = s['node']['args'][0]['place']['ty'] if s['node']['args'][0]['k'] in ('copy', 'move') else ''
        m = re.search(r'\[[^;\]]+; (\d+)\]', ty)
        idx = ops[1]
        if idx.tag == 'adt' and idx[1].endswith('RangeFull::RangeFull'):
            return 'full-range slice'
        if m:
            n = int(m.group(1))
            c = _const_int(idx)
            if c is not None and c < n:
                return 'constant index %d into an array of length %d' % (c, n)
            if idx.tag == 'range' and _const_int(idx[1]) is not None and _const_int(idx[2]) is not None and _const_int(idx[1]) <= _const_int(idx[2]) <= n:
                return 'constant range %d..%d within an array of length %d' % (_const_int(idx[1]), _const_int(idx[2]), n)
            if idx.tag == 'range' and _const_int(idx[1]) is not None and idx[2].tag == 'const' and idx[2][1] is None and _const_int(idx[1]) <= n:
                return 'constant range %d.. within an array of length %d' % (_const_int(idx[1]), n)
            if idx.tag == 'adt' and idx[1].endswith('RangeTo::RangeTo'):
                end = idx[2][0][1]
                mx = enum_max_discr(ctx, body, end)
                if mx is not None and mx <= n:
                    return 'range end is the discriminant of an enum whose largest discriminant is %d <= array length %d' % (mx, n)
    if kind == 'assert:bounds' and len(ops) == 2:
        c = _const_int(ops[0])
        n = _const_int(ops[1])
        if c is not None and n is not None and c < n:
            return 'constant index %d below constant length %d' % (c, n)
        # the counter of a walk over X (an index loop normalised to its view: zip / skip of collections) indexes X itself, or a
        # collection a dominating guard makes as long as X
        i0 = _strip(ops[0])
        if i0.tag == 'index' and _strip(i0[1]).tag != 'range':
            from bpsa.terms import _view_component, _equal_length
            view = _strip(i0[1])
            n0 = _strip(ops[1])
            target = n0[2][0] if n0.tag == 'call' and n0[1].split('::')[-1] == 'len' and len(n0[2]) == 1 else None
            if target is not None:
                if _view_component(view, target)[0]:
                    return 'the index is the counter of a walk over %s' % canon(target)[:60]
                comps = []
                st_ = [view]
                while st_:
                    x_ = st_.pop()
                    if x_.tag == 'zip':
                        st_ += [x_[1], x_[2]]
                    elif x_.tag == 'adapt' and x_[1] == 'skip':
                        st_.append(x_[2])
                    else:
                        comps.append(x_)
                for c_ in comps:
                    if _equal_length(lambda: ctx.eng.len_equalities(body, bb), c_, target):
                        return 'the index is the counter of a walk over %s, as long as %s by a dominating guard' % (canon(c_)[:40], canon(target)[:40])
        if i0.tag == 'index' and _strip(i0[1]).tag == 'range':
            hi = canon(_strip(i0[1])[2])
            nlen = canon(ops[1])
            if hi == nlen:
                return 'index below %s by the bound of its loop' % hi
            for a in known():
                if a[0] == 'cmp' and a[1] == 'Eq' and {a[2], a[3]} == {hi, nlen}:
                    return 'index below %s by the bound of its loop, and %s == %s (dominating guard)' % (hi, hi, nlen)
            try:
                for (A, B) in ctx.eng.len_equalities(body, bb):
                    if {'len(%s)' % canon(A), 'len(%s)' % canon(B)} == {hi, nlen}:
                        return 'index below %s by the bound of its loop, and %s == %s (dominating guard)' % (hi, hi, nlen)
            except Exception:
                pass
    if kind == 'ilog' and len(ops) >= 1:
        x = canon(ops[0])
        for a in known():
            if a[0] == 'cmp' and a[1] == 'Le' and a[3] == x and a[2].isdigit() and int(a[2]) >= 1:
                return 'argument is at least %s on every path (%s)' % (a[2], a)
            if a[0] == 'pred' and a[1] == 'is_power_of_two' and a[2] == (x,) and a[3]:
                return 'argument is a power of two on every path'
            # 1 << r == a * b  implies a != 0
            if a[0] == 'cmp' and a[1] == 'Eq':
                for sh, pr in ((a[2], a[3]), (a[3], a[2])):
                    if sh.startswith('checked_shl(1,') and pr.startswith('checked_mul(') and x in pr:
                        return 'dominating guard %s == %s makes the product, hence the argument, non-zero' % (sh, pr)
    if kind == 'copy_len' and len(ops) >= 2:
        # dst = array[c..] of a constant-length array, src = the byte representation of a fixed-width integer
        dst, src = ops[0], ops[1]
        d0 = dst
        while d0.tag == 'mut':
            d0 = d0[1]
        n_dst = None
        if d0.tag == 'elemat' and d0[2].tag == 'range':
            base = d0[1]
            while base.tag == 'mut':
                base = base[1]
            lo = _const_int(d0[2][1])
            hi = _const_int(d0[2][2]) if not (d0[2][2].tag == 'const' and d0[2][2][1] is None) else None
            if base.tag == 'array' and lo is not None:
                n_dst = (hi if hi is not None else len(base.args)) - lo
            elif base.tag == 'repeatv' and str(base[2]).isdigit() and lo is not None:
                # [x; N]
                n_dst = (hi if hi is not None else int(base[2])) - lo
        width = None
        s0 = src
        while s0.tag == 'mut':
            s0 = s0[1]
        if s0.tag == 'call':
            m = re.search(r'<impl (u|i)(8|16|32|64|128)>::to_(le|be|ne)_bytes', s0[1])
            if m:
                width = int(m.group(2)) // 8
        if n_dst is not None and width is not None and n_dst == width:
            return 'destination is %d bytes of a constant-length array and the source is a %d-byte integer encoding' % (n_dst, width)
    if kind == 'chunk0' and len(ops) >= 2:
        c = _const_int(ops[1])
        if c is not None and c >= 1:
            return 'constant chunk size %d' % c
    r_ = _index_walk_discharge(kind, ops)
    if r_ is not None:
        return r_
    if kind == 'index' and len(ops) >= 2:
        # x[cursor .. min(cursor + C, len(y))] inside the loop `while cursor < len(y)` whose cursor is set to that bound each time:
        # cursor <= end <= len(y), and len(x) == len(y) (same collection, or a dominating guard)
        from bpsa.terms import window_of, _same_collection, _equal_length
        r0 = _strip(ops[1])
        w = window_of(r0, ctx.eng) if r0.tag == 'range' else None
        if w is not None:
            Y, C = w
            inside = any(getattr(lp, 'window', None) is not None and lp.window[0] is r0[1] for lp in ctx.enclosing_loops(body, bb))
            same = _same_collection(Y, ops[0]) or _equal_length(lambda: ctx.eng.len_equalities(body, bb), Y, ops[0])
            if inside and same:
                return 'window of the loop cursor (%s elements at a time) over a collection as long as %s' % (canon(C), canon(Y)[:40])
    if kind == 'assert:overflow:Sub' and len(ops) == 2 and _const_int(_strip(ops[1])) == 1:
        # len(X) - 1 inside a loop that walks X by index: the body runs only when X is non-empty
        from bpsa.terms import index_view, _view_component
        a0 = _strip(ops[0])
        if a0.tag == 'call' and a0[1].split('::')[-1] == 'len' and len(a0[2]) == 1:
            for lp in ctx.enclosing_loops(body, s['bb']):
                it = lp.iter_term
                while it is not None and it.tag == 'mut':
                    it = it[1]
                if it is not None and it.tag == 'enumerate' and getattr(lp, 'index_range', None) is not None and _view_component(it[1], a0[2][0])[0]:
                    return 'inside an index loop over %s, which has an element whenever the body runs' % canon(a0[2][0])[:60]
    return _const_layout_discharge(kind, ops)


def _index_walk_discharge(kind, ops):
    """`x.len() - 1 - i` inside `for i in 0..n` with n <= x.len(): the loop body runs only when x has an element (so len - 1 does not
    wrap) and i <= len - 1"""
    if kind != 'assert:overflow:Sub' or len(ops) != 2:
        return None
    from bpsa.terms import index_view, _view_component, _same_collection
    a, b = ops
    def is_len(t):
        t = _strip(t)
        return t[2][0] if t.tag == 'call' and t[1].split('::')[-1] == 'len' and len(t[2]) == 1 else None
    # (len(X) - 1) - idx(view containing X)
    a0 = _strip(a)
    if a0.tag == 'binop' and a0[1] == 'Sub' and _const_int(_strip(a0[3])) == 1 and is_len(a0[2]) is not None and _strip(b).tag == 'index':
        v = _strip(b)[1]
        v = index_view(v) if v.tag == 'range' else v
        if v is not None and v.tag != 'range' and _view_component(v, is_len(a0[2]))[0]:
            return 'the index walks a collection no longer than %s, so it is at most len - 1' % canon(is_len(a0[2]))[:60]
    return None


def _const_layout_discharge(kind, ops):
    """index arithmetic over a buffer of constant length with constant (or phi-of-constants) offsets: decided by folding the constants
    and by the length polynomials of the views (a symbolic offset that occurs on both sides cancels)"""
    from . import ilen
    try:
        if kind in ('assert:overflow:Mul', 'assert:overflow:Add', 'assert:overflow:Sub') and len(ops) == 2:
            a, b = ilen.cvals(ops[0]), ilen.cvals(ops[1])
            if a is not None and b is not None:
                rs = {(x * y if kind.endswith('Mul') else x + y if kind.endswith('Add') else x - y) for x in a for y in b}
                if all(0 <= v < 2 ** 32 for v in rs):
                    return 'operands take finitely many constant values (%s, %s): every result fits' % (sorted(a), sorted(b))
        if kind == 'index' and len(ops) >= 2:
            total = ilen.clen(ops[0])
            rb = ilen.range_bounds(ops[1], ops[0])
            if rb is not None and ilen.is_const(total):
                lo, hi = rb
                n = total.get((), 0)
                his = {hi.get((), 0)} if ilen.is_const(hi) else None
                if his is None:
                    r0 = ilen._strip(ops[1])
                    endt = None
                    if r0.tag == 'range':
                        endt = r0[2]
                    elif r0.tag == 'adt' and r0[2]:
                        endt = dict(r0[2]).get('end')
                    his = ilen.cvals(endt) if endt is not None else None
                    if his is not None and r0.tag == 'adt' and r0[1].split('::')[-1] == 'RangeToInclusive':
                        his = {v + 1 for v in his}
                if his is not None and max(his) <= n and ilen.ge0(ilen.padd(hi, lo, -1)) and ilen.ge0(lo):
                    return 'range %s within a buffer of constant length %d (start <= end decided on the length polynomials)' % (sorted(his), n)
        if kind == 'split' and len(ops) == 2:
            n = ilen.cvals(ops[1])
            ln = ilen.clen(ops[0])
            if n is not None and ilen.is_const(ln) and max(n) <= ln.get((), 0) and min(n) >= 0:
                return 'split point %s within a view of constant length %d' % (sorted(n), ln.get((), 0))
        if kind == 'copy_len' and len(ops) >= 2:
            a, b = ilen.clen(ops[0]), ilen.clen(ops[1])
            if ilen.is_const(a) and a == b:
                return 'destination view and source both have constant length %d' % a.get((), 0)
    except ilen.NoLen:
        return None
    return None


def enum_max_discr(ctx, body, t):
    """largest discriminant of the crate enum whose discriminant the term `t` is (through casts), else None"""
    t = _strip(t)
    if t.tag != 'discr':
        return None
    x = t[1]
    if x.tag == 'param':
        ty = body.local_ty(x[2])
        adt = ctx.facts.adts.get(ty)
        if adt and adt['kind'] == 'Enum':
            try:
                return max(int(v['discr']) for v in adt['variants'])
            except (TypeError, ValueError):
                return None
    return None


def check_panic_sites(ctx, rule, roots, floor=0, reviewed=None):
    """every panic site reachable from `roots` must be discharged or tabled"""
    rep = ctx.rep
    reviewed = dict(REVIEWED if reviewed is None else reviewed)
    bodies = ctx.facts.reachable_from(roots)
    for b in bodies:
        rep.saw_body(b)
    found = sites(ctx, bodies)
    n = 0
    for s in found:
        n += 1
        why = discharge(ctx, s, scope={b.key for b in bodies})
        where = ctx.where(s['body'], s['bb'])
        key = '%s/%s' % (rule, s['key'])
        if s['kind'] == 'msm_mixed':
            rep.ok(rule, key, 'length preconditions of the mixed MSM are decided by the dedicated rules (one-origin, paired-push)', where, nontrivial=False)
        elif why:
            rep.ok(rule, key, '%s discharged: %s' % (s['kind'], why), where)
        elif s['key'] in reviewed:
            rep.ok(rule, key, '%s tabled: %s' % (s['kind'], reviewed[s['key']]), where, nontrivial=False)
        else:
            rep.violation(rule, key, 'potentially panicking construct %s with operands (%s) is neither discharged by a verified pattern nor in the reviewed table' % (
                s['kind'], ', '.join(short(o, 120) for o in s['ops'])), where)
    rep.floor(rule, 'panic sites enumerated', n, floor)
    rep.extra.setdefault('panic_scan', {})[rule] = {'bodies': len(bodies), 'sites': n}
    return found, bodies
