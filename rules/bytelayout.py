"""Byte layout of a small buffer on one path: which datum every byte of the final slice comes from.

The buffer may be grown (`Vec`: push / extend_from_slice / append / extend) or be a zero-initialised array written positionally
(`buf[a..b].copy_from_slice(x)`, through `split_at_mut`, `get_mut(range)`), and the value handed on may be a prefix / sub-range of it.
Both spellings produce the same layout: a list of runs (source label, first byte of the source, number of bytes).  Offsets and lengths
must fold to constants (they do on a single path: see bpsa/paths.py); anything else raises Unknown and the caller keeps its own rule.
"""
from bpsa.normal import canon
from . import ilen

GROW = {'push': 'byte', 'extend_from_slice': 'seq', 'append': 'seq', 'extend': 'seq'}
# calls that are handed (a view of) the buffer but write no bytes
NOWRITE = {'ok_or', 'ok_or_else', 'branch', 'from_residual', 'get_mut', 'split_at_mut', 'split_at_mut_checked', 'as_mut', 'deref_mut',
           'index_mut', 'as_mut_slice', 'iter_mut', 'unwrap', 'expect', 'reserve', 'with_capacity', 'deref', 'as_slice', 'as_ref', 'len',
           'map_err', 'ok'}
MAXLEN = 4096


class Unknown(Exception):
    pass


def _strip(t):
    while t.tag in ('mut', 'via'):
        t = t[1] if t.tag == 'mut' else t[2]
    return t


def _c(p):
    if not ilen.is_const(p):
        raise Unknown('not a constant: %s' % p)
    return p.get((), 0)


def _bytes_of(t):
    """a constant byte string, if the term is one: a bytes literal, an array of integer constants, `lit.to_vec()`"""
    t = _strip(t)
    if t.tag == 'const' and isinstance(t[1], (bytes, bytearray)):
        return bytes(t[1])
    if t.tag == 'array' and t.args and all(_strip(a).tag == 'const' and isinstance(_strip(a)[1], int) and not isinstance(_strip(a)[1], bool) and 0 <= _strip(a)[1] < 256 for a in t.args):
        return bytes(_strip(a)[1] for a in t.args)
    if t.tag == 'repeatv' and str(t[2]).isdigit() and _strip(t[1]).tag == 'const' and isinstance(_strip(t[1])[1], int) and int(t[2]) <= MAXLEN:
        return bytes([_strip(t[1])[1]]) * int(t[2])
    if t.tag == 'call' and t[1].split('::')[-1] in ('to_vec', 'to_owned', 'into_vec', 'from', 'into', 'as_slice', 'as_ref', 'deref', 'borrow') and len(t[2]) == 1:
        return _bytes_of(t[2][0])
    return None


IDENT = ('to_vec', 'to_owned', 'into_vec', 'as_slice', 'as_ref', 'deref', 'borrow', 'as_mut', 'deref_mut')


def source(t, expand=None):
    """[(label, index)] per byte of a source value"""
    b = _bytes_of(t)
    if b is not None:
        return [('lit', x) for x in b]
    t0 = _strip(t)
    while t0.tag == 'call' and t0[1].split('::')[-1] in IDENT and len(t0[2]) == 1:
        t0 = _strip(t0[2][0])
    if t0.tag == 'array' and t0.args:
        # an array written out byte by byte: constants and bytes picked from another source (`let [b0, b1, b2, b3] = x.to_le_bytes()`)
        cells = []
        for a in t0.args:
            a0 = _strip(a)
            if a0.tag == 'const' and isinstance(a0[1], int) and not isinstance(a0[1], bool) and 0 <= a0[1] < 256:
                cells.append(('lit', a0[1]))
            elif a0.tag == 'elemat' and _strip(a0[2]).tag == 'const' and isinstance(_strip(a0[2])[1], int):
                inner = source(a0[1], expand)
                k = _strip(a0[2])[1]
                if not (0 <= k < len(inner)):
                    raise Unknown('byte %d of a %d-byte source' % (k, len(inner)))
                cells.append(inner[k])
            else:
                cells = None
                break
        if cells is not None:
            return cells
    try:
        n = _c(ilen.clen(t0))
    except (ilen.NoLen, Unknown) as e:
        if expand is not None:
            t1 = expand(t0)
            if t1 is not t0:
                return source(t1, None)
        raise Unknown('source of unknown width: %s (%s)' % (canon(t0)[:60], e))
    if n > MAXLEN:
        raise Unknown('too long')
    lab = canon(t0)
    return [(lab, i, n) for i in range(n)]


class Layout(object):
    def __init__(self, receiver_at, expand=None):
        """receiver_at(site) -> the term of the slice a positional write goes to (argument 0 of the call at that site);
        expand(term) -> the term with crate-local helper calls replaced by their success values"""
        self.receiver_at = receiver_at
        self.expand = expand

    # ---- views: (offset, length) into the root buffer ------------------------------------------
    def view(self, t):
        t = _strip(t)
        if t.tag == 'elemat':
            off, ln = self.view(t[1])
            rb = ilen.range_bounds(t[2], t[1])
            if rb is None:
                raise Unknown('not a range: %s' % canon(t[2])[:40])
            lo, hi = _c(rb[0]), _c(rb[1])
            if not (0 <= lo <= hi <= ln):
                raise Unknown('range %d..%d outside a view of %d bytes' % (lo, hi, ln))
            return off + lo, hi - lo
        if t.tag == 'field' and t[1] in ('0', '1'):
            s = _strip(t[2])
            if s.tag == 'adapt' and s[1] in ('split_at_mut', 'split_at', 'split_at_checked', 'split_at_mut_checked') and len(s.args) >= 3:
                off, ln = self.view(s[2])
                k = _c(ilen.ival(s[3]))
                if not (0 <= k <= ln):
                    raise Unknown('split point outside the view')
                return (off, k) if t[1] == '0' else (off + k, ln - k)
        if t.tag in ('repeatv', 'array', 'call', 'param', 'upvar'):
            try:
                return 0, _c(ilen.clen(t))
            except ilen.NoLen as e:
                raise Unknown(str(e))
        raise Unknown('view %s' % t.tag)

    # ---- the buffer ----------------------------------------------------------------------------
    def buf(self, t):
        """[(label, index[, width])] per byte"""
        if t.tag == 'via':
            return self.buf(t[2])
        if t.tag == 'mut':
            cells = self.buf(t[1])
            growable = self._growable(t[1])
            for e in t[2]:
                if e.tag != 'ev':
                    continue
                cells = self.apply(cells, e, growable)
            return cells
        t0 = t
        if t0.tag == 'elemat':
            cells = self.buf(t0[1])
            rb = ilen.range_bounds(t0[2], t0[1])
            if rb is None:
                raise Unknown('not a range')
            lo = _c(rb[0])
            # the upper bound may be the (unknown to ilen) current length of a grown vector
            try:
                hi = _c(rb[1])
            except (Unknown, ilen.NoLen):
                r0 = _strip(t0[2])
                if r0.tag == 'adt' and r0[1].split('::')[-1] in ('RangeFrom', 'RangeFull'):
                    hi = len(cells)
                else:
                    raise
            if not (0 <= lo <= hi <= len(cells)):
                raise Unknown('slice %d..%d of %d bytes' % (lo, hi, len(cells)))
            return cells[lo:hi]
        if t0.tag == 'call' and t0[1].split('::')[-1] in ('with_capacity', 'new') and ('Vec' in t0[1] or 'vec' in t0[1]):
            return []
        if t0.tag == 'call' and t0[1].split('::')[-1] in ('new', 'from', 'into', 'deref', 'as_ref', 'as_slice', 'borrow', 'deref_mut', 'as_mut') and len(t0[2]) == 1:
            return self.buf(t0[2][0])            # Zeroizing::new(x) and friends
        b = _bytes_of(t0)
        if b is not None:
            return [('lit', x) for x in b]
        raise Unknown('buffer %s' % canon(t0)[:60])

    def _growable(self, base):
        b = _strip(base)
        while b.tag == 'call' and b[1].split('::')[-1] in ('new', 'from', 'into') and len(b[2]) == 1 and 'Vec' not in b[1]:
            b = _strip(b[2][0])
        return b.tag == 'call' and ('Vec' in b[1] or 'vec' in b[1])

    def apply(self, cells, e, growable):
        if e[1] == 'store':
            raise Unknown('element store')
        nm = e[2].split('::')[-1]
        if nm in NOWRITE:
            return cells
        if nm in GROW and growable:
            if not e[3]:
                raise Unknown('grow without a value')
            v = e[3][0]
            if GROW[nm] == 'byte':
                c = _strip(v)
                if c.tag == 'const' and isinstance(c[1], int) and not isinstance(c[1], bool):
                    return cells + [('lit', c[1])]
                return cells + [(canon(c), 0, 1)]
            return cells + source(v, self.expand)
        if nm in ('copy_from_slice', 'clone_from_slice') and e[3]:
            site = e[4][-1] if e[4] else None
            recv = self.receiver_at(site)
            if recv is None:
                raise Unknown('receiver of a positional write not found')
            off, ln = self.view(recv)
            src = source(e[3][0], self.expand)
            if len(src) != ln:
                raise Unknown('copy of %d bytes into %d' % (len(src), ln))
            if off + ln > len(cells):
                raise Unknown('write past the end')
            return cells[:off] + src + cells[off + ln:]
        raise Unknown('event %s' % nm)


def runs(cells):
    """compress per-byte cells into readable runs: literals as byte strings, whole sources by their label, parts as label[a..b]"""
    out = []
    i = 0
    while i < len(cells):
        c = cells[i]
        if c[0] == 'lit':
            j = i
            bs = []
            while j < len(cells) and cells[j][0] == 'lit':
                bs.append(cells[j][1])
                j += 1
            out.append(repr(bytes(bs)))
            i = j
            continue
        j = i
        while j + 1 < len(cells) and cells[j + 1][0] == c[0] and cells[j + 1][1] == cells[j][1] + 1:
            j += 1
        first, last, width = c[1], cells[j][1], c[2]
        if first == 0 and last == width - 1:
            out.append(c[0])
        else:
            out.append('%s[%d..%d]' % (c[0], first, last + 1))
        i = j + 1
    return out
