//! Type-level witnesses for tari_bulletproofs_plus, named as an external user names the crate.
//!
//! * compile-pass witnesses are ordinary items of this library: `cargo +nightly check` fails if one stops holding;
//! * compile-fail witnesses are doc tests with an error code (`cargo +nightly test --doc`), each paired with a compiling
//!   twin (`no_run`: nothing from the crate under analysis is ever executed) that differs only by the offending line.
#![allow(dead_code)]

use curve25519_dalek::ristretto::RistrettoPoint;
use tari_bulletproofs_plus::{
    commitment_opening::CommitmentOpening,
    extended_mask::ExtendedMask,
    generators::pedersen_gens::ExtensionDegree,
    range_parameters::RangeParameters,
    range_proof::RangeProof,
    range_statement::RangeStatement,
    range_witness::RangeWitness,
    BulletproofGens,
    PedersenGens,
};

fn assert_send_sync<T: Send + Sync>() {}
fn assert_zeroize_on_drop<T: zeroize::ZeroizeOnDrop>() {}
fn assert_zeroize<T: zeroize::Zeroize>() {}
fn assert_drop_glue<T>() -> bool {
    core::mem::needs_drop::<T>()
}

/// C18 R-C18-4: the shared parameter, statement, proof and witness objects are `Send + Sync`.
pub fn c18_send_sync() {
    assert_send_sync::<RangeParameters<RistrettoPoint>>();
    assert_send_sync::<RangeStatement<RistrettoPoint>>();
    assert_send_sync::<RangeProof<RistrettoPoint>>();
    assert_send_sync::<RangeWitness>();
    assert_send_sync::<BulletproofGens<RistrettoPoint>>();
    assert_send_sync::<PedersenGens<RistrettoPoint>>();
    assert_send_sync::<ExtendedMask>();
    assert_send_sync::<CommitmentOpening>();
    assert_send_sync::<ExtensionDegree>();
}

/// C20 R-C20-1: the secret-owning types wipe themselves when dropped.
pub fn c20_zeroize_on_drop() {
    assert_zeroize_on_drop::<CommitmentOpening>();
    assert_zeroize_on_drop::<RangeWitness>();
    assert_zeroize_on_drop::<ExtendedMask>();
    assert_zeroize::<CommitmentOpening>();
    assert_zeroize::<RangeWitness>();
    assert_zeroize::<ExtendedMask>();
}

/// C17 / C05: `ExtendedMask` cannot be built with a struct literal from outside the crate.
/// ```compile_fail,E0451
/// use curve25519_dalek::scalar::Scalar;
/// use tari_bulletproofs_plus::extended_mask::ExtendedMask;
/// let _m = ExtendedMask { blindings: vec![Scalar::ONE] };
/// ```
/// Compiling twin (the validating constructor):
/// ```no_run
/// use curve25519_dalek::scalar::Scalar;
/// use tari_bulletproofs_plus::{extended_mask::ExtendedMask, generators::pedersen_gens::ExtensionDegree};
/// let _m = ExtendedMask::assign(ExtensionDegree::DefaultPedersen, vec![Scalar::ONE]);
/// ```
pub struct C17MaskLiteral;

/// C17: the blinding vector of an `ExtendedMask` cannot be assigned from outside the crate.
/// ```compile_fail,E0616
/// use curve25519_dalek::scalar::Scalar;
/// use tari_bulletproofs_plus::{extended_mask::ExtendedMask, generators::pedersen_gens::ExtensionDegree};
/// let mut m = ExtendedMask::assign(ExtensionDegree::DefaultPedersen, vec![Scalar::ONE]).unwrap();
/// m.blindings = vec![];
/// ```
/// Compiling twin:
/// ```no_run
/// use curve25519_dalek::scalar::Scalar;
/// use tari_bulletproofs_plus::{extended_mask::ExtendedMask, generators::pedersen_gens::ExtensionDegree};
/// let m = ExtendedMask::assign(ExtensionDegree::DefaultPedersen, vec![Scalar::ONE]).unwrap();
/// let _ = m.blindings();
/// ```
pub struct C17MaskField;

/// C17: `CommitmentOpening` fields are not accessible from outside the crate (no bypass of `r_len`'s check by mutation).
/// ```compile_fail,E0616
/// use curve25519_dalek::scalar::Scalar;
/// use tari_bulletproofs_plus::commitment_opening::CommitmentOpening;
/// let mut o = CommitmentOpening::new(1, vec![Scalar::ONE]);
/// o.r = vec![];
/// ```
/// Compiling twin:
/// ```no_run
/// use curve25519_dalek::scalar::Scalar;
/// use tari_bulletproofs_plus::commitment_opening::CommitmentOpening;
/// let o = CommitmentOpening::new(1, vec![Scalar::ONE]);
/// let _ = o.r_len();
/// ```
pub struct C17OpeningField;

/// C17: `RangeParameters` cannot be built or altered except through `init`.
/// ```compile_fail,E0616
/// use curve25519_dalek::ristretto::RistrettoPoint;
/// use tari_bulletproofs_plus::{generators::pedersen_gens::ExtensionDegree, range_parameters::RangeParameters, ristretto};
/// let pc = ristretto::create_pedersen_gens_with_extension_degree(ExtensionDegree::DefaultPedersen);
/// let mut p: RangeParameters<RistrettoPoint> = RangeParameters::init(4, 1, pc).unwrap();
/// p.bp_gens.gens_capacity = 3;
/// ```
/// Compiling twin:
/// ```no_run
/// use curve25519_dalek::ristretto::RistrettoPoint;
/// use tari_bulletproofs_plus::{generators::pedersen_gens::ExtensionDegree, range_parameters::RangeParameters, ristretto};
/// let pc = ristretto::create_pedersen_gens_with_extension_degree(ExtensionDegree::DefaultPedersen);
/// let p: RangeParameters<RistrettoPoint> = RangeParameters::init(4, 1, pc).unwrap();
/// let _ = p.bit_length();
/// ```
pub struct C17ParametersField;

/// C05 / C15: the fields of a `RangeProof` are private: the only ways to obtain one are the prover and the decoder, and
/// the extension-degree tag cannot be made to disagree with `d1` from outside.
/// ```compile_fail,E0616
/// use tari_bulletproofs_plus::ristretto::RistrettoRangeProof;
/// fn f(p: &RistrettoRangeProof) -> usize { p.d1.len() }
/// ```
/// Compiling twin:
/// ```no_run
/// use tari_bulletproofs_plus::ristretto::RistrettoRangeProof;
/// fn f(p: &RistrettoRangeProof) -> usize { p.extension_degree() as usize }
/// ```
pub struct C05ProofFields;

/// C05: a `RangeProof` cannot be written as a struct literal from outside the crate.
/// ```compile_fail,E0451
/// use curve25519_dalek::{ristretto::CompressedRistretto, scalar::Scalar};
/// use tari_bulletproofs_plus::{generators::pedersen_gens::ExtensionDegree, range_proof::RangeProof};
/// let c = CompressedRistretto([0u8; 32]);
/// let _p: RangeProof<curve25519_dalek::ristretto::RistrettoPoint> = RangeProof {
///     a: c, a1: c, b: c, r1: Scalar::ONE, s1: Scalar::ONE, d1: vec![], li: vec![], ri: vec![],
///     extension_degree: ExtensionDegree::DefaultPedersen,
/// };
/// ```
/// Compiling twin:
/// ```no_run
/// use tari_bulletproofs_plus::ristretto::RistrettoRangeProof;
/// let _p = RistrettoRangeProof::from_bytes(&[1u8; 33]);
/// ```
pub struct C05ProofLiteral;

/// C18: the verifier's zero RNG and the transcript wrapper are not reachable from outside the crate.
/// ```compile_fail,E0603
/// use tari_bulletproofs_plus::utils::nullrng::NullRng;
/// ```
/// Compiling twin:
/// ```no_run
/// use tari_bulletproofs_plus::range_proof::VerifyAction;
/// let _ = VerifyAction::VerifyOnly;
/// ```
pub struct C18NullRngPrivate;

/// C20: the secret-owning types are not `Copy` (a bit-copy would escape the wiping `Drop`).
/// ```compile_fail,E0277
/// use tari_bulletproofs_plus::{commitment_opening::CommitmentOpening, extended_mask::ExtendedMask, range_witness::RangeWitness};
/// fn needs_copy<T: Copy>() {}
/// needs_copy::<CommitmentOpening>();
/// needs_copy::<RangeWitness>();
/// needs_copy::<ExtendedMask>();
/// ```
/// Compiling twin:
/// ```no_run
/// use tari_bulletproofs_plus::{commitment_opening::CommitmentOpening, extended_mask::ExtendedMask, range_witness::RangeWitness};
/// fn needs_zod<T: zeroize::ZeroizeOnDrop>() {}
/// needs_zod::<CommitmentOpening>();
/// needs_zod::<RangeWitness>();
/// needs_zod::<ExtendedMask>();
/// ```
pub struct C20NotCopy;
