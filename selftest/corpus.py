"""Self-test corpus: one-instance-broken variants that must fire, benign refactors that must stay quiet.

Each entry: (name, kind, [(file, old, new), ...], expected rule prefix for `fire` entries).
Edits are exact textual replacements applied to an export of /repo's committed HEAD in a scratch directory outside /repo and
/verif; every variant must still `cargo check`.  All `fire` variants were confirmed (by construction from the properties'
why-tests-cannot analysis) to leave the 30 existing tests green.
"""
RP = 'src/range_proof.rs'
TR = 'src/transcripts.rs'
GEN = 'src/utils/generic.rs'
BG = 'src/generators/bulletproof_gens.rs'

# benign refactors shared by several properties
Q_RENAME_WEIGHT = ('rename-local-weight', 'quiet', [(RP, 'let weight = Scalar::random_not_zero(&mut weight_transcript_rng);', 'let w_i = Scalar::random_not_zero(&mut weight_transcript_rng);'),
                                                   (RP, 'weight * (g + e_square_z)', 'w_i * (g + e_square_z)'), (RP, 'weight * (h - e_square * (d * y_nm_i + z))', 'w_i * (h - e_square * (d * y_nm_i + z))'),
                                                   (RP, 'let weighted = weight * (-e_square * z_even_powers * y_nm_1);', 'let weighted = w_i * (-e_square * z_even_powers * y_nm_1);'),
                                                   (RP, 'h_base_scalar += weight * (r1 * y * s1', 'h_base_scalar += w_i * (r1 * y * s1'), (RP, '*g_base_scalar += weight * d1;', '*g_base_scalar += w_i * d1;'),
                                                   (RP, 'dynamic_scalars.push(weight * (-e));', 'dynamic_scalars.push(w_i * (-e));'), (RP, 'dynamic_scalars.push(-weight);', 'dynamic_scalars.push(-w_i);'),
                                                   (RP, 'dynamic_scalars.push(weight * (-e_square));', 'dynamic_scalars.push(w_i * (-e_square));'),
                                                   (RP, 'dynamic_scalars.extend(challenges_sq.into_iter().map(|c| weight * -e_square * c));', 'dynamic_scalars.extend(challenges_sq.into_iter().map(|c| w_i * -e_square * c));'),
                                                   (RP, 'dynamic_scalars.extend(challenges_sq_inv.into_iter().map(|c| weight * -e_square * c));', 'dynamic_scalars.extend(challenges_sq_inv.into_iter().map(|c| w_i * -e_square * c));')], None)
Q_ERRMSG = ('change-error-messages', 'quiet', [(RP, '"Range statements or proofs length empty"', '"empty batch"'), (RP, '"Vector L length not equal to vector R length"', '"|L| != |R|"'),
                                               ('src/range_statement.rs', '"Incorrect number of minimum value promises"', '"promise count"')], None)
Q_REORDER_GUARDS = ('reorder-independent-guards', 'quiet', [(RP, '''        if statements.len() != proofs.len() {
            return Err(ProofError::InvalidArgument(
                "Range statements and proofs length mismatch".to_string(),
            ));
        }
        if transcripts.len() != statements.len() {
            return Err(ProofError::InvalidArgument(
                "Range statements and transcripts length mismatch".to_string(),
            ));
        }''', '''        if transcripts.len() != statements.len() {
            return Err(ProofError::InvalidArgument(
                "Range statements and transcripts length mismatch".to_string(),
            ));
        }
        if statements.len() != proofs.len() {
            return Err(ProofError::InvalidArgument(
                "Range statements and proofs length mismatch".to_string(),
            ));
        }''')], None)
Q_EXTRACT_PROMISE_LOOP = ('extract-promise-absorption-helper', 'quiet', [(TR, '''        for item in &statement.minimum_value_promises {
            if let Some(minimum_value) = item {
                transcript.append_u64(b"vi - minimum_value", *minimum_value);
            } else {
                transcript.append_u64(b"vi - minimum_value", 0);
            }
        }
''', '''        Self::absorb_promises(transcript, statement);
'''), (TR, '''    pub(crate) fn challenges_y_z(''', '''    fn absorb_promises(transcript: &mut Transcript, statement: &RangeStatement<P>) {
        for item in &statement.minimum_value_promises {
            if let Some(minimum_value) = item {
                transcript.append_u64(b"vi - minimum_value", *minimum_value);
            } else {
                transcript.append_u64(b"vi - minimum_value", 0);
            }
        }
    }

    pub(crate) fn challenges_y_z(''')], None)
Q_FOR_EACH = ('for-loop-to-for-each', 'quiet', [(TR, '''        for item in g_base_compressed {
            transcript.validate_and_append_point(b"G", item)?;
        }''', '''        g_base_compressed
            .iter()
            .try_for_each(|item| transcript.validate_and_append_point(b"G", item))?;''')], None)
Q_STD_LE_BYTES = ('std-to_le_bytes-instead-of-byteorder', 'quiet', [(BG, '            LittleEndian::write_u32(&mut label[1..5], party_index);', '            label[1..].copy_from_slice(&party_index.to_le_bytes());')], None)
Q_COMPOUND_ASSIGN = ('compound-assignment-in-doubling-loop', 'quiet', [(RP, '''                d_sum = d_sum + d_sum * d_sum_temp_z;
                d_sum_temp_z = d_sum_temp_z * d_sum_temp_z;''', '''                d_sum += d_sum * d_sum_temp_z;
                d_sum_temp_z *= d_sum_temp_z;''')], None)
Q_ZEROIZING_PUBLIC = ('wrap-public-vector-in-zeroizing', 'quiet', [(RP, 'let mut y_powers = Vec::with_capacity(y_powers_len);', 'let mut y_powers = Zeroizing::new(Vec::with_capacity(y_powers_len));')], None)

CORPUS = {
    'C01': [
        ('y-power-by-squaring-one-ahead', 'fire', [(RP, '            let y_nm = y.pow_vartime([full_length as u64]);', '''            let mut y_nm = y * y;
            for _ in 1..rounds {
                y_nm = y_nm * y_nm;
            }''')], 'R-C01-8'),
        ('y-power-by-squaring-from-y', 'quiet', [(RP, '            let y_nm = y.pow_vartime([full_length as u64]);', '''            let mut y_nm = y;
            for _ in 0..rounds {
                y_nm = y_nm * y_nm;
            }''')], None),
        ('last-masking-base-point-never-derived', 'fire', [('src/ristretto.rs', '        for (i, point) in (ExtensionDegree::MINIMUM..).zip(arr.iter_mut()) {', '        for (i, point) in (ExtensionDegree::MINIMUM..ExtensionDegree::MAXIMUM).zip(arr.iter_mut()) {')], 'R-C01-7'),
        ('masking-base-point-range-closed-at-count', 'quiet', [('src/ristretto.rs', '        for (i, point) in (ExtensionDegree::MINIMUM..).zip(arr.iter_mut()) {', '        for (i, point) in (ExtensionDegree::MINIMUM..=ExtensionDegree::MAXIMUM).zip(arr.iter_mut()) {')], None),
        ('doubling-recurrence-linear', 'fire', [(RP, 'd_sum_temp_z = d_sum_temp_z * d_sum_temp_z;', 'd_sum_temp_z = d_sum_temp_z * z_square;')], 'R-C01-1'),
        ('padding-from-first-statement', 'fire', [(RP, '''            max_statement.generators.max_aggregation_factor(),
        )?;''', '''            first_statement.generators.max_aggregation_factor(),
        )?;''')], 'R-C01-2'),
        ('doubling-recurrence-compound-assign-linear', 'fire', [(RP, '''                d_sum = d_sum + d_sum * d_sum_temp_z;
                d_sum_temp_z = d_sum_temp_z * d_sum_temp_z;''', '''                d_sum += d_sum * d_sum_temp_z;
                d_sum_temp_z *= z_square;''')], 'R-C01-1'),
        Q_RENAME_WEIGHT, Q_ERRMSG, Q_COMPOUND_ASSIGN,
    ],
    'C02': [
        ('commitment-powers-step-linear-in-a-doubling-table', 'fire', [(RP, '''            let mut z_even_powers = Scalar::ONE;
            for minimum_value_promise in minimum_value_promises {
                z_even_powers *= z_square;
                let weighted = weight * (-e_square * z_even_powers * y_nm_1);''', '''            let mut z_table = Vec::with_capacity(aggregation_factor);
            z_table.push(z_square);
            let mut z_step = z_square;
            while z_table.len() < aggregation_factor {
                let shifted = z_table.iter().map(|p| p * z_step).collect::<Vec<Scalar>>();
                z_table.extend(shifted);
                z_step *= z_square;
            }
            for (minimum_value_promise, z_even_powers) in minimum_value_promises.into_iter().zip(z_table) {
                let weighted = weight * (-e_square * z_even_powers * y_nm_1);''')], 'R-C02-11'),
        ('commitment-absorption-stops-at-the-first-failure', 'fire', [(TR, '''        for item in &statement.commitments_compressed {
            transcript.append_point(b"Ci", item);
        }''', '''        statement
            .commitments_compressed
            .iter()
            .try_for_each(|item| transcript.validate_and_append_point(b"Ci", item))
            .ok();''')], 'R-C02-10'),
        ('early-accept-zero-rounds', 'fire', [(RP, '            // Check for an overflow from the number of rounds', '            if rounds == 0 && statements.len() == 1 { return Ok(masks); }\n            // Check for an overflow from the number of rounds')], 'R-C02-1'),
        ('radix-three', 'fire', [(RP, '''        let two = Scalar::from(2u8);
        let two_n_minus_one''', '''        let two = Scalar::from(3u8);
        let two_n_minus_one''')], 'R-C02'),
        ('drop-L-R-length-guard', 'fire', [(RP, '''            if li.len() != ri.len() {
                return Err(ProofError::InvalidLength(
                    "Vector L length not equal to vector R length".to_string(),
                ));
            }''', '')], 'R-C02-3'),
        ('doubling-recurrence-linear', 'fire', [(RP, 'd_sum_temp_z = d_sum_temp_z * d_sum_temp_z;', 'd_sum_temp_z = d_sum_temp_z * z_square;')], 'R-C02-5'),
        Q_RENAME_WEIGHT, Q_ERRMSG,
    ],
    'C03': [
        ('side-cursor-advanced-for-seeded-members-only', 'fire', [(RP, '        let mut masks = Vec::with_capacity(range_proofs.len());', '''        let mut masks = Vec::with_capacity(range_proofs.len());
        let mut seeded_positions = 0..range_proofs.len();'''), (RP, '''                    if let Some(seed_nonce) = statement.seed_nonce {
                        let mut temp_masks = Vec::with_capacity(extension_degree);''', '''                    if let Some(seed_nonce) = statement.seed_nonce {
                        if seeded_positions.next().is_none() {
                            return Err(ProofError::InvalidLength("position".to_string()));
                        }
                        let mut temp_masks = Vec::with_capacity(extension_degree);''')], 'R-C03-6'),
        ('seedless-members-skip-the-equation', 'fire', [(RP, '''                    } else {
                        masks.push(None);
                    }
                    if extract_masks == VerifyAction::RecoverOnly {''', '''                    } else {
                        masks.push(None);
                        continue;
                    }
                    if extract_masks == VerifyAction::RecoverOnly {''')], 'R-C03-4'),
        ('generator-prefix-any-equal', 'fire', [(RP, '''                .zip(max_statement.generators.gi_base_iter())
                .any(|(a, b)| a != b)''', '''                .zip(max_statement.generators.gi_base_iter())
                .any(|(a, b)| a == b)''')], 'R-C03-3'),
        ('skip-result-in-verify-only', 'fire', [(RP, '                VerifyAction::VerifyOnly => masks.push(None),', '                VerifyAction::VerifyOnly => {},')], 'R-C03-2'),
        ('consistency-from-third-member', 'fire', [(RP, 'for (i, (statement, proof)) in statements.iter().zip(range_proofs.iter()).enumerate().skip(1) {', 'for (i, (statement, proof)) in statements.iter().zip(range_proofs.iter()).enumerate().skip(2) {')], 'R-C03-3'),
        ('transcript-count-lower-bound-only', 'fire', [(RP, '        if transcripts.len() != statements.len() {', '        if transcripts.len() < statements.len() {')], 'R-C03-3'),
        ('first-chunk-only', 'fire', [(RP, '''        for ((batch_transcripts, batch_statements), batch_proofs) in chunks {
            let mut result = RangeProof::verify(batch_transcripts, batch_statements, batch_proofs, action)?;

            masks.append(&mut result);
        }''', '''        let mut chunks = chunks;
        if let Some(((batch_transcripts, batch_statements), batch_proofs)) = chunks.next() {
            let mut result = RangeProof::verify(batch_transcripts, batch_statements, batch_proofs, action)?;

            masks.append(&mut result);
        }''')], 'R-C03-1'),
        ('max-selection-against-first-member', 'fire', [(RP, '        let mut max_index = 0;\n', '        let mut max_index = 0;\n        let first_mn = max_mn;\n'),
                                                       (RP, '            if full_length > max_mn {', '            if full_length > first_mn {')], 'R-C03-7'),
        ('max-selection-as-try-fold', 'quiet', [(RP, '''            let full_length = statement
                .commitments
                .len()
                .checked_mul(statement.generators.bit_length())
                .ok_or(ProofError::SizeOverflow)?;
            if full_length > max_mn {
                max_mn = full_length;
                max_index = i;
            }
        }''', '''        }
        let (max_mn, max_index) = statements.iter().enumerate().skip(1).try_fold(
            (max_mn, max_index),
            |(mn, index), (i, statement)| -> Result<(usize, usize), ProofError> {
                let full_length = statement
                    .commitments
                    .len()
                    .checked_mul(statement.generators.bit_length())
                    .ok_or(ProofError::SizeOverflow)?;
                Ok(if full_length > mn { (full_length, i) } else { (mn, index) })
            },
        )?;'''), (RP, '        let mut max_index = 0;\n', '        let max_index = 0;\n'), (RP, '''        let mut max_mn = first_statement
            .commitments''', '''        let max_mn = first_statement
            .commitments''')], None),
        Q_REORDER_GUARDS, Q_ERRMSG, Q_RENAME_WEIGHT,
    ],
    'C04': [
        ('final-messages-absorbed-into-a-clone', 'fire', [(TR, '''        self.transcript.validate_and_append_point(b"A1", a1)?;
        self.transcript.validate_and_append_point(b"B", b)?;

        // Update the RNG
        self.transcript_rng = Self::build_rng(self.transcript, self.bytes.as_ref(), self.external_rng);

        // Return the challenge
        self.transcript.challenge_scalar(b"e")''', '''        let mut updated = self.transcript.clone();
        updated.validate_and_append_point(b"A1", a1)?;
        updated.validate_and_append_point(b"B", b)?;

        // Update the RNG
        self.transcript_rng = Self::build_rng(&updated, self.bytes.as_ref(), self.external_rng);

        // Return the challenge
        self.transcript.challenge_scalar(b"e")''')], 'R-C04-3'),
        ('points-absorbed-modulo-the-group-order', 'fire', [('src/protocols/transcript_protocol.rs', '''    fn append_point<P: FixedBytesRepr>(&mut self, label: &'static [u8], point: &P) {
        self.append_message(label, point.as_fixed_bytes());''', '''    fn append_point<P: FixedBytesRepr>(&mut self, label: &'static [u8], point: &P) {
        self.append_message(label, curve25519_dalek::scalar::Scalar::from_bytes_mod_order(*point.as_fixed_bytes()).as_bytes());''')], 'R-C04-1'),
        ('commitment-absorption-stops-at-the-first-failure', 'fire', [(TR, '''        for item in &statement.commitments_compressed {
            transcript.append_point(b"Ci", item);
        }''', '''        statement
            .commitments_compressed
            .iter()
            .try_for_each(|item| transcript.validate_and_append_point(b"Ci", item))
            .ok();''')], 'R-C04-1'),
        ('skip-first-commitment', 'fire', [(TR, '        for item in &statement.commitments_compressed {', '        for item in statement.commitments_compressed.iter().skip(1) {')], 'R-C04-1'),
        ('drop-bit-length', 'fire', [(TR, '        transcript.append_u64(b"N", bit_length as u64);', '')], 'R-C04-1'),
        ('promise-constant', 'fire', [(TR, '                transcript.append_u64(b"vi - minimum_value", *minimum_value);', '                transcript.append_u64(b"vi - minimum_value", 0);')], 'R-C04-1'),
        ('drop-R', 'fire', [(TR, '        self.transcript.validate_and_append_point(b"R", r)?;', '')], 'R-C04'),
        ('swap-T-M-order', 'quiet', [(TR, '''        transcript.append_u64(b"T", extension_degree as u64);
        transcript.append_u64(b"M", aggregation_factor as u64);''', '''        transcript.append_u64(b"M", aggregation_factor as u64);
        transcript.append_u64(b"T", extension_degree as u64);''')], None),
        Q_EXTRACT_PROMISE_LOOP, Q_FOR_EACH,
    ],
    'C05': [
        ('verifier-absorbs-a-recompressed-H', 'fire', [('src/range_parameters.rs', '''    pub fn h_base_compressed(&self) -> P::Compressed {
        self.pc_gens.h_base_compressed()''', '''    pub fn h_base_compressed(&self) -> P::Compressed {
        self.h_base().compress()''')], 'R-C05-1'),
        ('ignore-d1-tail', 'fire', [(RP, '            for (g_base_scalar, d1) in g_base_scalars.iter_mut().zip(d1.iter()) {', '            for (g_base_scalar, d1) in g_base_scalars.iter_mut().zip(d1.iter()).take(1) {')], 'R-C05-1'),
        ('ignore-last-commitment', 'fire', [(RP, '            dynamic_points.extend(commitments);', '            let nc = commitments.len(); dynamic_points.extend(commitments.into_iter().take(nc - 1)); dynamic_points.push(P::identity());')], 'R-C05-1'),
        Q_RENAME_WEIGHT, Q_ERRMSG,
    ],
    'C06': [
        ('commit-has-one-slot-too-few', 'fire', [('src/generators/pedersen_gens.rs', '''            let scalars = once(value).chain(blindings);
            let g_base_head = self.g_base_vec.iter().take(blindings.len());''', '''            let scalars = once(value).chain(blindings.iter().take(ExtensionDegree::COUNT - 1));
            let g_base_head = self.g_base_vec.iter().take(blindings.len().min(ExtensionDegree::COUNT - 1));''')], 'R-C06-5'),
        ('witness-degrees-compared-in-disjoint-pairs', 'fire', [('src/range_witness.rs', '''        for item in openings.iter().skip(1) {
            if extension_degree != item.r_len()? {''', '''        for item in openings.chunks_exact(2) {
            if item[0].r_len()? != item[1].r_len()? {''')], 'R-C06-4'),
        ('value-fit-accepts-one-more-bit', 'fire', [(RP, '            if bit_length < 64 && opening.v >> bit_length > 0 {', '            if bit_length < 64 && opening.v >> bit_length > 1 {')], 'R-C06-1'),
        ('fit-guard-32', 'fire', [(RP, 'if bit_length < 64 && opening.v >> bit_length > 0 {', 'if bit_length < 32 && opening.v >> bit_length > 0 {')], 'R-C06-1'),
        ('opening-check-first-only', 'fire', [(RP, '        for (opening, commitment) in witness.openings.iter().zip(statement.commitments.iter()) {', '        for (opening, commitment) in witness.openings.iter().zip(statement.commitments.iter()).take(1) {')], 'R-C06'),
        ('extra-top-bit-rejection', 'fire', [(RP, '            // If the bit length is large enough, no `u64` value can overflow\n', '            if bit_length > 1 && opening.v >> (bit_length - 1) > 0 { return Err(ProofError::InvalidLength("x".to_string())); }\n')], 'R-C06'),
        Q_ERRMSG, Q_ZEROIZING_PUBLIC,
    ],
    'C07': [
        ('statement-clone_from-keeps-the-old-promises', 'fire', [('src/range_statement.rs', '''#[derive(Clone)]
pub struct RangeStatement<P: Compressable + Precomputable> {''', '''impl<P: Compressable + Precomputable + Clone> Clone for RangeStatement<P>
where P::Compressed: Clone
{
    fn clone(&self) -> Self {
        Self {
            generators: self.generators.clone(),
            commitments: self.commitments.clone(),
            commitments_compressed: self.commitments_compressed.clone(),
            minimum_value_promises: self.minimum_value_promises.clone(),
            seed_nonce: self.seed_nonce,
        }
    }

    fn clone_from(&mut self, source: &Self) {
        self.generators.clone_from(&source.generators);
        self.commitments.clone_from(&source.commitments);
        self.commitments_compressed.clone_from(&source.commitments_compressed);
        self.seed_nonce = source.seed_nonce;
    }
}

pub struct RangeStatement<P: Compressable + Precomputable> {''')], 'R-C07-5'),
        ('promise-fit-over-first-statement-only', 'fire', [(RP, '            for value in Iterator::flatten(statement.minimum_value_promises.iter()) {', '            for value in Iterator::flatten(first_statement.minimum_value_promises.iter()) {')], 'R-C07-4'),
        ('promise-on-wrong-weight', 'fire', [(RP, '                    h_base_scalar -= weighted * Scalar::from(minimum_value);', '                    h_base_scalar -= weight * Scalar::from(minimum_value);')], 'R-C07-2'),
        ('range-guard-from-second-statement', 'fire', [(RP, '''        for (i, statement) in statements.iter().enumerate() {
            for value''', '''        for (i, statement) in statements.iter().enumerate().skip(1) {
            for value''')], 'R-C07-4'),
        ('promise-shifted-by-the-vector-capacity', 'fire', [(RP, '                if bit_length < 64 && value >> bit_length > 0 {', '                if max_mn < 64 && value >> max_mn > 0 {')], 'R-C07-4'),
        ('promise-not-absorbed', 'fire', [(TR, '                transcript.append_u64(b"vi - minimum_value", *minimum_value);', '                transcript.append_u64(b"vi - minimum_value", 0);')], 'R-C07-1'),
        Q_EXTRACT_PROMISE_LOOP, Q_RENAME_WEIGHT,
    ],
    'C08': [
        ('append-scalar-wipes-its-copy-first', 'fire', [('src/protocols/transcript_protocol.rs', '        self.append_message(label, scalar.as_bytes());', '        let mut bytes = scalar.to_bytes();\n        zeroize::Zeroize::zeroize(&mut bytes);\n        self.append_message(label, &bytes);')], 'R-C08-1'),
        ('unweighted-B-term', 'fire', [(RP, '            dynamic_scalars.push(-weight);', '            dynamic_scalars.push(-Scalar::ONE);')], 'R-C08-3'),
        ('constant-weight', 'fire', [(RP, '            let weight = Scalar::random_not_zero(&mut weight_transcript_rng);', '            let weight = Scalar::ONE;')], 'R-C08'),
        ('weights-ignore-s1', 'fire', [(TR, '        self.transcript.append_scalar(b"s1", s1);', '')], 'R-C08-1'),
        ('unweighted-d1', 'fire', [(RP, '                *g_base_scalar += weight * d1;', '                *g_base_scalar += d1;')], 'R-C08-3'),
        Q_RENAME_WEIGHT, Q_ERRMSG,
    ],
    'C09': [
        ('recover-reversed-components', 'fire', [(RP, '                        for (k, d1_val) in d1.iter().enumerate().take(extension_degree) {', '                        for (k, d1_val) in d1.iter().rev().enumerate().take(extension_degree) {')], 'R-C09'),
        ('prover-reversed-blindings', 'fire', [(RP, '            for (r, alpha1_val) in opening.r.iter().zip(alpha.iter_mut()) {', '            for (r, alpha1_val) in opening.r.iter().rev().zip(alpha.iter_mut()) {')], 'R-C09-2'),
        ('recover-dR-constant-k', 'fire', [(RP, 'this_mask -= challenge_sq_inv * nonce(&seed_nonce, "dR", Some(j), Some(k))?;', 'this_mask -= challenge_sq_inv * nonce(&seed_nonce, "dR", Some(j), Some(0))?;')], 'R-C09-1'),
        Q_ERRMSG, Q_RENAME_WEIGHT,
    ],
    'C10': [
        ('seeded-statements-skip-verification', 'fire', [(RP, '''                    if extract_masks == VerifyAction::RecoverOnly {
                        continue;
                    }''', '''                    if extract_masks == VerifyAction::RecoverOnly || statement.seed_nonce.is_some() {
                        continue;
                    }''')], 'R-C10-1'),
        ('seed-in-accumulator', 'fire', [(RP, '            h_base_scalar += weight * (r1 * y * s1', '            if let Some(sn) = statement.seed_nonce { h_base_scalar += sn - sn; }\n            h_base_scalar += weight * (r1 * y * s1')], 'R-C10-1'),
        Q_RENAME_WEIGHT, Q_ERRMSG,
    ],
    'C11': [
        ('h-iterator-clamped-by-the-wrong-capacity', 'fire', [(BG, '''        AggregatedGensIter {
            n,
            m,
            array: &self.h_vec,''', '''        AggregatedGensIter {
            n: n.min(self.gens_capacity),
            m: m.min(self.gens_capacity),
            array: &self.h_vec,''')], 'R-C11-6'),
        ('h-iterator-clamped-by-its-own-capacities', 'quiet', [(BG, '''        AggregatedGensIter {
            n,
            m,
            array: &self.h_vec,''', '''        AggregatedGensIter {
            n: n.min(self.gens_capacity),
            m: m.min(self.party_capacity),
            array: &self.h_vec,''')], None),
        ('h-tag-stored-at-byte-1', 'fire', [(BG, "            label[0] = b'H';", "            label[1] = b'H';")], 'R-C11-1'),
        ('same-tag-for-both-chains', 'fire', [(BG, "            label[0] = b'H';", "            label[0] = b'G';")], 'R-C11-1'),
        ('label-from-capacity', 'fire', [(BG, '            LittleEndian::write_u32(&mut label[1..5], party_index);', '            LittleEndian::write_u32(&mut label[1..5], party_capacity as u32);')], 'R-C11-1'),
        ('blinding-label-collapsed', 'fire', [('src/ristretto.rs', 'let label = "RISTRETTO_MASKING_BASEPOINT_".to_owned() + &i.to_string();', 'let label = "RISTRETTO_MASKING_BASEPOINT_".to_owned() + &(i / 7).to_string();')], 'R-C11-4'),
        ('chains-into-wrong-vector', 'fire', [(BG, '            g.extend(&mut GeneratorsChain::<P>::new(&label).take(gens_capacity));', '            h.extend(&mut GeneratorsChain::<P>::new(&label).take(gens_capacity));')], 'R-C11-1'),
        ('big-endian-party-index', 'fire', [(BG, '            LittleEndian::write_u32(&mut label[1..5], party_index);', '            label[1..].copy_from_slice(&party_index.to_be_bytes());')], 'R-C11-1'),
        ('label-buffer-hoisted-out-of-loop', 'fire', [(BG, '''            let mut label = [b'G', 0, 0, 0, 0];
''', ''), (BG, '        for (i, (g, h)) in g_vec.iter_mut().zip(h_vec.iter_mut()).enumerate() {', "        let mut label = [b'G', 0, 0, 0, 0];\n        for (i, (g, h)) in g_vec.iter_mut().zip(h_vec.iter_mut()).enumerate() {")], 'R-C11-1'),
        Q_ERRMSG, Q_STD_LE_BYTES,
    ],
    'C12': [
        ('padding-counts-one-block-per-level', 'fire', [(GEN, '''    padded_capacity
        .checked_sub(actual_capacity)
        .ok_or(ProofError::SizeOverflow)''', '''    let _ = padded_capacity;
    actual_capacity
        .checked_mul(max_aggregation_factor.checked_sub(aggregation_factor).ok_or(ProofError::SizeOverflow)?.min(1))
        .ok_or(ProofError::SizeOverflow)''')], 'R-C12-2'),
        ('padding-as-a-product-of-the-difference', 'quiet', [(GEN, '''    padded_capacity
        .checked_sub(actual_capacity)
        .ok_or(ProofError::SizeOverflow)''', '''    let _ = (padded_capacity, actual_capacity);
    2usize
        .checked_mul(bit_length)
        .ok_or(ProofError::SizeOverflow)?
        .checked_mul(max_aggregation_factor.checked_sub(aggregation_factor).ok_or(ProofError::SizeOverflow)?)
        .ok_or(ProofError::SizeOverflow)''')], None),
        ('label-from-capacity', 'fire', [(BG, '            LittleEndian::write_u32(&mut label[1..5], party_index);', '            LittleEndian::write_u32(&mut label[1..5], party_capacity as u32);')], 'R-C12-1'),
        ('padding-from-first-statement', 'fire', [(RP, '''            max_statement.generators.max_aggregation_factor(),
        )?;''', '''            first_statement.generators.max_aggregation_factor(),
        )?;''')], 'R-C12-2'),
        Q_ERRMSG, Q_RENAME_WEIGHT,
    ],
    'C13': [
        ('dR-uses-dL-label', 'fire', [(RP, 'd_r.push(nonce(&seed_nonce, "dR", Some(round), Some(k))?);', 'd_r.push(nonce(&seed_nonce, "dL", Some(round), Some(k))?);')], 'R-C13-1'),
        ('s-equals-r', 'fire', [(RP, 'let s = Zeroizing::new(Scalar::random_not_zero(range_proof_transcript.as_mut_rng()));', 'let s = Zeroizing::new(*r);')], 'R-C13-2'),
        ('dR-clones-dL-without-seed', 'fire', [(RP, '            let d_r = if let Some(seed_nonce) = statement.seed_nonce {', '            let d_r = if statement.seed_nonce.is_none() { Zeroizing::new(d_l.to_vec()) } else if let Some(seed_nonce) = statement.seed_nonce {')], 'R-C13-1'),
        ('no-rejection-sampling', 'fire', [('src/protocols/scalar_protocol.rs', '''        while value == Scalar::ZERO {
            value = Scalar::random(rng);
        }''', '''        if value == Scalar::ZERO {
            value = Scalar::random(rng);
        }''')], 'R-C13'),
        Q_ERRMSG, Q_ZEROIZING_PUBLIC,
    ],
    'C14': [
        ('round-messages-absorbed-into-a-copy', 'fire', [(TR, '''        self.transcript.validate_and_append_point(b"L", l)?;
        self.transcript.validate_and_append_point(b"R", r)?;

        // Update the RNG
        self.transcript_rng = Self::build_rng(self.transcript, self.bytes.as_ref(), self.external_rng);

        // Return the challenge
        self.transcript.challenge_scalar(b"e")''', '''        let mut staged = self.transcript.clone();
        staged.validate_and_append_point(b"L", l)?;
        staged.validate_and_append_point(b"R", r)?;

        // Update the RNG
        self.transcript_rng = Self::build_rng(self.transcript, self.bytes.as_ref(), self.external_rng);

        // Return the challenge
        let e = staged.challenge_scalar(b"e");
        *self.transcript = staged;
        e''')], 'R-C14-3'),
        ('stored-witness-bytes-dropped-under-a-seed', 'fire', [(TR, '''        let rng = Self::build_rng(transcript, bytes.as_ref(), external_rng);
''', '''        let rng = Self::build_rng(transcript, bytes.as_ref(), external_rng);
        let bytes = bytes.filter(|_| statement.seed_nonce.is_none());
''')], 'R-C14-2'),
        ('no-witness-rekey', 'fire', [(TR, '                .rekey_with_witness_bytes("witness".as_bytes(), bytes)\n', '')], 'R-C14'),
        ('witness-bytes-first-blinding-only', 'fire', [(TR, '                for r in &opening.r {', '                for r in opening.r.iter().take(1) {')], 'R-C14-2'),
        ('no-rebuild-after-A', 'fire', [(TR, '''        self.transcript.validate_and_append_point(b"A", a)?;

        // Update the RNG
        self.transcript_rng = Self::build_rng(self.transcript, self.bytes.as_ref(), self.external_rng);
''', '''        self.transcript.validate_and_append_point(b"A", a)?;
''')], 'R-C14-4'),
        Q_EXTRACT_PROMISE_LOOP, Q_ERRMSG,
    ],
    'C15': [
        ('decoder-reads-at-most-64-pairs', 'fire', [(RP, '        // Extract the inner-product folding vectors `li` and `ri`\n        let mut tuples = chunks.by_ref().tuples::<(&[u8], &[u8])>();\n        let (li, ri): (\n            Vec<<P as Compressable>::Compressed>,\n            Vec<<P as Compressable>::Compressed>,\n        ) = tuples\n            .by_ref()\n            .map(|(l, r)| {\n                let bytes_l: [u8; SERIALIZED_ELEMENT_SIZE] = l\n                    .try_into()\n                    .map_err(|_| ProofError::InvalidLength("Unexpected deserialization failure".to_string()))?;\n                let bytes_r: [u8; SERIALIZED_ELEMENT_SIZE] = r\n                    .try_into()\n                    .map_err(|_| ProofError::InvalidLength("Unexpected deserialization failure".to_string()))?;\n                Ok((\n                    <P as Compressable>::Compressed::from_fixed_bytes(bytes_l),\n                    <P as Compressable>::Compressed::from_fixed_bytes(bytes_r),\n                ))\n            })\n            .collect::<Result<Vec<_>, _>>()?\n            .into_iter()\n            .unzip();\n\n', '        // Extract the inner-product folding vectors `li` and `ri`\n        let remaining = chunks.len();\n        let rounds = (remaining / 2).min(usize::BITS as usize);\n        let mut li = Vec::with_capacity(rounds);\n        let mut ri = Vec::with_capacity(rounds);\n        for _ in 0..rounds {\n            li.push(parse_point(&mut chunks)?);\n            ri.push(parse_point(&mut chunks)?);\n        }\n\n'), (RP, '        if tuples.into_buffer().len() > 0 || !chunks.remainder().is_empty() {', '        if remaining % 2 != 0 || !chunks.remainder().is_empty() {')], 'R-C15-1'),
        ('decoder-counted-loop-over-all-pairs', 'quiet', [(RP, '        // Extract the inner-product folding vectors `li` and `ri`\n        let mut tuples = chunks.by_ref().tuples::<(&[u8], &[u8])>();\n        let (li, ri): (\n            Vec<<P as Compressable>::Compressed>,\n            Vec<<P as Compressable>::Compressed>,\n        ) = tuples\n            .by_ref()\n            .map(|(l, r)| {\n                let bytes_l: [u8; SERIALIZED_ELEMENT_SIZE] = l\n                    .try_into()\n                    .map_err(|_| ProofError::InvalidLength("Unexpected deserialization failure".to_string()))?;\n                let bytes_r: [u8; SERIALIZED_ELEMENT_SIZE] = r\n                    .try_into()\n                    .map_err(|_| ProofError::InvalidLength("Unexpected deserialization failure".to_string()))?;\n                Ok((\n                    <P as Compressable>::Compressed::from_fixed_bytes(bytes_l),\n                    <P as Compressable>::Compressed::from_fixed_bytes(bytes_r),\n                ))\n            })\n            .collect::<Result<Vec<_>, _>>()?\n            .into_iter()\n            .unzip();\n\n', '        // Extract the inner-product folding vectors `li` and `ri`\n        let remaining = chunks.len();\n        let rounds = remaining / 2;\n        let mut li = Vec::with_capacity(rounds);\n        let mut ri = Vec::with_capacity(rounds);\n        for _ in 0..rounds {\n            li.push(parse_point(&mut chunks)?);\n            ri.push(parse_point(&mut chunks)?);\n        }\n\n'), (RP, '        if tuples.into_buffer().len() > 0 || !chunks.remainder().is_empty() {', '        if remaining % 2 != 0 || !chunks.remainder().is_empty() {')], None),
        ('visitor-caps-the-input-length', 'fire', [(RP, '''                RangeProof::from_bytes(v).map_err(|_| serde::de::Error::custom("deserialization error"))''', '''                if v.len() > 801 {
                    return Err(serde::de::Error::custom("deserialization error"));
                }
                RangeProof::from_bytes(v).map_err(|_| serde::de::Error::custom("deserialization error"))''')], 'R-C15-4'),
        ('visitor-drops-a-trailing-byte', 'fire', [(RP, '''                RangeProof::from_bytes(v).map_err(|_| serde::de::Error::custom("deserialization error"))''', '''                RangeProof::from_bytes(&v[..v.len().saturating_sub(1)]).map_err(|_| serde::de::Error::custom("deserialization error"))''')], 'R-C15-4'),
        ('remainder-test-is-not-emptiness', 'fire', [(RP, '        if tuples.into_buffer().len() > 0 || !chunks.remainder().is_empty() {', '        if tuples.into_buffer().len() > 0 || !chunks.remainder().len() == 1 {')], 'R-C15-3'),
        ('encoder-swaps-r1-s1', 'fire', [(RP, '''        buf.extend_from_slice(self.r1.as_bytes());
        buf.extend_from_slice(self.s1.as_bytes());''', '''        buf.extend_from_slice(self.s1.as_bytes());
        buf.extend_from_slice(self.r1.as_bytes());''')], 'R-C15-1'),
        ('reducing-scalar-parser', 'fire', [(RP, '''Option::<Scalar>::from(Scalar::from_canonical_bytes(bytes))
                        .ok_or(ProofError::InvalidArgument("Invalid parsing".to_string()))''', 'Ok(Scalar::from_bytes_mod_order(bytes))')], 'R-C15-2'),
        ('trailing-bytes-accepted', 'fire', [(RP, '        if tuples.into_buffer().len() > 0 || !chunks.remainder().is_empty() {', '        if tuples.into_buffer().len() > 0 {')], 'R-C15-3'),
        Q_ERRMSG,
    ],
    'C16': [
        ('visitor-presizes-from-the-declared-length', 'fire', [(RP, '''            fn visit_bytes<E>(self, v: &[u8]) -> Result<RangeProof<T>, E>''', '''            fn visit_seq<A>(self, mut seq: A) -> Result<RangeProof<T>, A::Error>
            where A: serde::de::SeqAccess<'de> {
                let mut bytes = Vec::with_capacity(seq.size_hint().unwrap_or(0));
                while let Some(byte) = seq.next_element::<u8>()? {
                    bytes.push(byte);
                }
                RangeProof::from_bytes(&bytes).map_err(|_| serde::de::Error::custom("deserialization error"))
            }

            fn visit_bytes<E>(self, v: &[u8]) -> Result<RangeProof<T>, E>''')], 'R-C16-4'),
        ('unchecked-index-in-s-vector', 'fire', [(RP, 's.get(i - j).ok_or(ProofError::SizeOverflow)? *', 's[i - j] *')], 'R-C16-1'),
        ('drop-L-R-length-guard', 'fire', [(RP, '''            if li.len() != ri.len() {
                return Err(ProofError::InvalidLength(
                    "Vector L length not equal to vector R length".to_string(),
                ));
            }''', '')], 'R-C16-5'),
        ('unwrap-decompress', 'fire', [(RP, '''        self.a.decompress().ok_or_else(|| {
            ProofError::InvalidArgument("Member 'a' was not the canonical encoding of a point".to_string())
        })''', '        Ok(self.a.decompress().unwrap())')], 'R-C16-1'),
        ('empty-promise-vector-accepted', 'fire', [('src/range_statement.rs', '        if minimum_value_promises.len() != commitments.len() {', '        if !minimum_value_promises.is_empty() && minimum_value_promises.len() != commitments.len() {')], 'R-C16-5'),
        ('unchecked-dynamic-length', 'fire', [(RP, '            msm_dynamic_len = msm_dynamic_len.checked_add(3).ok_or(ProofError::SizeOverflow)?;', '            msm_dynamic_len = msm_dynamic_len + 3;')], 'R-C16-1'),
        Q_ERRMSG, Q_RENAME_WEIGHT,
    ],
    'C17': [
        ('opening-truncates-its-blinding-factors', 'fire', [('src/commitment_opening.rs', '    pub fn new(v: u64, r: Vec<Scalar>) -> Self {', '    pub fn new(v: u64, mut r: Vec<Scalar>) -> Self {\n        r.truncate(6);')], 'R-C17-3'),
        ('bit-length-128-allowed', 'fire', [('src/range_parameters.rs', '        if bit_length > MAX_RANGE_PROOF_BIT_LENGTH {', '        if bit_length > 2 * MAX_RANGE_PROOF_BIT_LENGTH {')], 'R-C17-1'),
        ('usize-degree-truncated', 'fire', [('src/generators/pedersen_gens.rs', '''            u8::try_from(value).map_err(|_| ProofError::InvalidArgument("Extension degree not valid".to_string()))?,''', '''            value as u8,''')], 'R-C17-1'),
        ('seed-with-two-commitments', 'fire', [('src/range_statement.rs', '        if seed_nonce.is_some() && commitments.len() > 1 {', '        if seed_nonce.is_some() && commitments.len() > 2 {')], 'R-C17-1'),
        ('degree-seven', 'fire', [('src/generators/pedersen_gens.rs', '            6 => Ok(ExtensionDegree::AddFiveBasePoints),', '            6 | 7 => Ok(ExtensionDegree::AddFiveBasePoints),')], 'R-C17'),
        ('mask-length-lower-bound-only', 'fire', [('src/extended_mask.rs', 'if blindings.is_empty() || blindings.len() != extension_degree as usize {', 'if blindings.is_empty() || blindings.len() > extension_degree as usize {')], 'R-C17-1'),
        Q_ERRMSG, Q_STD_LE_BYTES,
    ],
    'C18': [
        ('witness-bytes-sized-by-capacity', 'fire', [(TR, '                .map(|o| size_of::<u64>() + o.r.len() * size_of::<Scalar>())', '                .map(|o| size_of::<u64>() + o.r.capacity() * size_of::<Scalar>())'),
                                                     (TR, '''                for r in &opening.r {
                    witness_bytes.extend(r.as_bytes());
                }
            }
''', '''                for r in &opening.r {
                    witness_bytes.extend(r.as_bytes());
                }
            }
            witness_bytes.resize(size, 0);
''')], 'R-C18-6'),
        ('allocation-sized-by-capacity', 'quiet', [(TR, '                .map(|o| size_of::<u64>() + o.r.len() * size_of::<Scalar>())', '                .map(|o| size_of::<u64>() + o.r.capacity().max(o.r.len()) * size_of::<Scalar>())')], None),
        ('verifier-draws-from-os-rng', 'fire', [(RP, 'let mut weight_transcript_rng = weight_transcript.build_rng().finalize(&mut NullRng);', 'let mut weight_transcript_rng = weight_transcript.build_rng().finalize(&mut rand_core::OsRng);')], 'R-C18-3'),
        ('time-dependent-branch', 'fire', [(RP, '        // Store masks from all results\n', '        let _t = std::time::Instant::now();\n        // Store masks from all results\n')], 'R-C18-3'),
        Q_ERRMSG, Q_RENAME_WEIGHT,
    ],
    'C19': [
        ('commitments-and-promises-interleaved', 'fire', [(TR, '''        for item in &statement.commitments_compressed {
            transcript.append_point(b"Ci", item);
        }
        for item in &statement.minimum_value_promises {
            if let Some(minimum_value) = item {
                transcript.append_u64(b"vi - minimum_value", *minimum_value);
            } else {
                transcript.append_u64(b"vi - minimum_value", 0);
            }
        }''', '''        for (commitment, item) in statement.commitments_compressed.iter().zip(&statement.minimum_value_promises) {
            transcript.append_point(b"Ci", commitment);
            if let Some(minimum_value) = item {
                transcript.append_u64(b"vi - minimum_value", *minimum_value);
            } else {
                transcript.append_u64(b"vi - minimum_value", 0);
            }
        }''')], 'R-C19-1'),
        ('j-label-uppercase', 'fire', [(GEN, 'key.append(&mut b"j".to_vec()); // Domain separated index label (1 byte)', 'key.append(&mut b"J".to_vec()); // Domain separated index label (1 byte)')], 'R-C19-2'),
        ('swap-T-M-order', 'fire', [(TR, '''        transcript.append_u64(b"T", extension_degree as u64);
        transcript.append_u64(b"M", aggregation_factor as u64);''', '''        transcript.append_u64(b"M", aggregation_factor as u64);
        transcript.append_u64(b"T", extension_degree as u64);''')], 'R-C19-1'),
        ('domain-separator-v2', 'fire', [('src/protocols/transcript_protocol.rs', 'self.append_message(b"dom-sep", b"Bulletproofs+ Range Proof");', 'self.append_message(b"dom-sep", b"Bulletproofs+ Range Proof v2");')], 'R-C19-1'),
        ('encoder-swaps-r1-s1', 'fire', [(RP, '''        buf.extend_from_slice(self.r1.as_bytes());
        buf.extend_from_slice(self.s1.as_bytes());''', '''        buf.extend_from_slice(self.s1.as_bytes());
        buf.extend_from_slice(self.r1.as_bytes());''')], 'R-C'),
        Q_EXTRACT_PROMISE_LOOP, Q_ERRMSG, Q_STD_LE_BYTES,
    ],
    'C20': [
        ('opening-clone_from-reuses-the-blinding-buffer', 'fire', [('src/commitment_opening.rs', '''#[derive(Clone, Zeroize, ZeroizeOnDrop)]
pub struct CommitmentOpening {''', '''impl Clone for CommitmentOpening {
    fn clone(&self) -> Self {
        Self { v: self.v, r: self.r.clone() }
    }

    fn clone_from(&mut self, source: &Self) {
        self.v = source.v;
        self.r.clone_from(&source.r);
    }
}

#[derive(Zeroize, ZeroizeOnDrop)]
pub struct CommitmentOpening {''')], 'R-C20-3'),
        ('opening-shrinks-the-callers-vector', 'fire', [('src/commitment_opening.rs', '    pub fn new(v: u64, r: Vec<Scalar>) -> Self {', '    pub fn new(v: u64, mut r: Vec<Scalar>) -> Self {\n        r.shrink_to_fit();')], 'R-C20-3'),
        ('seed-copy-in-temporary-vec', 'fire', [(GEN, 'key.extend_from_slice(seed_nonce.as_bytes()); // Fixed length encoding', 'key.append(&mut seed_nonce.to_bytes().to_vec()); // Fixed length encoding')], 'R-C20-2'),
        ('plain-vec-for-bits', 'fire', [(RP, 'let mut a_li = Zeroizing::new(Vec::with_capacity(full_length));', 'let mut a_li = Vec::with_capacity(full_length);'),
                                       (RP, '''            a_li = Zeroizing::new(
                a_lo.iter()
                    .zip(a_hi_offset.iter())
                    .map(|(lo, hi)| lo * e + hi * e_inverse)
                    .collect(),
            );''', '''            a_li = a_lo.iter()
                    .zip(a_hi_offset.iter())
                    .map(|(lo, hi)| lo * e + hi * e_inverse)
                    .collect();''')], 'R-C20-2'),
        ('mask-not-zeroize-on-drop', 'fire', [('src/extended_mask.rs', '#[derive(Debug, PartialEq, Zeroize, ZeroizeOnDrop)]', '#[derive(Debug, PartialEq, Zeroize)]')], 'R-C20-1'),
        ('plain-witness-bytes', 'fire', [(TR, 'let mut witness_bytes = Zeroizing::new(Vec::<u8>::with_capacity(size));', 'let mut witness_bytes = Vec::<u8>::with_capacity(size);'),
                                         (TR, '            Some(witness_bytes)', '            Some(Zeroizing::new(witness_bytes.clone()))')], 'R-C20-2'),
        ('fallible-collect-of-nonces', 'fire', [(RP, '''            let mut d = Zeroizing::new(Vec::with_capacity(extension_degree));
            for k in 0..extension_degree {
                d.push(nonce(&seed_nonce, "d", None, Some(k))?);
            }
            d''', '''            Zeroizing::new(
                (0..extension_degree)
                    .map(|k| nonce(&seed_nonce, "d", None, Some(k)))
                    .collect::<Result<Vec<_>, ProofError>>()?,
            )''')], 'R-C20-3'),
        ('mask-vector-not-presized', 'fire', [(RP, 'let mut temp_masks = Vec::with_capacity(extension_degree);', 'let mut temp_masks = Vec::new();')], 'R-C20-3'),
        Q_ZEROIZING_PUBLIC, Q_ERRMSG,
    ],
}
