#!/bin/bash
# tools/mktree.sh <patch> <dir>: put HEAD + patch into <dir> (scratch export).  Patches recorded before the two fix commits of the
# build phase (6d5d52c, 8878a65) that no longer apply to HEAD are applied to the commit they were made against (05a894e) instead;
# the directory is then marked with a file `.oldbase` and the evaluation tools ignore the violations that base itself has
# (tools/oldbase_filter.py: the two repaired defects, nothing else).
p=$1; d=$2; OLD=05a894e
mkdir -p $d
git -C /repo archive HEAD src Cargo.toml benches tests | tar -x -C $d; cp /repo/Cargo.lock $d/
if (cd $d && git init -q . 2>/dev/null && git apply --check --whitespace=nowarn $p 2>/dev/null); then
  (cd $d && git apply --whitespace=nowarn $p) || exit 3
else
  rm -rf $d/src $d/tests $d/benches $d/Cargo.toml
  git -C /repo archive $OLD src Cargo.toml benches tests | tar -x -C $d
  (cd $d && git apply --whitespace=nowarn $p) || { echo "patch failed on HEAD and on $OLD" >&2; exit 3; }
  touch $d/.oldbase
fi
