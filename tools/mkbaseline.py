#!/usr/bin/env python3
"""tools/mkbaseline.py: record the function decomposition of the pinned tree (/repo HEAD, all cfg sets) in baseline_fns.json.
Run once at the pinned commit (and after a `fix:` commit that adds or removes a function); checks only read the file."""
import sys, os, json
sys.path.insert(0, os.path.dirname(os.path.dirname(os.path.abspath(__file__))))
from bpsa import build
out = {}
for cfg in ('default', 'nodefault', 'rand'):
    path, _ = build.facts_path(cfg)
    j = json.load(open(path))
    for f in j['fns']:
        if f['label'] == 'fn' and f['kind'] != 'Closure':
            out[f['path']] = {'path': f['path'], 'sig': f.get('sig'), 'impl_self': f.get('impl_self'), 'impl_trait': f.get('impl_trait'), 'kind': f['kind']}
adts = set()
for cfg in ('default', 'nodefault', 'rand'):
    path, _ = build.facts_path(cfg)
    for a in json.load(open(path))['adts']:
        adts.add(a['path'])
dcp = set()
for cfg in ('default', 'nodefault', 'rand'):
    path, _ = build.facts_path(cfg)
    for f in json.load(open(path))['fns']:
        for b in f['blocks']:
            t = b['term']
            if t['k'] == 'call' and t['func'].get('def') in ('std::ops::Fn::call', 'std::ops::FnMut::call_mut', 'std::ops::FnOnce::call_once') and '{closure' in (t['func'].get('res') or ''):
                dcp.add(t['func']['res'].split('::{closure')[0])
atp = set()
for cfg in ('default', 'nodefault', 'rand'):
    path, _ = build.facts_path(cfg)
    for f in json.load(open(path))['fns']:
        for b in f['blocks']:
            t = b['term']
            if t['k'] == 'call' and t['func'].get('def') in ('std::result::Result::<T, E>::and_then', 'std::option::Option::<T>::and_then'):
                atp.add(f['path'].split('::{closure')[0])
from bpsa import inline
sigs = set()
for cfg in ('default', 'nodefault', 'rand'):
    path, _ = build.facts_path(cfg)
    inline.lower_effect_collect(json.load(open(path)), None, only_sigs=sigs)
json.dump({'effect_collects': sorted(list(x) for x in sigs), 'fns': sorted(out.values(), key=lambda x: x['path']), 'adts': sorted(adts), 'direct_closure_parents': sorted(dcp), 'and_then_parents': sorted(atp)}, open(os.path.join(os.path.dirname(os.path.dirname(os.path.abspath(__file__))), 'baseline_fns.json'), 'w'), indent=0)
print(len(out), 'functions')
