#!/usr/bin/env python3
"""tools/recheck.py [seeded|refactors] [ids...]: re-run every check against HEAD + each stored patch (scratch export, no tests)
and refresh `caught_by` / `alarms` in the meta.json (the first evaluation is kept as `initially_caught_by` / `first_alarms`)."""
import sys, os, subprocess, json, glob, re, shutil, tempfile
from concurrent.futures import ThreadPoolExecutor
HERE = os.path.dirname(os.path.dirname(os.path.abspath(__file__)))
kind = sys.argv[1] if len(sys.argv) > 1 else 'seeded'
ids = sys.argv[2:] or sorted(os.listdir(os.path.join(HERE, kind)))
CHECKS = sorted(os.path.basename(f)[:-3] for f in glob.glob(os.path.join(HERE, 'rules', 'C[0-9][0-9].py')))


def sh(cmd, cwd=None, env=None):
    r = subprocess.run(cmd, shell=True, cwd=cwd, env=env, stdout=subprocess.PIPE, stderr=subprocess.STDOUT, text=True)
    return r.returncode, r.stdout


def one(i):
    d = os.path.join(HERE, kind, i)
    patch = os.path.join(d, 'patch.diff')
    if not os.path.exists(patch):
        return i, None
    wt = tempfile.mkdtemp(prefix='rk-')
    try:
        sh('git -C /repo archive HEAD src Cargo.toml benches tests | tar -x -C %s; cp /repo/Cargo.lock %s/' % (wt, wt))
        rc, out = sh('git init -q . && git apply --whitespace=nowarn %s' % patch, cwd=wt)
        if rc != 0:
            return i, {'error': 'patch does not apply: ' + out[-300:]}
        env = dict(os.environ, BP_REPO=wt, BP_EVIDENCE_DIR=os.path.join(wt, 'evidence'))
        res = {}
        for c in CHECKS:
            r = subprocess.run([os.path.join(HERE, 'check'), c], env=env, cwd=HERE, stdout=subprocess.PIPE, stderr=subprocess.STDOUT, text=True)
            keys = sorted(set(re.findall(r'rule=\S+ key=(.*)', r.stdout)))
            if r.returncode != 0:
                res[c] = {'exit': r.returncode, 'keys': [k[:160] for k in keys][:8]}
        return i, res
    finally:
        shutil.rmtree(wt, ignore_errors=True)


with ThreadPoolExecutor(max_workers=6) as ex:
    for i, res in ex.map(one, ids):
        if res is None:
            continue
        mp = os.path.join(HERE, kind, i, 'meta.json')
        meta = json.load(open(mp)) if os.path.exists(mp) else {}
        if kind == 'seeded':
            if 'initially_caught_by' not in meta and 'caught_by' in meta:
                meta['initially_caught_by'] = meta['caught_by']
            meta['caught_by'] = sorted(res)
            meta['checks'] = res
            meta['caught_by_own_property'] = i[:3] in res
            print(i, 'caught by', sorted(res), '' if i[:3] in res else '   <-- not by its own property')
        else:
            if 'first_alarms' not in meta and 'alarms' in meta:
                meta['first_alarms'] = meta['alarms']
            meta['alarms'] = res
            print(i, 'alarms', {k: v['keys'][:2] for k, v in res.items()} if res else 'none')
        json.dump(meta, open(mp, 'w'), indent=1)
