#!/usr/bin/env python3
"""tools/recheck.py [seeded|refactors] [ids...]: re-run every check against HEAD + each stored patch (scratch export, no tests)
and refresh `caught_by` / `alarms` in the meta.json (the first evaluation is kept as `initially_caught_by` / `first_alarms`)."""
import sys, os, subprocess, json, glob, re, shutil, tempfile
from concurrent.futures import ThreadPoolExecutor
HERE = os.path.dirname(os.path.dirname(os.path.abspath(__file__)))
sys.path.insert(0, os.path.join(HERE, 'tools'))
import oldbase_filter
res_base = {}
kind = sys.argv[1] if len(sys.argv) > 1 else 'seeded'
ids = sys.argv[2:] or sorted(os.listdir(os.path.join(HERE, kind)))
CHECKS = sorted(os.path.basename(f)[:-3] for f in glob.glob(os.path.join(HERE, 'rules', 'C[0-9][0-9].py')))


def sh(cmd, cwd=None, env=None):
    r = subprocess.run(cmd, shell=True, cwd=cwd, env=env, stdout=subprocess.PIPE, stderr=subprocess.STDOUT, text=True)
    return r.returncode, r.stdout


def one(i):
    d = os.path.join(HERE, kind, i)
    patch = os.path.join(d, 'patch.diff')
    if not os.path.exists(patch):
        return i, None
    wt = tempfile.mkdtemp(prefix='rk-')
    try:
        rc, out = sh('%s %s %s' % (os.path.join(HERE, 'tools', 'mktree.sh'), patch, wt))
        if rc != 0:
            return i, {'error': 'patch does not apply: ' + out[-300:]}
        oldbase = os.path.exists(os.path.join(wt, '.oldbase'))
        env = dict(os.environ, BP_REPO=wt, BP_EVIDENCE_DIR=os.path.join(wt, 'evidence'))
        res = {}
        for c in CHECKS:
            r = subprocess.run([os.path.join(HERE, 'check'), c], env=env, cwd=HERE, stdout=subprocess.PIPE, stderr=subprocess.STDOUT, text=True)
            txt = r.stdout
            if oldbase:
                txt, _ = oldbase_filter.filter_text(txt)
            keys = sorted(set(re.findall(r'rule=\S+ key=(.*)', txt)))
            if r.returncode != 0 and keys:
                res[c] = {'exit': r.returncode, 'keys': [k[:160] for k in keys][:8]}
        if oldbase:
            res_base[i] = True
        return i, res
    finally:
        shutil.rmtree(wt, ignore_errors=True)


with ThreadPoolExecutor(max_workers=6) as ex:
    for i, res in ex.map(one, ids):
        if res is None:
            continue
        mp = os.path.join(HERE, kind, i, 'meta.json')
        meta = json.load(open(mp)) if os.path.exists(mp) else {}
        meta['base'] = '05a894e (does not apply to HEAD after the fix commits 6d5d52c, 8878a65)' if res_base.get(i) else 'HEAD'
        if kind == 'seeded':
            if 'initially_caught_by' not in meta and 'caught_by' in meta:
                meta['initially_caught_by'] = meta['caught_by']
            meta['caught_by'] = sorted(res)
            meta['checks'] = res
            meta['caught_by_own_property'] = i[:3] in res
            print(i, 'caught by', sorted(res), '' if i[:3] in res else '   <-- not by its own property')
        else:
            if 'first_alarms' not in meta and 'alarms' in meta:
                meta['first_alarms'] = meta['alarms']
            meta['alarms'] = res
            print(i, 'alarms', {k: v['keys'][:2] for k, v in res.items()} if res else 'none')
        json.dump(meta, open(mp, 'w'), indent=1)
