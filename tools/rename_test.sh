#!/bin/bash
# renames private functions / helpers throughout a scratch copy of /repo and runs every check: all must stay silent
d=$(mktemp -d /tmp/rn-XXXX); cp -r /repo/src /repo/Cargo.toml /repo/Cargo.lock /repo/benches /repo/tests $d/; cd $d
grep -rl "nonce(" src | xargs sed -i 's/\bnonce(/derive_nonce(/g; s/generic::{compute_generator_padding, nonce}/generic::{compute_generator_padding, derive_nonce}/'
sed -i 's/pub fn nonce(/pub fn derive_nonce(/' src/utils/generic.rs
sed -i 's/ristretto_masking_basepoints/masking_points/g; s/ristretto_compressed_masking_basepoints/compressed_masking_points/g; s/fn get_g_base/fn g_base_prefix/; s/get_g_base(/g_base_prefix(/' src/ristretto.rs
sed -i 's/RangeProof::verify(/RangeProof::verify_chunk(/; s/    fn verify(/    fn verify_chunk(/; s/verify_statements_and_generators_consistency/check_batch/g; s/fn li_decompressed/fn decompress_l/; s/li_decompressed()/decompress_l()/; s/fn ri_decompressed/fn decompress_r/; s/ri_decompressed()/decompress_r()/' src/range_proof.rs
grep -rl "random_not_zero" src tests benches | xargs sed -i 's/random_not_zero/sample_nonzero/g'
sed -i 's/fn encode_usize/fn le32/; s/encode_usize(/le32(/g' src/utils/generic.rs
grep -rl "compute_generator_padding" src | xargs sed -i 's/compute_generator_padding/padding_len/g'
sed -i 's/fn build_rng/fn make_rng/; s/Self::build_rng(/Self::make_rng(/g; s/challenges_y_z/draw_y_z/g; s/challenge_round_e/draw_round_e/g; s/challenge_final_e/draw_final_e/g; s/to_verifier_rng/into_weight_rng/g' src/transcripts.rs src/range_proof.rs
sed -i 's/\bmasks\b/results/g; s/\bweight\b/w_i/g; s/temp_masks/mask_acc/g; s/dynamic_scalars/dyn_s/g; s/dynamic_points/dyn_p/g; s/h_base_scalar/hs/g' src/range_proof.rs
CARGO_TARGET_DIR=/verif/.cache/target-rn cargo check --offline --lib 2>&1 | grep -E "^error|Finished" | head -5
cd /verif; for c in $(ls rules/C[0-9][0-9].py | xargs -n1 basename | sed 's/.py//'); do BP_REPO=$d ./check $c | grep -E "VIOLATION|rule=|^  [a-zA-Z]|INFRA" | head -6 | cut -c1-260; done
rm -rf $d /verif/.cache/target-rn
