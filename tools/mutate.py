#!/usr/bin/env python3
"""tools/mutate.py gen|run|tests [options]: mutation analysis of the checks themselves.

  gen            write /tmp/mut/mutants.json: single-token source mutations of the library code of /repo HEAD (tests and comments excluded)
  run [n] [seed] evaluate a sample of n mutants: scratch export, mutate, build facts (fails -> does not compile), run every check;
                 appends one JSON line per mutant to /tmp/mut/results.jsonl
  tests          for the mutants no check reported: run the crate's own test suite on them (killed by the tests / survives both)

A mutant that compiles, is reported by no check and survives the tests is either an equivalent mutant or a gap: it is triaged by hand.
Nothing here is part of a registered check; scratch trees live under /tmp/mut and are removed after use.
"""
import sys, os, re, json, random, subprocess, shutil, tempfile, glob
from concurrent.futures import ThreadPoolExecutor
HERE = os.path.dirname(os.path.dirname(os.path.abspath(__file__)))
OUT = '/tmp/mut'
FILES = ['src/range_proof.rs', 'src/transcripts.rs', 'src/protocols/transcript_protocol.rs', 'src/protocols/scalar_protocol.rs', 'src/protocols/curve_point_protocol.rs',
         'src/utils/generic.rs', 'src/generators/bulletproof_gens.rs', 'src/generators/aggregated_gens_iter.rs', 'src/generators/generators_chain.rs',
         'src/generators/pedersen_gens.rs', 'src/range_statement.rs', 'src/range_witness.rs', 'src/range_parameters.rs', 'src/extended_mask.rs',
         'src/commitment_opening.rs', 'src/ristretto.rs']
SWAPS = [('y', 'z'), ('li', 'ri'), ('a1', 'b'), ('r1', 's1'), ('d_l', 'd_r'), ('a_li', 'a_ri'), ('gi_base', 'hi_base'), ('g_base', 'h_base'), ('a_lo', 'a_hi'),
         ('b_lo', 'b_hi'), ('gi_base_lo', 'gi_base_hi'), ('hi_base_lo', 'hi_base_hi'), ('e', 'e_inverse'), ('y_powers', 'z_even_powers'), ('alpha', 'eta'),
         ('first_statement', 'max_statement'), ('statement', 'first_statement'), ('c_l', 'c_r'), ('e_square', 'e'), ('y_nm_1', 'y_nm_i'), ('challenges_sq', 'challenges_sq_inv')]
REL = [(' < ', ' <= '), (' <= ', ' < '), (' > ', ' >= '), (' >= ', ' > '), (' == ', ' != '), (' != ', ' == '), (' < ', ' > '), (' > ', ' < ')]
ARI = [(' + ', ' - '), (' - ', ' + '), (' * ', ' + '), (' += ', ' -= '), (' -= ', ' += '), (' *= ', ' += ')]
LIT = [(r'\b0\b', '1'), (r'\b1\b', '0'), (r'\b1\b', '2'), (r'\b2\b', '3'), (r'\b64\b', '63'), (r'\b32\b', '31'), (r'\b5\b', '4'), (r'\b3\b', '2')]
ADAPT = [('.skip(1)', ''), ('.skip(1)', '.skip(2)'), ('.rev()', ''), ('.enumerate().skip(1)', '.enumerate()'), ('.take(', '.skip('), ('Some(', 'None::<usize>.or(Some('),
         ('checked_add', 'checked_sub'), ('checked_sub', 'checked_add'), ('checked_mul', 'checked_add'), ('.invert()', ''), ('-e_square', 'e_square'), ('(-e)', '(e)'),
         ('-weight', 'weight'), ('.is_some()', '.is_none()'), ('.is_empty()', '.len() == 1'), ('!', ''), ('&&', '||'), ('||', '&&')]


def code_lines(path):
    """(line number, text) of library code: stops at the test module, skips comments, attributes, use / fn signature lines"""
    out = []
    for i, l in enumerate(open(path).read().split('\n')):
        s = l.strip()
        if s.startswith('#[cfg(test)]') or s.startswith('mod test'):
            break
        if not s or s.startswith('//') or s.startswith('#[') or s.startswith('use ') or s.startswith('///') or s.startswith('pub use') or s.startswith('*'):
            continue
        out.append((i, l))
    return out


def gen():
    muts = []
    for rel in FILES:
        p = os.path.join('/repo', rel)
        if not os.path.exists(p):
            continue
        for (i, l) in code_lines(p):
            s = l.strip()
            cond = any(k in s for k in ('if ', 'while ', '&&', '||', 'assert', '.filter(', '.any(', '.all('))
            if cond:
                for a, b in REL:
                    for m in re.finditer(re.escape(a), l):
                        muts.append((rel, i, l, l[:m.start()] + b + l[m.end():], 'rel'))
            if not any(k in s for k in ('fn ', 'where', 'impl', '->', 'type ', 'const ', '"')):
                for a, b in ARI:
                    for m in re.finditer(re.escape(a), l):
                        muts.append((rel, i, l, l[:m.start()] + b + l[m.end():], 'ari'))
                for a, b in LIT:
                    for m in re.finditer(a, l):
                        if m.start() > 0 and l[m.start() - 1] in '._' or (m.end() < len(l) and l[m.end()] in '._'):
                            continue
                        muts.append((rel, i, l, l[:m.start()] + b + l[m.end():], 'lit'))
            for a, b in ADAPT:
                for m in re.finditer(re.escape(a), l):
                    if a == '!' and (l[m.end():m.end() + 1] == '=' or l[m.start() - 1:m.start()].isalnum() or l[m.end():m.end() + 1] in '(['and l[m.start() - 1:m.start()].isalnum()):
                        continue
                    if a == 'Some(':
                        continue
                    muts.append((rel, i, l, l[:m.start()] + b + l[m.end():], 'adapt'))
            for a, b in SWAPS:
                for x, y in ((a, b), (b, a)):
                    for m in re.finditer(r'(?<![\w.])%s(?![\w(])' % re.escape(x), l):
                        muts.append((rel, i, l, l[:m.start()] + y + l[m.end():], 'swap'))
            # delete a simple effect statement
            if s.endswith(';') and s.count('(') == s.count(')') and re.match(r'^(self\.)?[a-z_][\w.]*\.(push|append|extend|extend_from_slice|append_\w+|validate_and_append_point|zeroize|truncate|clear)\(', s):
                muts.append((rel, i, l, '', 'del'))
            if s.endswith(';') and re.match(r'^\*?[a-z_][\w.\[\]]* (\+=|-=|\*=) ', s):
                muts.append((rel, i, l, '', 'del'))
    # ---- multi-line operators: delete a whole rejecting guard; change a byte-string label; swap two adjacent arguments
    for rel in FILES:
        pth = os.path.join('/repo', rel)
        if not os.path.exists(pth):
            continue
        lines = open(pth).read().split('\n')
        stop = next((i for i, l in enumerate(lines) if l.strip().startswith('#[cfg(test)]') or l.strip().startswith('mod test')), len(lines))
        i = 0
        while i < stop:
            l = lines[i]
            st = l.strip()
            if st.startswith('if ') and st.endswith('{'):
                # find the matching close at the same indentation; the body must be a single `return Err(..);`
                ind = len(l) - len(l.lstrip())
                j = i + 1
                while j < stop and not (lines[j].startswith(' ' * ind + '}') and len(lines[j]) - len(lines[j].lstrip()) == ind):
                    j += 1
                body = ' '.join(x.strip() for x in lines[i + 1:j])
                if j < stop and lines[j].strip() == '}' and body.startswith('return Err(') and body.endswith(';') and j - i <= 8:
                    muts.append((rel, i, '\n'.join(lines[i:j + 1]), '', 'delguard', j))
            for m in re.finditer(r'b"([A-Za-z0-9 _\-]+)"', l):
                lit = m.group(1)
                new_lit = lit[:-1] + ('x' if lit[-1] != 'x' else 'y')
                muts.append((rel, i, l, l[:m.start()] + 'b"' + new_lit + '"' + l[m.end():], 'bytelit'))
            for m in re.finditer(r'"(alpha|dL|dR|d|eta)"', l):
                lit = m.group(1)
                other = {'alpha': 'eta', 'dL': 'dR', 'dR': 'dL', 'd': 'eta', 'eta': 'd'}[lit]
                muts.append((rel, i, l, l[:m.start()] + '"' + other + '"' + l[m.end():], 'bytelit'))
            m = re.search(r'\(([^(),]+), ([^(),]+)\)', l)
            if m and st.endswith(';') and not st.startswith('let (') and m.group(1).strip() != m.group(2).strip() and 'fn ' not in st and '"' not in m.group(0):
                muts.append((rel, i, l, l[:m.start()] + '(' + m.group(2) + ', ' + m.group(1) + ')' + l[m.end():], 'argswap'))
            i += 1
    seen, out = set(), []
    for m in muts:
        k = (m[0], m[1], m[3])
        if k in seen or m[2] == m[3]:
            continue
        seen.add(k)
        d_ = {'id': len(out), 'file': m[0], 'line': m[1] + 1, 'old': m[2], 'new': m[3], 'op': m[4]}
        if len(m) > 5:
            d_['last_line'] = m[5] + 1
        out.append(d_)
    os.makedirs(OUT, exist_ok=True)
    json.dump(out, open(os.path.join(OUT, 'mutants.json'), 'w'), indent=0)
    print(len(out), 'mutants', {o: sum(1 for m in out if m['op'] == o) for o in ('rel', 'ari', 'lit', 'adapt', 'swap', 'del', 'delguard', 'bytelit', 'argswap')})


def export(d):
    subprocess.run('git -C /repo archive HEAD | tar x -C %s' % d, shell=True, check=True)


def apply(d, m):
    p = os.path.join(d, m['file'])
    ls = open(p).read().split('\n')
    if m.get('last_line'):
        assert '\n'.join(ls[m['line'] - 1:m['last_line']]) == m['old'], 'source moved'
        ls[m['line'] - 1:m['last_line']] = []
    else:
        assert ls[m['line'] - 1] == m['old'], 'source moved'
        ls[m['line'] - 1] = m['new']
    open(p, 'w').write('\n'.join(ls))


def one(m):
    d = tempfile.mkdtemp(prefix='mt-', dir=OUT)
    res = {'id': m['id'], 'file': m['file'], 'line': m['line'], 'op': m['op'], 'old': m['old'].strip(), 'new': m['new'].strip()}
    try:
        export(d)
        apply(d, m)
        env = dict(os.environ, BP_REPO=d, BP_EVIDENCE_DIR=os.path.join(d, 'ev'))
        r = subprocess.run([sys.executable, '-c', 'import sys; sys.path.insert(0, %r)\nfrom bpsa import build\ntry:\n    build.facts_path("default")\nexcept build.BuildError:\n    sys.exit(7)' % HERE],
                           env=env, cwd=HERE, stdout=subprocess.PIPE, stderr=subprocess.STDOUT, text=True)
        if r.returncode == 7:
            res['compiles'] = False
            return res
        res['compiles'] = True
        alarms = {}
        for c in sorted(os.path.basename(f)[:-3] for f in glob.glob(os.path.join(HERE, 'rules', 'C[0-9][0-9].py'))):
            r = subprocess.run([os.path.join(HERE, 'check'), c], env=env, cwd=HERE, stdout=subprocess.PIPE, stderr=subprocess.STDOUT, text=True)
            if r.returncode != 0:
                alarms[c] = sorted(set(re.findall(r'rule=\S+ key=(.*)', r.stdout)))[:4]
        res['alarms'] = alarms
        return res
    except Exception as e:
        res['error'] = repr(e)
        return res
    finally:
        shutil.rmtree(d, ignore_errors=True)


def run(n, seed):
    muts = json.load(open(os.path.join(OUT, 'mutants.json')))
    done = set()
    rp = os.path.join(OUT, 'results.jsonl')
    if os.path.exists(rp):
        done = {json.loads(l)['id'] for l in open(rp) if l.strip()}
    rnd = random.Random(seed)
    pool = [m for m in muts if m['id'] not in done]
    rnd.shuffle(pool)
    pick = pool[:n]
    with ThreadPoolExecutor(max_workers=5) as ex, open(rp, 'a') as fh:
        for res in ex.map(one, pick):
            fh.write(json.dumps(res) + '\n')
            fh.flush()
            print(res['id'], res['file'].split('/')[-1], res['line'], res['op'], 'NOCOMPILE' if not res.get('compiles') else (sorted(res.get('alarms', {})) or 'SILENT'), flush=True)


def tests():
    muts = {m['id']: m for m in json.load(open(os.path.join(OUT, 'mutants.json')))}
    rp = os.path.join(OUT, 'results.jsonl')
    rows = [json.loads(l) for l in open(rp) if l.strip()]
    tp = os.path.join(OUT, 'tests.jsonl')
    done = {json.loads(l)['id'] for l in open(tp)} if os.path.exists(tp) else set()
    todo = [r for r in rows if r.get('compiles') and not r.get('alarms') and r['id'] not in done]
    import threading, queue
    lock = threading.Lock()
    tq = queue.Queue()
    for k in range(4):
        tq.put(os.path.join(OUT, 'target%d' % k))

    def work(r):
        tgt = tq.get()
        d = tempfile.mkdtemp(prefix='mtt-', dir=OUT)
        try:
            export(d)
            apply(d, muts[r['id']])
            env = dict(os.environ, CARGO_TARGET_DIR=tgt, CARGO_NET_OFFLINE='true', CARGO_BUILD_JOBS='4')
            import signal
            pr = subprocess.Popen('cargo test --offline --no-fail-fast 2>&1 | grep -E "^test result|FAILED|panicked" | head -8', shell=True, cwd=d, env=env,
                                  stdout=subprocess.PIPE, text=True, start_new_session=True)
            try:
                out = pr.communicate(timeout=1500)[0].strip().splitlines()
            except subprocess.TimeoutExpired:
                # a mutant that no longer terminates: kill the whole process group (the test binary, not only the shell)
                os.killpg(pr.pid, signal.SIGKILL)
                pr.communicate()
                out = ['TIMEOUT']
            green = len([l for l in out if l.startswith('test result: ok')]) >= 3 and not any('FAILED' in l or 'TIMEOUT' in l for l in out)
            rec = dict(r, tests_green=green, tests=out[:4])
            with lock:
                with open(tp, 'a') as fh:
                    fh.write(json.dumps(rec) + '\n')
                print(r['id'], r['file'].split('/')[-1], r['line'], r['op'], 'SURVIVES' if green else 'killed by tests', '|', r['old'][:70], '=>', r['new'][:70], flush=True)
        finally:
            shutil.rmtree(d, ignore_errors=True)
            tq.put(tgt)
    with ThreadPoolExecutor(max_workers=4) as ex:
        list(ex.map(work, todo))


if __name__ == '__main__':
    cmd = sys.argv[1]
    if cmd == 'gen':
        gen()
    elif cmd == 'run':
        run(int(sys.argv[2]) if len(sys.argv) > 2 else 50, int(sys.argv[3]) if len(sys.argv) > 3 else 1)
    elif cmd == 'tests':
        tests()
