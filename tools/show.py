#!/usr/bin/env python3
"""debug: tools/show.py guards|loops|events|calls <fn suffix> [cfg]"""
import sys, os
sys.path.insert(0, os.path.dirname(os.path.dirname(os.path.abspath(__file__))))
from bpsa import build
from bpsa.facts import Facts
from bpsa.terms import Engine, short, fmt
from bpsa.ctx import Ctx
from bpsa.report import Report
what, suffix = sys.argv[1], sys.argv[2]
path, _ = build.facts_path(sys.argv[3] if len(sys.argv) > 3 else 'default')
f = Facts(path)
c = Ctx(f, Engine(f), Report('dbg', 'quick'), 'default', 'quick')
for b in f.find_fn(suffix):
    print('==', b.key)
    if what == 'guards':
        for g in c.guards(b):
            print(' ', g)
            for pc in c.path_conditions(b, g.bb):
                print('      under bb%d %s arms=%s' % (pc[0], short(pc[1], 120), pc[2]))
    elif what == 'loops':
        for h, lp in sorted(c.loops(b).items()):
            print(' ', lp, 'driver_only_exit=%s' % lp.driver_only_exit, 'ok_exits=%s' % lp.ok_exits)
    elif what == 'events':
        ix = c.eng.bx(b)
        for e in ix.events():
            print('  bb%d line %s %s roots=%s  %s' % (e['bb'], e['line'], e['decl'], sorted(e['roots']), short(c.eng.event_term(b, e), 200)))
    elif what == 'calls':
        for bb, t in c.calls(b):
            print('  bb%d line %d %s(%s)' % (bb, t['span']['l0'], t['func'].get('def'), ', '.join(short(a, 100) for a in c.args(b, bb))))
    elif what == 'ret':
        print(short(c.eng.return_term(b), 3000))
