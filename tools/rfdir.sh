#!/bin/bash
# tools/rfdir.sh <refactor N>: persistent scratch export /tmp/rfd-N of HEAD + refactor patch (for debugging with BP_REPO); remove when done
n=$1
d=/tmp/rfd-$n; rm -rf $d
p=$n; [ -f "/verif/refactors/$n/patch.diff" ] && p=/verif/refactors/$n/patch.diff
/verif/tools/mktree.sh $p $d || { echo "patch failed"; exit 3; }
[ -f $d/.oldbase ] && echo "(old base 05a894e)"
echo $d
