#!/bin/bash
# tools/rfdir.sh <refactor N>: persistent scratch export /tmp/rfd-N of HEAD + refactor patch (for debugging with BP_REPO); remove when done
n=$1
d=/tmp/rfd-$n; rm -rf $d; mkdir -p $d
git -C /repo archive HEAD src Cargo.toml benches tests | tar -x -C $d; cp /repo/Cargo.lock $d/
(cd $d && git init -q . 2>/dev/null && git apply --whitespace=nowarn /verif/refactors/$n/patch.diff) || { echo "patch failed"; exit 3; }
echo $d
