#!/bin/bash
# tools/rfall.sh <refactor N>: every check against HEAD + refactor N; prints only checks that alarm
n=$1
d=$(mktemp -d /tmp/rf-XXXX)
/verif/tools/mktree.sh /verif/refactors/$n/patch.diff $d || { echo "patch failed"; rm -rf $d; exit 3; }
cd /verif
for i in $(seq -w 1 20); do
  out=$(BP_EVIDENCE_DIR=$d/evidence BP_REPO=$d ./check C$i 2>&1); rc=$?
  [ -f $d/.oldbase ] && out=$(echo "$out" | python3 /verif/tools/oldbase_filter.py)
  if [ $rc -ne 0 ] && echo "$out" | grep -q "rule="; then echo "== C$i exit $rc"; echo "$out" | grep -E "rule=" | sort -u | cut -c1-${W:-200}; fi
done
[ -f $d/.oldbase ] && echo "(old base)"
rm -rf $d
echo "rfall $n done"
