#!/bin/bash
# tools/rfall.sh <refactor N>: every check against HEAD + refactor N; prints only checks that alarm
n=$1
d=$(mktemp -d /tmp/rf-XXXX); git -C /repo archive HEAD src Cargo.toml benches tests | tar -x -C $d; cp /repo/Cargo.lock $d/
(cd $d && git init -q . 2>/dev/null && git apply --whitespace=nowarn /verif/refactors/$n/patch.diff) || { echo "patch failed"; rm -rf $d; exit 3; }
cd /verif
for i in $(seq -w 1 20); do
  out=$(BP_EVIDENCE_DIR=$d/evidence BP_REPO=$d ./check C$i 2>&1); rc=$?
  if [ $rc -ne 0 ]; then echo "== C$i exit $rc"; echo "$out" | grep -E "rule=" | sort -u | cut -c1-${W:-200}; fi
done
rm -rf $d
echo "rfall $n done"
