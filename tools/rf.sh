#!/bin/bash
# tools/rf.sh <refactor N | path to patch> <check ids...>: run checks against HEAD + patch in a scratch export (no tests)
n=$1; shift
p=$n; [ -f "/verif/refactors/$n/patch.diff" ] && p=/verif/refactors/$n/patch.diff
d=$(mktemp -d /tmp/rf-XXXX); git -C /repo archive HEAD src Cargo.toml benches tests | tar -x -C $d; cp /repo/Cargo.lock $d/
(cd $d && git init -q . 2>/dev/null && git apply --whitespace=nowarn $p) || { echo "patch failed"; rm -rf $d; exit 3; }
cd /verif
for c in "$@"; do BP_EVIDENCE_DIR=$d/evidence BP_REPO=$d ./check $c | grep -vE "^VIOLATION|^  at " | cut -c1-${W:-330}; done
rm -rf $d
