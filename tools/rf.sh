#!/bin/bash
# tools/rf.sh <refactor N | path to patch> <check ids...>: run checks against HEAD + patch in a scratch export (no tests)
n=$1; shift
p=$n; [ -f "/verif/refactors/$n/patch.diff" ] && p=/verif/refactors/$n/patch.diff
d=$(mktemp -d /tmp/rf-XXXX)
/verif/tools/mktree.sh $p $d || { echo "patch failed"; rm -rf $d; exit 3; }
cd /verif
for c in "$@"; do
  out=$(BP_EVIDENCE_DIR=$d/evidence BP_REPO=$d ./check $c)
  [ -f $d/.oldbase ] && out=$(echo "$out" | python3 /verif/tools/oldbase_filter.py)
  echo "$out" | grep -vE "^VIOLATION|^  at " | cut -c1-${W:-330}
done
[ -f $d/.oldbase ] && echo "(old base 05a894e: the two repaired defects of the base are not shown; the summary line still counts them)"
rm -rf $d
