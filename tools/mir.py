#!/usr/bin/env python3
"""tools/mir.py <fn path> [lo hi]: compact dump of the normalised MIR (after splicing / lowering) of one function of $BP_REPO"""
import sys, os
sys.path.insert(0, os.path.dirname(os.path.dirname(os.path.abspath(__file__))))
from bpsa import build
from bpsa.facts import Facts

p, _ = build.facts_path('default')
F = Facts(p)
v = F.fn[sys.argv[1]]
lo, hi = (int(sys.argv[2]), int(sys.argv[3])) if len(sys.argv) > 3 else (0, 1 << 30)


def pp(pl):
    s = '_%d' % pl['l']
    for e in pl['p']:
        s += '.*' if e['k'] == 'deref' else '.%s' % (e.get('name') or e.get('variant') or e.get('i'))
    return s


def op(o):
    if not isinstance(o, dict):
        return str(o)
    if o.get('k') in ('move', 'copy'):
        return o['k'][0] + ':' + pp(o['place'])
    return 'const'


print('spliced', v.j.get('spliced'), 'lowered', v.j.get('lowered_consumers'))
for b in v.blocks:
    if lo <= b['i'] <= hi and not b.get('cleanup') and not b.get('dead'):
        print('bb', b['i'])
        for s in b['stmts']:
            if s['k'] == 'assign':
                rv = s['rv']
                d = rv['k'] + ' ' + (op(rv['op']) if 'op' in rv else pp(rv['place']) if 'place' in rv else ','.join(op(o) for o in rv.get('ops', [])))
                print('   ', pp(s['place']), '=', d, (rv['kind'].get('variant', '') + ' ' + rv['kind'].get('path', '')) if rv['k'] == 'aggregate' and isinstance(rv.get('kind'), dict) else '')
        t = b['term']
        print('   T', t['k'], (t.get('func') or {}).get('def', ''), [op(a) for a in t.get('args', [])], '->', pp(t['dest']) if 'dest' in t else '', t.get('target'), t.get('arms') or '')
for l in v.locals:
    if l.get('name'):
        print(l['i'], l.get('name'), l['ty'][:60])
