#!/usr/bin/env python3
"""tools/seed_eval.py <ID> [--skip-tests]  -- confirm a seeded change delivered under /tmp/seed_out_<ID>/ and run all checks on it.

1. fresh scratch worktree of /repo HEAD under /tmp/seedchk_<ID> (removed at the end, with its build output)
2. existing suite with the patch applied must pass; the demo must fail with the patch and pass without it
3. every check is run against the patched scratch tree (BP_REPO), verdicts are recorded
Writes /verif/seeded/<ID>/{patch.diff, demo file(s), meta.json}."""
import sys, os, subprocess, shutil, json, glob, re, time
HERE = os.path.dirname(os.path.dirname(os.path.abspath(__file__)))
sid = sys.argv[1]
skip = '--skip-tests' in sys.argv
src = '/tmp/seed_out_%s' % sid
wt = '/tmp/seedchk_%s' % sid
prop = sid[:3]


def sh(cmd, cwd=None, env=None, timeout=3000):
    r = subprocess.run(cmd, shell=True, cwd=cwd, env=env, stdout=subprocess.PIPE, stderr=subprocess.STDOUT, text=True, timeout=timeout)
    return r.returncode, r.stdout


patch = os.path.join(src, 'patch.diff')
demos = [p for p in glob.glob(os.path.join(src, '*.rs'))]
assert os.path.exists(patch), 'no patch.diff'
sh('git -C /repo worktree remove --force %s' % wt)
rc, out = sh('git -C /repo worktree add -q --detach %s HEAD' % wt)
assert rc == 0, out
env = dict(os.environ, CARGO_TARGET_DIR=os.path.join(wt, 'target'), CARGO_NET_OFFLINE='true')
res = {'id': sid, 'property': prop}
try:
    rc, out = sh('git apply --whitespace=nowarn %s' % patch, cwd=wt)
    assert rc == 0, 'patch does not apply: ' + out
    res['files_changed'] = sh('git diff --stat -- src | tail -1', cwd=wt)[1].strip()
    if not skip:
        rc, out = sh('cargo test --offline --no-fail-fast 2>&1 | grep -E "^test result|FAILED|error(\\[|:)"', cwd=wt, env=env)
        res['suite_with_patch'] = out.strip().splitlines()
        ok_suite = len([l for l in res['suite_with_patch'] if l.startswith('test result: ok')]) >= 3 and not any('FAILED' in l or 'error' in l for l in res['suite_with_patch'])
        res['suite_green_with_patch'] = ok_suite
        for d in demos:
            shutil.copy(d, os.path.join(wt, 'tests', os.path.basename(d)))
        names = ' '.join('--test %s' % os.path.basename(d)[:-3] for d in demos)
        rc1, out1 = sh('cargo test --offline %s 2>&1 | grep -E "^test result|panicked|FAILED|error(\\[|:)" | head -8' % names, cwd=wt, env=env)
        res['demo_with_patch'] = out1.strip().splitlines()
        sh('git apply -R --whitespace=nowarn %s' % patch, cwd=wt)
        rc2, out2 = sh('cargo test --offline %s 2>&1 | grep -E "^test result|panicked|FAILED|error(\\[|:)" | head -8' % names, cwd=wt, env=env)
        res['demo_without_patch'] = out2.strip().splitlines()
        res['demo_fails_with_patch'] = any('FAILED' in l or 'panicked' in l for l in res['demo_with_patch'])
        res['demo_passes_without_patch'] = bool(res['demo_without_patch']) and all(l.startswith('test result: ok') for l in res['demo_without_patch'] if l.startswith('test result'))
        sh('git apply --whitespace=nowarn %s' % patch, cwd=wt)
        for d in demos:
            os.remove(os.path.join(wt, 'tests', os.path.basename(d)))
    # run every check against the patched tree
    cenv = dict(os.environ, BP_REPO=wt, BP_EVIDENCE_DIR=os.path.join(wt, 'evidence_scratch'))
    verdicts = {}
    for f in sorted(glob.glob(os.path.join(HERE, 'rules', 'C[0-9][0-9].py'))):
        cid = os.path.basename(f)[:-3]
        r = subprocess.run([os.path.join(HERE, 'check'), cid], env=cenv, cwd=HERE, stdout=subprocess.PIPE, stderr=subprocess.STDOUT, text=True)
        keys = re.findall(r'rule=(\S+) key=(.*)', r.stdout)
        verdicts[cid] = {'exit': r.returncode, 'violations': [k[1][:160] for k in keys][:6]}
    res['checks'] = {k: v for k, v in verdicts.items() if v['exit'] != 0}
    res['caught_by'] = sorted(res['checks'])
    res['caught_by_own_property'] = prop in res['checks']
finally:
    sh('git -C /repo worktree remove --force %s' % wt)
    shutil.rmtree(wt, ignore_errors=True)
out_dir = os.path.join(HERE, 'seeded', sid)
os.makedirs(out_dir, exist_ok=True)
shutil.copy(patch, os.path.join(out_dir, 'patch.diff'))
for d in demos:
    shutil.copy(d, os.path.join(out_dir, os.path.basename(d)))
notes = os.path.join(src, 'notes.md')
if os.path.exists(notes):
    shutil.copy(notes, os.path.join(out_dir, 'notes.md'))
meta_p = os.path.join(out_dir, 'meta.json')
meta = json.load(open(meta_p)) if os.path.exists(meta_p) else {}
meta.update(res)
meta['ran'] = 'tools/seed_eval.py %s: scratch worktree of /repo HEAD, `git apply patch.diff`, `cargo test --offline` (existing suite), demo with / without the patch, then BP_REPO=<scratch> ./check <every id>' % sid
json.dump(meta, open(meta_p, 'w'), indent=1)
print(json.dumps({k: v for k, v in res.items() if k not in ('suite_with_patch',)}, indent=1)[:3000])
