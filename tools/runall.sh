#!/bin/bash
# run every implemented check (quick) against /repo and summarise
cd "$(dirname "$0")/.."
rc=0
for f in rules/C[0-9][0-9].py; do
  id=$(basename $f .py)
  out=$(./check $id --tier ${1:-quick} 2>&1); e=$?
  echo "$out" | tail -1
  if [ $e -ne 0 ]; then echo "$out" | head -20; rc=1; fi
done
exit $rc
