#!/usr/bin/env python3
"""Regenerates MANIFEST.json from the rule modules that exist (rules/Cxx.py) and the per-property metadata below."""
import json, os, sys, importlib
HERE = os.path.dirname(os.path.dirname(os.path.abspath(__file__)))
sys.path.insert(0, HERE)

TECH = {
    'C01': 'polynomial normal form of the closed-form aggregation recurrence + one-origin dataflow rule for MSM table/padding (MIR)',
    'C02': 'dominator / guard-edge analysis of the verifier (single verdict gate, shape guards, challenge provenance, decode-before-use)',
    'C03': 'loop-exhaustion and must-pass-through analysis of verify_batch; per-member result counting on the loop DAG; refusal guards',
    'C04': 'structured boundary-event trace of merlin calls (order, labels, data provenance, absorbed-before-challenge dominance)',
    'C05': 'whole-use dataflow: every proof/statement component reaches transcript or gate MSM without extent-changing adapters; privacy witnesses',
    'C06': 'guard normal forms dominating the prover Ok exit + witness-taint of rejecting guards',
    'C07': 'trace + dataflow: promise absorbed, re-added with matching weight term, subtracted before decomposition, range-guarded',
    'C08': 'weight provenance (def-use) + homogeneous-degree analysis of every batch accumulation site',
    'C09': 'sibling-table agreement of nonce derivation sites (labels, index shapes) between prover and recoverer',
    'C10': 'taint (non-interference): seed and action do not reach the verdict',
    'C11': 'constant/dataflow analysis of generator derivation (labels, indices, hash primitives, table construction)',
    'C12': 'must-not taint from capacities to generator labels + one-origin rule for MSM table/padding',
    'C13': 'sink-based role discovery of blinding nonces and provenance of each role (fresh draw per element, distinct labels)',
    'C14': 'def-use/typestate of the transcript RNG (external RNG only through finalize; witness rekey; rebuild after each step)',
    'C15': 'sibling agreement of encoder/decoder field order, canonical scalar parse allow-list, decoder guards, contradiction rule',
    'C16': 'panic-site enumeration over reachable MIR with guard/range discharge patterns; paired-push length rule for the MSM',
    'C17': 'guard normal forms of constructors compared with the documented domain; compile-fail privacy witnesses',
    'C18': 'effect analysis: statics, unsafe, interior mutability, RNG/OS callees; Send+Sync compile-pass witnesses',
    'C19': 'boundary-event trace and evaluated constants compared with the frozen 0.4.0 wire table',
    'C20': 'drop-site ownership analysis with secret taint over MIR Drop terminators; Drop/Zeroize impl coverage; witnesses',
}
REF = {p: '2 / %s' % p for p in TECH}

def main():
    checks, na = [], []
    props = [json.loads(l) for l in open(os.path.join(HERE, 'properties.jsonl'))]
    for p in props:
        pid = p['id']
        path = os.path.join(HERE, 'rules', pid + '.py')
        if not os.path.exists(path):
            na.append({'property_id': pid, 'reason': 'static rules for this property are not implemented yet in this commit (see DESIGN.md section 2 / %s for the plan)' % pid})
            continue
        mod = importlib.import_module('rules.' + pid)
        if getattr(mod, 'NOT_APPLICABLE', None):
            na.append({'property_id': pid, 'reason': mod.NOT_APPLICABLE})
            continue
        checks.append({
            'property_id': pid,
            'quick_cmd': './check %s --tier quick' % pid,
            'thorough_cmd': './check %s --tier thorough' % pid,
            'evidence_file': 'evidence/%s.json' % pid,
            'replay_cmd_template': 'cat {path}',
            'engine': 'bpfacts+bpsa',
            'level_claimed': {'category': 'other', 'text': mod.LEVEL_TEXT, 'design_ref': REF[pid]},
            'level_note': '; '.join(mod.ASSUMPTIONS) + '; trusted base: rustc nightly MIR/type resolution, the bpfacts extractor, the bpsa semantic table for core/alloc/itertools/zeroize.',
            'technique': 'static analysis: ' + TECH[pid],
        })
    man = {
        'version': 1,
        'setup_cmd': 'cd bpfacts && cargo build --offline --release && cd .. && python3 -m compileall -q bpsa rules && python3 -m bpsa.build default',
        'hooks': {
            'guard': '--cfg tari_bulletproofs_plus_verif',
            'enable': 'none needed: the checks read the type-checked program (MIR) of the unmodified source through a rustc wrapper',
            'baseline_off_cmd': 'cd /repo && cargo test --workspace --no-fail-fast --offline',
            'source_commits': [],
            'add_only': True,
        },
        'engines': [
            {'name': 'bpfacts', 'path': 'bpfacts/', 'serves_properties': [c['property_id'] for c in checks],
             'kind_free_text': 'rustc_private driver (RUSTC_WORKSPACE_WRAPPER) serialising MIR, items, evaluated constants to JSON'},
            {'name': 'bpsa', 'path': 'bpsa/', 'serves_properties': [c['property_id'] for c in checks],
             'kind_free_text': 'Python static-analysis library: CFG/dominators/guards, value-term reconstruction, provenance and mutation events, normal forms'},
            {'name': 'witness', 'path': 'witness/', 'serves_properties': ['C05', 'C17', 'C18', 'C20'],
             'kind_free_text': 'compile-pass and compile_fail,E0xxx witnesses (cargo +nightly check / test --doc)'},
        ],
        'checks': checks,
        'not_applicable': na,
        'notes': 'Technique family: static analysis only. Every check inspects /repo\'s current working tree (facts cache is content-addressed by the tree hash). exit 2 = tree does not build (no verdict).',
    }
    json.dump(man, open(os.path.join(HERE, 'MANIFEST.json'), 'w'), indent=1)
    print('checks:', [c['property_id'] for c in checks], 'n/a:', len(na))

main()
