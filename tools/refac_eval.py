#!/usr/bin/env python3
"""tools/refac_eval.py <N> [--skip-tests]: apply the behaviour-preserving refactoring /tmp/refac_out_<N>/patch.diff to a scratch
worktree of /repo HEAD, confirm the suite is green, run every check against it and list the alarms (each is a false alarm to triage).
Copies the patch to /verif/refactors/<N>/ with a meta.json."""
import sys, os, subprocess, shutil, json, glob, re
HERE = os.path.dirname(os.path.dirname(os.path.abspath(__file__)))
n = sys.argv[1]
skip = '--skip-tests' in sys.argv
src = '/tmp/refac_out_%s' % n
wt = '/tmp/refacchk_%s' % n


def sh(cmd, cwd=None, env=None):
    r = subprocess.run(cmd, shell=True, cwd=cwd, env=env, stdout=subprocess.PIPE, stderr=subprocess.STDOUT, text=True)
    return r.returncode, r.stdout


patch = os.path.join(src, 'patch.diff')
sh('git -C /repo worktree remove --force %s' % wt)
rc, out = sh('git -C /repo worktree add -q --detach %s HEAD' % wt)
assert rc == 0, out
res = {'id': n}
try:
    rc, out = sh('git apply --whitespace=nowarn %s' % patch, cwd=wt)
    assert rc == 0, 'patch does not apply: ' + out
    res['stat'] = sh('git diff --stat -- src | tail -1', cwd=wt)[1].strip()
    if not skip:
        env = dict(os.environ, CARGO_TARGET_DIR=os.path.join(wt, 'target'), CARGO_NET_OFFLINE='true')
        rc, out = sh('cargo test --offline --no-fail-fast 2>&1 | grep -E "^test result|FAILED|error(\\[|:)"', cwd=wt, env=env)
        res['suite'] = out.strip().splitlines()
        res['suite_green'] = len([l for l in res['suite'] if l.startswith('test result: ok')]) >= 3 and not any('FAILED' in l or 'error' in l for l in res['suite'])
    cenv = dict(os.environ, BP_REPO=wt, BP_EVIDENCE_DIR=os.path.join(wt, 'evidence_scratch'))
    alarms = {}
    for f in sorted(glob.glob(os.path.join(HERE, 'rules', 'C[0-9][0-9].py'))):
        cid = os.path.basename(f)[:-3]
        r = subprocess.run([os.path.join(HERE, 'check'), cid], env=cenv, cwd=HERE, stdout=subprocess.PIPE, stderr=subprocess.STDOUT, text=True)
        if r.returncode != 0:
            keys = re.findall(r'rule=(\S+) key=(.*)', r.stdout)
            det = [l.strip() for l in r.stdout.splitlines() if l.startswith('  ') and not l.strip().startswith('rule=') and not l.strip().startswith('at ')]
            alarms[cid] = {'exit': r.returncode, 'keys': [k[1][:200] for k in keys][:8], 'detail': [d[:300] for d in det][:8]}
    res['alarms'] = alarms
finally:
    sh('git -C /repo worktree remove --force %s' % wt)
    shutil.rmtree(wt, ignore_errors=True)
out_dir = os.path.join(HERE, 'refactors', str(n))
os.makedirs(out_dir, exist_ok=True)
shutil.copy(patch, os.path.join(out_dir, 'patch.diff'))
if os.path.exists(os.path.join(src, 'notes.md')):
    shutil.copy(os.path.join(src, 'notes.md'), os.path.join(out_dir, 'notes.md'))
mp = os.path.join(out_dir, 'meta.json')
meta = json.load(open(mp)) if os.path.exists(mp) else {}
if 'first_alarms' not in meta and 'alarms' in res:
    meta['first_alarms'] = res['alarms']
meta.update(res)
json.dump(meta, open(mp, 'w'), indent=1)
print(json.dumps(res, indent=1)[:6000])
