#!/usr/bin/env python3
"""stdin: output of ./check run on an old-base tree (see tools/mktree.sh); stdout: the same with the violations of the two defects
repaired after that base (6d5d52c, 8878a65) removed.  Exact keys, plus the same pair under a shifted pair number."""
import sys, re
KEYS = {
    'R-C01-2/pairs/6', 'R-C12-2/pairs/6', 'R-C16-5/pairs/6',
    'R-C03-5/C04-3/verifier/designated.generators.pc_gens.g_base_compressed_vec', 'R-C03-5/C04-3/verifier/designated.generators.pc_gens.h_base_compressed',
    'R-C04-3/verifier/designated.generators.pc_gens.g_base_compressed_vec', 'R-C04-3/verifier/designated.generators.pc_gens.h_base_compressed',
    'R-C05-6/C04-3/verifier/designated.generators.pc_gens.g_base_compressed_vec', 'R-C05-6/C04-3/verifier/designated.generators.pc_gens.h_base_compressed',
    'R-C02-10/C04-3/verifier/designated.generators.pc_gens.g_base_compressed_vec', 'R-C02-10/C04-3/verifier/designated.generators.pc_gens.h_base_compressed',
}


def filter_text(txt):
    lines = txt.split('\n')
    out = []
    i = 0
    dropped = 0
    while i < len(lines):
        l = lines[i]
        m = re.search(r'rule=(\S+) key=(.*)$', l)
        if m:
            key = m.group(2).strip()
            detail = lines[i + 1] if i + 1 < len(lines) else ''
            is_pair = re.search(r'^(R-C01-2|R-C12-2|R-C16-5)/pairs/\d+$', key)
            # the pair of the repaired defect, recognised by what it says (the pair number shifts when fills are added or removed, and
            # another defect may sit at pair 6)
            pair = is_pair and 'g_base_vec' in detail and 'extension_degree' in detail and 'modulo guard equalities' in detail
            if (key in KEYS and not is_pair) or pair:
                dropped += 1
                i += 2
                while i < len(lines) and lines[i].startswith('  at '):
                    i += 1
                continue
        out.append(l)
        i += 1
    return '\n'.join(out), dropped


if __name__ == '__main__':
    t, n = filter_text(sys.stdin.read())
    sys.stdout.write(t)
