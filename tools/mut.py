#!/usr/bin/env python3
"""tools/mut.py <relative file> <old> <new> <check ids...>   -- apply a one-off textual mutation to a scratch copy of /repo
(outside /repo and /verif), run the given checks against it with BP_REPO, print their verdict lines, remove the copy."""
import sys, os, shutil, subprocess, tempfile
HERE = os.path.dirname(os.path.dirname(os.path.abspath(__file__)))
rel, old, new = sys.argv[1], sys.argv[2], sys.argv[3]
checks = sys.argv[4:]
d = tempfile.mkdtemp(prefix='bpmut-')
try:
    for x in ('src', 'Cargo.toml', 'Cargo.lock', 'benches', 'tests'):
        s = os.path.join('/repo', x)
        if os.path.isdir(s):
            shutil.copytree(s, os.path.join(d, x))
        else:
            shutil.copy(s, os.path.join(d, x))
    p = os.path.join(d, rel)
    src = open(p).read()
    n = src.count(old)
    if n != 1 and '--all' not in checks:
        print('pattern occurs %d times' % n)
        sys.exit(3)
    open(p, 'w').write(src.replace(old, new))
    env = dict(os.environ, BP_REPO=d)
    for c in checks:
        if c.startswith('--'):
            continue
        r = subprocess.run([os.path.join(HERE, 'check'), c], env=env, stdout=subprocess.PIPE, stderr=subprocess.STDOUT, text=True, cwd=HERE)
        lines = r.stdout.strip().splitlines()
        print('--- %s exit=%d' % (c, r.returncode))
        for l in lines[:14]:
            print('   ', l[:300])
finally:
    shutil.rmtree(d, ignore_errors=True)
    # restore evidence for the real tree
