#!/usr/bin/env python3
"""debug: tools/ob.py Cxx [filter]  -- run a rule module and print all obligations"""
import sys, os
sys.path.insert(0, os.path.dirname(os.path.dirname(os.path.abspath(__file__))))
import importlib
from bpsa import build
from bpsa.facts import Facts
from bpsa.terms import Engine
from bpsa.ctx import Ctx
from bpsa.report import Report
pid = sys.argv[1]
flt = sys.argv[2] if len(sys.argv) > 2 else ''
path, _ = build.facts_path('default')
f = Facts(path)
rep = Report(pid, 'quick')
rep.cfgs.append('default')
c = Ctx(f, Engine(f), rep, 'default', 'quick')
importlib.import_module('rules.' + pid).run(c)
for o in rep.obligations:
    if flt in o['key'] or flt in o['status']:
        print(o['status'].upper(), o['key'][:160], '|', o['detail'][:500], '|', o['where'])
print(len(rep.obligations))
