// Are seed-derived nonces (d, eta, dL, dR) left in heap blocks released by the prover?
use std::{
    alloc::{GlobalAlloc, Layout, System},
    cell::UnsafeCell,
    sync::atomic::{AtomicBool, AtomicUsize, Ordering},
};

use blake2::Blake2bMac512;
use curve25519_dalek::scalar::Scalar;
use digest::FixedOutput;
use merlin::Transcript;
use rand_chacha::ChaCha12Rng;
use rand_core::SeedableRng;
use tari_bulletproofs_plus::{
    commitment_opening::CommitmentOpening, generators::pedersen_gens::ExtensionDegree, protocols::scalar_protocol::ScalarProtocol,
    range_parameters::RangeParameters, range_proof::RangeProof, range_statement::RangeStatement, range_witness::RangeWitness, ristretto,
};

const MAX: usize = 64;
struct Table(UnsafeCell<[[u8; 32]; MAX]>);
unsafe impl Sync for Table {}
static SECRETS: Table = Table(UnsafeCell::new([[0u8; 32]; MAX]));
static COUNT: AtomicUsize = AtomicUsize::new(0);
static SCANNING: AtomicBool = AtomicBool::new(false);
static LEAKED_BLOCKS: AtomicUsize = AtomicUsize::new(0);
static LEAKED_SCALARS: AtomicUsize = AtomicUsize::new(0);
struct A;
unsafe impl GlobalAlloc for A {
    unsafe fn alloc(&self, l: Layout) -> *mut u8 { System.alloc(l) }
    unsafe fn dealloc(&self, p: *mut u8, l: Layout) {
        if SCANNING.load(Ordering::SeqCst) && l.size() >= 32 {
            let block = core::slice::from_raw_parts(p, l.size());
            let secrets = &*SECRETS.0.get();
            let mut hits = 0;
            for s in secrets.iter().take(COUNT.load(Ordering::SeqCst)) {
                if block.windows(32).any(|w| w == s) { hits += 1; }
            }
            if hits > 0 { LEAKED_BLOCKS.fetch_add(1, Ordering::SeqCst); LEAKED_SCALARS.fetch_add(hits, Ordering::SeqCst); }
        }
        System.dealloc(p, l)
    }
}
#[global_allocator]
static G: A = A;

fn nonce(seed: &Scalar, label: &str, j: Option<u32>, k: Option<u32>) -> Scalar {
    let mut key = vec![0u8];
    key.extend_from_slice(seed.as_bytes());
    if let Some(j) = j { key.push(b'j'); key.extend_from_slice(&j.to_le_bytes()); }
    if let Some(k) = k { key.push(b'k'); key.extend_from_slice(&k.to_le_bytes()); }
    let h = Blake2bMac512::new_with_salt_and_personal(&key, &[], label.as_bytes()).unwrap();
    let mut out = [0u8; 64];
    out.copy_from_slice(h.finalize_fixed().as_slice());
    Scalar::from_bytes_mod_order_wide(&out)
}

fn leaked(degree: ExtensionDegree) -> (usize, usize) {
    let mut rng = ChaCha12Rng::seed_from_u64(7);
    let n = degree as usize;
    let pc = ristretto::create_pedersen_gens_with_extension_degree(degree);
    let params = RangeParameters::init(8, 1, pc).unwrap();
    let blind: Vec<Scalar> = (0..n).map(|_| Scalar::random_not_zero(&mut rng)).collect();
    let c = params.pc_gens().commit(&Scalar::from(77u64), &blind).unwrap();
    let seed = Scalar::random_not_zero(&mut rng);
    let w = RangeWitness::init(vec![CommitmentOpening::new(77, blind)]).unwrap();
    let st = RangeStatement::init(params, vec![c], vec![None], Some(seed)).unwrap();
    // the seed-derived nonces d_k, eta_k, dL_{j,k}, dR_{j,k} (3 rounds for 8 bits)
    let mut secrets = Vec::new();
    for k in 0..n as u32 {
        secrets.push(nonce(&seed, "d", None, Some(k)));
        secrets.push(nonce(&seed, "eta", None, Some(k)));
        for j in 0..3u32 { secrets.push(nonce(&seed, "dL", Some(j), Some(k))); secrets.push(nonce(&seed, "dR", Some(j), Some(k))); }
    }
    unsafe { let t = &mut *SECRETS.0.get(); for (slot, s) in t.iter_mut().zip(secrets.iter()) { *slot = s.to_bytes(); } }
    COUNT.store(secrets.len().min(MAX), Ordering::SeqCst);
    LEAKED_BLOCKS.store(0, Ordering::SeqCst); LEAKED_SCALARS.store(0, Ordering::SeqCst);
    let mut t = Transcript::new(b"leak");
    SCANNING.store(true, Ordering::SeqCst);
    let proof = RangeProof::prove_with_rng(&mut t, &st, &w, &mut rng);
    SCANNING.store(false, Ordering::SeqCst);
    COUNT.store(0, Ordering::SeqCst);
    assert!(proof.is_ok());
    (LEAKED_BLOCKS.load(Ordering::SeqCst), LEAKED_SCALARS.load(Ordering::SeqCst))
}

#[test]
fn seed_derived_nonces_are_not_left_in_released_memory() {
    let mut rep = Vec::new();
    let mut total = 0;
    for d in [ExtensionDegree::DefaultPedersen, ExtensionDegree::AddThreeBasePoints, ExtensionDegree::AddFourBasePoints, ExtensionDegree::AddFiveBasePoints] {
        let (b, s) = leaked(d);
        total += b;
        rep.push(format!("degree {}: {} released block(s) holding {} nonce scalar(s)", d as usize, b, s));
    }
    assert_eq!(total, 0, "{}", rep.join("\n"));
}
