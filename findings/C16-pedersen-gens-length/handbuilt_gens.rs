use curve25519_dalek::scalar::Scalar;
use merlin::Transcript;
use rand_chacha::ChaCha12Rng;
use rand_core::SeedableRng;
use tari_bulletproofs_plus::{
    protocols::scalar_protocol::ScalarProtocol,
    commitment_opening::CommitmentOpening,
    generators::pedersen_gens::ExtensionDegree,
    range_parameters::RangeParameters,
    range_proof::{RangeProof, VerifyAction},
    range_statement::RangeStatement,
    range_witness::RangeWitness,
    ristretto::{create_pedersen_gens_with_extension_degree, RistrettoRangeProof},
};

#[test]
fn inconsistent_pedersen_gens_do_not_panic() {
    let mut rng = ChaCha12Rng::seed_from_u64(1);
    let degree = ExtensionDegree::AddOneBasePoint;
    let pc_gens = create_pedersen_gens_with_extension_degree(degree);
    let params = RangeParameters::init(8, 1, pc_gens.clone()).unwrap();
    let blinding = vec![Scalar::random_not_zero(&mut rng), Scalar::random_not_zero(&mut rng)];
    let opening = CommitmentOpening::new(5, blinding.clone());
    let witness = RangeWitness::init(vec![opening]).unwrap();
    let commitment = params.pc_gens().commit(&Scalar::from(5u64), &blinding).unwrap();
    let statement = RangeStatement::init(params, vec![commitment], vec![None], None).unwrap();
    let proof = RistrettoRangeProof::prove_with_rng(&mut Transcript::new(b"t"), &statement, &witness, &mut rng).unwrap();

    // a PedersenGens value whose public fields disagree: one base fewer than its extension degree
    let mut bad_gens = pc_gens;
    bad_gens.g_base_vec.pop();
    bad_gens.g_base_compressed_vec.pop();
    let bad_params = RangeParameters::init(8, 1, bad_gens).unwrap();
    let bad_statement = RangeStatement::init(bad_params, vec![commitment], vec![None], None).unwrap();
    let r = std::panic::catch_unwind(|| {
        RangeProof::verify_batch(&mut [Transcript::new(b"t")], &[bad_statement], &[proof], VerifyAction::VerifyOnly)
    });
    assert!(r.is_ok(), "verification panicked");
    assert!(r.unwrap().is_err());
}
