use curve25519_dalek::scalar::Scalar;
use merlin::Transcript;
use rand_chacha::ChaCha12Rng;
use rand_core::SeedableRng;
use tari_bulletproofs_plus::{
    commitment_opening::CommitmentOpening,
    generators::pedersen_gens::ExtensionDegree,
    protocols::scalar_protocol::ScalarProtocol,
    range_parameters::RangeParameters,
    range_proof::{RangeProof, VerifyAction},
    range_statement::RangeStatement,
    range_witness::RangeWitness,
    ristretto::{create_pedersen_gens_with_extension_degree, RistrettoRangeProof},
};

// A batch must succeed if and only if every member verifies on its own
#[test]
fn batch_agrees_with_individual_verification() {
    let mut rng = ChaCha12Rng::seed_from_u64(7);
    let pc_gens = create_pedersen_gens_with_extension_degree(ExtensionDegree::DefaultPedersen);
    let params = RangeParameters::init(8, 1, pc_gens.clone()).unwrap();
    let blinding = vec![Scalar::random_not_zero(&mut rng)];
    let witness = RangeWitness::init(vec![CommitmentOpening::new(9, blinding.clone())]).unwrap();
    let commitment = params.pc_gens().commit(&Scalar::from(9u64), &blinding).unwrap();
    let good = RangeStatement::init(params, vec![commitment], vec![None], None).unwrap();
    let proof = RistrettoRangeProof::prove_with_rng(&mut Transcript::new(b"t"), &good, &witness, &mut rng).unwrap();

    // same generators, but the compressed form of the value base does not belong to it
    let mut odd_gens = pc_gens.clone();
    odd_gens.h_base_compressed = (odd_gens.h_base + odd_gens.h_base).compress();
    let odd_params = RangeParameters::init(8, 1, odd_gens).unwrap();
    let odd = RangeStatement::init(odd_params, vec![commitment], vec![None], None).unwrap();

    let alone = RangeProof::verify_batch(&mut [Transcript::new(b"t")], &[odd.clone()], &[proof.clone()], VerifyAction::VerifyOnly).is_ok();
    let first = RangeProof::verify_batch(&mut [Transcript::new(b"t")], &[good.clone()], &[proof.clone()], VerifyAction::VerifyOnly).is_ok();
    let batch = RangeProof::verify_batch(
        &mut [Transcript::new(b"t"), Transcript::new(b"t")],
        &[good, odd],
        &[proof.clone(), proof],
        VerifyAction::VerifyOnly,
    )
    .is_ok();
    assert!(first);
    assert_eq!(batch, first && alone, "batch verdict {batch} but members alone: {first}, {alone}");
}
