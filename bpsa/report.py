"""Obligation bookkeeping, evidence files, VIOLATION / KNOWN-FINDING lines."""
import json, os, time

VERIF = os.path.dirname(os.path.dirname(os.path.abspath(__file__)))
# evidence goes to /verif/evidence; runs against scratch trees (seed / refactor evaluation) redirect it so that the committed evidence
# always describes /repo itself
EVID = os.environ.get('BP_EVIDENCE_DIR') or os.path.join(VERIF, 'evidence')


def load_known():
    p = os.path.join(VERIF, 'known_findings.json')
    if not os.path.exists(p):
        return []
    return json.load(open(p)).get('findings', [])


class Report:
    def __init__(self, pid, tier, seed=0):
        self.pid = pid
        self.tier = tier
        self.seed = seed
        self.t0 = time.time()
        self.obligations = []      # dicts: rule, key, status, detail, where, nontrivial
        self.notes = []
        self.extra = {}
        self.analysed = {'bodies': set(), 'call_sites': 0}
        self.cfgs = []

    # -- recording -----------------------------------------------------------------------------------
    def ok(self, rule, key, detail, where=None, nontrivial=True):
        self.obligations.append({'rule': rule, 'key': key, 'status': 'holds', 'detail': detail, 'where': where,
                                 'nontrivial': nontrivial, 'cfg': self.cur_cfg()})

    def violation(self, rule, key, detail, where=None):
        self.obligations.append({'rule': rule, 'key': key, 'status': 'violated', 'detail': detail, 'where': where,
                                 'nontrivial': True, 'cfg': self.cur_cfg()})

    def anchor_missing(self, rule, key, detail):
        self.obligations.append({'rule': rule, 'key': key, 'status': 'violated', 'detail': 'ANCHOR-MISSING: ' + detail,
                                 'where': None, 'nontrivial': True, 'cfg': self.cur_cfg()})

    def idiom_absent(self, rule, key, detail):
        self.obligations.append({'rule': rule, 'key': key, 'status': 'idiom-absent', 'detail': detail, 'where': None,
                                 'nontrivial': False, 'cfg': self.cur_cfg()})

    def check(self, cond, rule, key, detail_ok, detail_bad=None, where=None):
        if cond:
            self.ok(rule, key, detail_ok, where)
        else:
            self.violation(rule, key, detail_bad or ('NOT: ' + detail_ok), where)
        return cond

    def floor(self, rule, what, count, floor):
        """fail closed when fewer instances than confirmed by hand were matched"""
        if count < floor:
            self.anchor_missing(rule, '%s/floor/%s' % (rule, what), '%s: matched %d instance(s), floor is %d' % (what, count, floor))
        else:
            self.ok(rule, '%s/floor/%s' % (rule, what), '%s: matched %d instance(s) (floor %d)' % (what, count, floor), nontrivial=False)

    def note(self, s):
        self.notes.append(s)

    def cur_cfg(self):
        return self.cfgs[-1] if self.cfgs else 'default'

    def saw_body(self, body):
        self.analysed['bodies'].add(body.key)

    # -- output --------------------------------------------------------------------------------------
    def finish(self, level_text, assumptions, rule_text):
        known = [k for k in load_known() if k.get('property') == self.pid and k.get('status') == 'known']
        known_keys = {k['key']: k for k in known}
        viol = [o for o in self.obligations if o['status'] == 'violated']
        new, kn = [], []
        seen = set()
        for v in viol:
            if v['key'] in known_keys:
                if v['key'] not in seen:
                    kn.append(v)
            else:
                new.append(v)
            seen.add(v['key'])
        lines = []
        for v in kn:
            lines.append('KNOWN-FINDING: property=%s %s [%s]' % (self.pid, known_keys[v['key']].get('what', v['detail']), v['key']))
        os.makedirs(os.path.join(EVID, 'replay'), exist_ok=True)
        import glob
        for old in glob.glob(os.path.join(EVID, 'replay', '%s-*.json' % self.pid)):
            os.remove(old)
        # unique new violations by key (the same key may fire under several cfg sets)
        uniq = {}
        for v in new:
            uniq.setdefault(v['key'], v)
        for n, (k, v) in enumerate(sorted(uniq.items())):
            rp = os.path.join(EVID, 'replay', '%s-%d.json' % (self.pid, n))
            with open(rp, 'w') as fh:
                json.dump({'property': self.pid, 'rule': v['rule'], 'key': v['key'], 'detail': v['detail'], 'where': v['where'],
                           'cfg': v['cfg'], 'tier': self.tier}, fh, indent=1)
            lines.append('VIOLATION property=%s replay=%s' % (self.pid, rp))
            lines.append('  rule=%s key=%s' % (v['rule'], v['key']))
            lines.append('  %s' % v['detail'])
            if v['where']:
                lines.append('  at %s' % v['where'])
        holds = [o for o in self.obligations if o['status'] == 'holds']
        nontriv = {o['key'] for o in holds if o['nontrivial']}
        absent = [o for o in self.obligations if o['status'] == 'idiom-absent']
        samples = []
        for o in holds:
            if o['nontrivial'] and len(samples) < 12:
                samples.append({'rule': o['rule'], 'key': o['key'], 'discharged_by': o['detail'][:600], 'where': o['where']})
        if not samples:
            samples = [{'rule': o['rule'], 'key': o['key'], 'detail': o['detail'][:600]} for o in self.obligations[:5]] or [{'note': 'no obligations'}]
        ev = {
            'property_id': self.pid,
            'tier': self.tier,
            'seed': self.seed,
            'level': 'other',
            'coverage': {
                'explanation': level_text,
                'rule': rule_text,
                'obligations': len(self.obligations) - len(absent),
                'discharged': len(holds),
                'evaluations': len(self.obligations),
                'distinct_nontrivial': len(nontriv),
                'samples': samples,
                'exhaustive': True,
                'violated_keys': sorted({v['key'] for v in viol}),
                'known_finding_keys': sorted({v['key'] for v in kn}),
                'idiom_absent': [{'rule': o['rule'], 'key': o['key'], 'detail': o['detail']} for o in absent],
                'rules': sorted({o['rule'] for o in self.obligations}),
                'bodies_analysed': len(self.analysed['bodies']),
                'bodies': sorted(self.analysed['bodies'])[:400],
                'cfg_sets': sorted(set(self.cfgs)) or ['default'],
                'checker_cmd': './check %s --tier %s' % (self.pid, self.tier),
                'trusted_base': ['rustc nightly type checking / MIR construction / Instance resolution',
                                 'bpfacts extractor', 'bpsa semantic table for core/alloc/itertools/zeroize',
                                 'documented boundary behaviour of merlin, curve25519-dalek, blake2, sha3'],
                'notes': self.notes[:60],
            },
            'assumptions': assumptions,
            'wall_s': round(time.time() - self.t0, 3),
            'violations': len(uniq),
        }
        ev['coverage'].update(self.extra)
        with open(os.path.join(EVID, '%s.json' % self.pid), 'w') as fh:
            json.dump(ev, fh, indent=1, default=str)
        for l in lines:
            print(l)
        print('%s [%s]: %d obligations, %d hold, %d violated (%d new, %d known), %d idiom-absent, %.1fs' % (
            self.pid, self.tier, len(self.obligations), len(holds), len(viol), len(uniq), len(kn), len(absent), time.time() - self.t0))
        return 1 if uniq else 0
