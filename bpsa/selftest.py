"""Self-test of the rules (thorough tier): applies each corpus variant to an export of /repo's committed HEAD in a scratch
directory (outside /repo and /verif, removed immediately), requires it to build, runs the property's rules on it and records
whether `fire` variants are reported (with the expected rule) and `quiet` variants leave the verdict unchanged.  The outcome is
recorded in the evidence; it never changes the exit status of a check."""
import os, shutil, subprocess, tempfile, importlib, time
from . import build, report
from .facts import Facts
from .terms import Engine, Term
from .ctx import Ctx

REPO = os.environ.get('BP_REPO', '/repo')


def export_head(dst):
    """working copy of the committed HEAD of /repo (sources and manifests only)"""
    r = subprocess.run('set -o pipefail; git -C %s archive HEAD src Cargo.toml benches tests | tar -x -C %s' % (REPO, dst), shell=True, executable='/bin/bash',
                       stdout=subprocess.PIPE, stderr=subprocess.STDOUT, text=True)
    lock = os.path.join(REPO, 'Cargo.lock')
    if os.path.exists(lock):
        shutil.copy(lock, os.path.join(dst, 'Cargo.lock'))
    return r.returncode == 0 and os.path.isdir(os.path.join(dst, 'src'))


def run_rules(pid, repo):
    path, info = build.facts_path('default', repo=repo)
    Term._table.clear()
    facts = Facts(path)
    rep = report.Report(pid, 'thorough')
    rep.cfgs.append('default')
    mod = importlib.import_module('rules.' + pid)
    try:
        mod.run(Ctx(facts, Engine(facts), rep, 'selftest', 'thorough'))
    except Exception as e:           # a crash counts as an alarm (fail closed), exactly as in ./check
        rep.anchor_missing('internal', '%s/internal/exception' % pid, 'exception: %r' % e)
    known = {k['key'] for k in report.load_known() if k.get('property') == pid and k.get('status') == 'known'}
    viol = [o for o in rep.obligations if o['status'] == 'violated' and o['key'] not in known]
    try:
        os.remove(path)
    except OSError:
        pass
    return viol


def run(pid):
    from selftest.corpus import CORPUS
    entries = CORPUS.get(pid, [])
    out = {'fire_total': 0, 'fire_detected': 0, 'quiet_total': 0, 'quiet_silent': 0, 'skipped': [], 'details': []}
    if not entries:
        out['skipped'].append('no corpus entries')
        return out
    t0 = time.time()
    for (name, kind, edits, expect) in entries:
        d = tempfile.mkdtemp(prefix='bpself-')
        try:
            if not export_head(d):
                out['skipped'].append('%s: cannot export HEAD' % name)
                continue
            ok = True
            for (rel, old, new) in edits:
                p = os.path.join(d, rel)
                src = open(p).read()
                if src.count(old) != 1:
                    ok = False
                    out['skipped'].append('%s: pattern occurs %d times in %s (corpus is written against the pinned HEAD)' % (name, src.count(old), rel))
                    break
                open(p, 'w').write(src.replace(old, new))
            if not ok:
                continue
            try:
                viol = run_rules(pid, d)
            except build.BuildError as e:
                out['skipped'].append('%s: variant does not build' % name)
                continue
            rules = sorted({v['rule'] for v in viol})
            if kind == 'fire':
                out['fire_total'] += 1
                hit = bool(viol) and (expect is None or any(v['rule'].startswith(expect) or v['key'].startswith(expect) for v in viol))
                out['fire_detected'] += 1 if hit else 0
                out['details'].append({'variant': name, 'kind': kind, 'reported': bool(viol), 'expected_rule': expect, 'rules': rules, 'ok': hit,
                                       'first': viol[0]['detail'][:200] if viol else None})
            else:
                out['quiet_total'] += 1
                out['quiet_silent'] += 0 if viol else 1
                out['details'].append({'variant': name, 'kind': kind, 'reported': bool(viol), 'rules': rules, 'ok': not viol,
                                       'first': viol[0]['detail'][:200] if viol else None})
        finally:
            shutil.rmtree(d, ignore_errors=True)
    out['wall_s'] = round(time.time() - t0, 1)
    return out
