"""Facts-level normalisation of *new private helper functions*.

The rules are written against the decomposition of the crate at the pinned commit (which function calls which).  A maintainer
is free to extract part of a function into a private helper; the behaviour is the same, the shape of the call graph is not.
To keep such an edit from changing any verdict, every crate-local, non-trait, non-closure function that does not exist in the
pinned decomposition (`baseline_fns.json`, matched by path, or by signature when an old function was merely renamed) is
spliced into its callers before any analysis runs:

  * the callee's locals and blocks are appended to the caller (renumbered), the call becomes parameter assignments and a jump,
    every `return` becomes `dest = move <callee return place>; goto <continuation>`;
  * the Result / Option / ControlFlow *variant* that a spliced return place is known to hold is then propagated along paths
    (node splitting over (block, known-variant) states), so that `helper(..)?` in the caller continues on the Ok arm exactly
    on the paths where the helper returned Ok -- without this the helper's own early `return Err(..)` would look like a path
    that can still succeed, and its guards would be invisible.

On the pinned tree nothing is new, nothing is spliced and the facts are untouched.
"""
import copy, json, os, re

HERE = os.path.dirname(os.path.dirname(os.path.abspath(__file__)))
BASELINE = os.path.join(HERE, 'baseline_fns.json')
MAX_BLOCKS = 6000


def load_baseline():
    try:
        return json.load(open(BASELINE))
    except Exception:
        return None


def _sigkey(impl_self, sig):
    """signature with generic parameter names and lifetimes replaced by positional placeholders (renaming `R` to `Rng` is not a
    different function)"""
    text = '%s | %s' % (impl_self or '', sig or '')
    names = {}

    def gen(m):
        w = m.group(0)
        return names.setdefault(w, 'G%d' % len(names))
    # bare identifiers starting with an upper-case letter that are not path segments: generic parameters (P, R, Rng, T ..)
    text = re.sub(r"(?<![:\w])[A-Z]\w*(?![\w]*::)(?!\w)", gen, text)
    text = re.sub(r"'\w+", "'_", text)
    return text


def candidates(j, baseline):
    """paths of functions to splice into their callers"""
    if not baseline:
        return set()
    bpaths = {b['path'] for b in baseline}
    fns = [f for f in j['fns'] if f['label'] == 'fn']
    cur = {f['path'] for f in fns}
    # baseline functions that are gone: a new function with the same signature and self type is a rename of one of them
    gone = [b for b in baseline if b['path'] not in cur]
    gone_sigs = {}
    for b in gone:
        gone_sigs.setdefault(_sigkey(b.get('impl_self'), b.get('sig')), []).append(b['path'])
    out = set()
    for f in fns:
        if f['path'] in bpaths or f['kind'] == 'Closure' or f.get('impl_trait'):
            continue
        if '{closure' in f['path'] or f['path'].endswith('::{constant#0}'):
            continue
        key = _sigkey(f.get('impl_self'), f.get('sig'))
        if gone_sigs.get(key):
            gone_sigs[key].pop()
            continue
        if f.get('vis') == 'Public' and not f.get('impl_self'):
            # a new public free function is API, not a helper
            continue
        out.add(f['path'])
    return out


def _remap(x, loff, bmap):
    """renumber locals (+loff) and blocks (bmap) inside a copied block / statement / operand"""
    if isinstance(x, dict):
        for k, v in list(x.items()):
            if k == 'l' and isinstance(v, int):
                x[k] = v + loff
            elif k in ('target', 'otherwise') and isinstance(v, int):
                x[k] = bmap(v)
            elif k == 'arms' and isinstance(v, list):
                x[k] = [[a, bmap(t)] for a, t in v]
            elif k == 'unwind' and isinstance(v, str):
                x[k] = re.sub(r'bb(\d+)', lambda m: 'bb%d' % bmap(int(m.group(1))), v)
            else:
                _remap(v, loff, bmap)
    elif isinstance(x, list):
        for v in x:
            _remap(v, loff, bmap)


def _splice(f, bi, callee):
    """splice (an already flattened) callee into block bi of f; returns the caller-local index of the callee's return place"""
    blk = f['blocks'][bi]
    t = blk['term']
    loff = len(f['locals'])
    boff = len(f['blocks'])
    for l in callee['locals']:
        l2 = copy.deepcopy(l)
        l2['i'] = l['i'] + loff
        f['locals'].append(l2)
    line = t.get('span', {}).get('l0', 0)
    # parameters
    for k, a in enumerate(t['args']):
        pl = {'l': loff + 1 + k, 'p': [], 'ty': callee['locals'][1 + k]['ty'] if 1 + k < len(callee['locals']) else ''}
        blk['stmts'].append({'k': 'assign', 'place': pl, 'rv': {'k': 'use', 'op': copy.deepcopy(a)}, 'line': line})
    cont = t['target']
    dest = t['dest']
    blk['term'] = {'k': 'goto', 'target': boff}
    for cb in callee['blocks']:
        nb = copy.deepcopy(cb)
        _remap(nb, loff, lambda b: b + boff)
        nb['i'] = cb['i'] + boff
        if nb['term']['k'] == 'return':
            nb['stmts'].append({'k': 'assign', 'place': copy.deepcopy(dest),
                                'rv': {'k': 'use', 'op': {'k': 'move', 'place': {'l': loff, 'p': [], 'ty': callee['locals'][0]['ty']}}}, 'line': line})
            nb['term'] = {'k': 'goto', 'target': cont} if cont is not None else {'k': 'unreachable'}
        f['blocks'].append(nb)
    f.setdefault('spliced', []).append(callee['path'])
    rets = f.setdefault('ret_locals', [])
    rets.append(loff)
    for r in callee.get('ret_locals', []):
        rets.append(r + loff)
    if not dest['p']:
        rets.append(dest['l'])
    return loff


def _fn_refs(x, acc):
    if isinstance(x, dict):
        if x.get('k') == 'const' and 'fn' in x:
            acc.add(x['fn'])
        for v in x.values():
            _fn_refs(v, acc)
    elif isinstance(x, list):
        for v in x:
            _fn_refs(v, acc)


def inline_new_helpers(j):
    """returns {'spliced': {caller: [callee..]}, 'removed': [..]}; mutates j"""
    baseline = load_baseline()
    cands = candidates(j, baseline)
    info = {'candidates': sorted(cands), 'spliced': {}, 'removed': []}
    if not cands:
        return info
    fns = {f['path']: f for f in j['fns'] if f['label'] == 'fn'}
    done, busy = set(), set()

    def flatten(path):
        if path in done or path in busy:
            return
        busy.add(path)
        f = fns[path]
        bi = 0
        while bi < len(f['blocks']) and len(f['blocks']) < MAX_BLOCKS:
            t = f['blocks'][bi]['term']
            if t['k'] == 'call' and 'indirect' not in t['func']:
                res = t['func'].get('res') or ''
                if t['func'].get('res_local') and res in cands and res in fns and res not in busy and not f['blocks'][bi]['cleanup']:
                    flatten(res)
                    if res in done:
                        _splice(f, bi, fns[res])
                        info['spliced'].setdefault(path, []).append(res)
            bi += 1
        busy.discard(path)
        done.add(path)

    for p in list(fns):
        flatten(p)
    # helpers that are now only referenced by themselves disappear from the program
    called, refs = set(), set()
    for f in j['fns']:
        if f['label'] == 'fn' and f['path'] in cands:
            continue
        for b in f['blocks']:
            t = b['term']
            if t['k'] == 'call' and 'indirect' not in t['func'] and t['func'].get('res_local'):
                called.add(t['func'].get('res'))
        _fn_refs(f['blocks'], refs)
    keep = (called | refs)
    removed = [p for p in cands if p not in keep]
    # transitively: a candidate kept alive only by a removed candidate
    j['fns'] = [f for f in j['fns'] if not (f['label'] == 'fn' and f['path'] in removed)]
    info['removed'] = sorted(removed)
    for f in j['fns']:
        if f.get('ret_locals'):
            thread_variants(f)
    return info


# ---- variant threading ---------------------------------------------------------------------------------------------------

VARIANT_VAL = {('std::result::Result', 'Ok'): 0, ('std::result::Result', 'Err'): 1, ('std::option::Option', 'None'): 0, ('std::option::Option', 'Some'): 1,
               ('std::ops::ControlFlow', 'Continue'): 0, ('std::ops::ControlFlow', 'Break'): 1}


def _plain(op):
    return op.get('k') in ('move', 'copy') and not op['place']['p']


def thread_variants(f):
    """node splitting over (block, fact) with fact = (local, discriminant value) known for a spliced return place or a value
    moved / converted (`Try::branch`) from it; a switch on the discriminant of such a local follows the one feasible arm"""
    tracked = set(f.get('ret_locals', []))
    blocks = f['blocks']
    nb = len(blocks)

    def transfer_stmt(s, fact):
        if s['k'] != 'assign':
            return fact
        pl, rv = s['place'], s['rv']
        if pl['p']:
            if fact and pl['l'] == fact[0]:
                return None
            return fact
        l = pl['l']
        new = None
        if rv['k'] == 'aggregate' and rv['kind'].get('a') == 'adt' and l in tracked:
            v = VARIANT_VAL.get((rv['kind']['path'], rv['kind'].get('variant')))
            if v is not None:
                new = ('v', l, v)
        elif rv['k'] == 'use' and _plain(rv['op']) and fact and fact[0] == 'v' and rv['op']['place']['l'] == fact[1]:
            tracked.add(l)
            new = ('v', l, fact[2])
        elif rv['k'] == 'discr' and not rv['place']['p'] and fact and fact[0] == 'v' and rv['place']['l'] == fact[1]:
            new = ('d', l, fact[2])
        if new is not None:
            return new
        if fact and l == fact[1]:
            return None
        return fact

    def succs(bi, fact):
        b = blocks[bi]
        for s in b['stmts']:
            fact = transfer_stmt(s, fact)
        t = b['term']
        k = t['k']
        out = []
        if k == 'goto':
            out.append(('target', t['target'], fact))
        elif k == 'switch':
            d = t['discr']
            if fact and fact[0] == 'd' and _plain(d) and d['place']['l'] == fact[1]:
                hit = [tg for v, tg in t['arms'] if str(v) == str(fact[2])]
                out.append(('only', hit[0] if hit else t['otherwise'], None))
            else:
                for i, (v, tg) in enumerate(t['arms']):
                    out.append((('arm', i), tg, fact))
                out.append(('otherwise', t['otherwise'], fact))
        elif k == 'call':
            nf = fact
            dl = t['dest']['l'] if not t['dest']['p'] else None
            decl = t['func'].get('def', '') if 'indirect' not in t['func'] else ''
            if decl.endswith('Try::branch') and t['args'] and _plain(t['args'][0]) and fact and fact[0] == 'v' and t['args'][0]['place']['l'] == fact[1] and dl is not None:
                tracked.add(dl)
                nf = ('v', dl, fact[2])          # Ok / Some -> Continue (0), Err / None -> Break (1) -- same numbering by construction
                if t['args'][0]['place']['ty'].startswith('std::option::Option'):
                    nf = ('v', dl, 1 - fact[2])   # Option: None = 0 -> Break (1), Some = 1 -> Continue (0)
            elif decl.endswith('from_residual') and dl is not None and dl in tracked:
                nf = ('v', dl, 1)
            elif fact and dl == fact[1]:
                nf = None
            if t.get('target') is not None:
                out.append(('target', t['target'], nf))
        elif k in ('drop', 'assert'):
            if t.get('target') is not None:
                out.append(('target', t['target'], fact))
        # unwind edges: followed without facts
        u = t.get('unwind')
        if isinstance(u, str):
            m = re.search(r'bb(\d+)', u)
            if m:
                out.append(('unwind', int(m.group(1)), None))
        return out

    # explore product states
    state_id = {}
    order = []
    work = [(0, None)]
    edges = {}
    while work and len(order) < MAX_BLOCKS:
        st = work.pop()
        if st in state_id:
            continue
        state_id[st] = None
        order.append(st)
        es = succs(st[0], st[1])
        edges[st] = es
        for (_, tg, nf) in es:
            if (tg, nf) not in state_id:
                work.append((tg, nf))
    if len(order) >= MAX_BLOCKS:
        return
    # blocks not reached from the entry (cleanup-only chains already covered by unwind edges) are dropped; ids: a block keeps its
    # number for its first state
    used = set()
    nxt = nb
    for st in order:
        if st[0] not in used:
            state_id[st] = st[0]
            used.add(st[0])
        else:
            state_id[st] = nxt
            nxt += 1
    if nxt == nb:
        # no block was split: still cut infeasible switch edges
        pass
    newblocks = {}
    for st in order:
        b = copy.deepcopy(blocks[st[0]])
        b['i'] = state_id[st]
        t = b['term']
        es = edges[st]
        tgt = {e[0]: state_id[(e[1], e[2])] for e in es}
        if 'only' in tgt:
            b['term'] = {'k': 'goto', 'target': tgt['only']}
        else:
            if t['k'] == 'switch':
                t['arms'] = [[v, tgt[('arm', i)]] for i, (v, _) in enumerate(t['arms'])]
                t['otherwise'] = tgt['otherwise']
            elif 'target' in tgt:
                t['target'] = tgt['target']
            if 'unwind' in tgt and isinstance(t.get('unwind'), str):
                t['unwind'] = re.sub(r'bb\d+', 'bb%d' % tgt['unwind'], t['unwind'])
        newblocks[b['i']] = b
    # keep list position == block number; unreachable originals become empty unreachable blocks
    out = []
    for i in range(nxt):
        if i in newblocks:
            out.append(newblocks[i])
        else:
            out.append({'i': i, 'cleanup': blocks[i]['cleanup'] if i < nb else False, 'stmts': [], 'term': {'k': 'unreachable'}, 'dead': True})
    f['blocks'] = out
