"""Facts-level normalisation of *new private helper functions*.

The rules are written against the decomposition of the crate at the pinned commit (which function calls which).  A maintainer
is free to extract part of a function into a private helper; the behaviour is the same, the shape of the call graph is not.
To keep such an edit from changing any verdict, every crate-local, non-trait, non-closure function that does not exist in the
pinned decomposition (`baseline_fns.json`, matched by path, or by signature when an old function was merely renamed) is
spliced into its callers before any analysis runs:

  * the callee's locals and blocks are appended to the caller (renumbered), the call becomes parameter assignments and a jump,
    every `return` becomes `dest = move <callee return place>; goto <continuation>`;
  * the Result / Option / ControlFlow *variant* that a spliced return place is known to hold is then propagated along paths
    (node splitting over (block, known-variant) states), so that `helper(..)?` in the caller continues on the Ok arm exactly
    on the paths where the helper returned Ok -- without this the helper's own early `return Err(..)` would look like a path
    that can still succeed, and its guards would be invisible.

On the pinned tree nothing is new, nothing is spliced and the facts are untouched.
"""
import copy
import json, json, os, re

HERE = os.path.dirname(os.path.dirname(os.path.abspath(__file__)))
BASELINE = os.path.join(HERE, 'baseline_fns.json')
MAX_BLOCKS = 6000


def load_baseline():
    """{'fns': [..], 'adts': [..]} recorded at the pinned commit by tools/mkbaseline.py; None if missing"""
    try:
        b = json.load(open(BASELINE))
        return b if isinstance(b, dict) else {'fns': b, 'adts': []}
    except Exception:
        return None


def _sigkey(impl_self, sig):
    """signature with generic parameter names and lifetimes replaced by positional placeholders (renaming `R` to `Rng` is not a
    different function)"""
    text = '%s | %s' % (impl_self or '', sig or '')
    names = {}

    def gen(m):
        w = m.group(0)
        return names.setdefault(w, 'G%d' % len(names))
    # bare identifiers starting with an upper-case letter that are not path segments: generic parameters (P, R, Rng, T ..)
    text = re.sub(r"(?<![:\w])[A-Z]\w*(?![\w]*::)(?!\w)", gen, text)
    text = re.sub(r"'\w+", "'_", text)
    return text


def candidates(j, baseline):
    """paths of functions to splice into their callers"""
    if not baseline:
        return set()
    baseline = baseline['fns']
    bpaths = {b['path'] for b in baseline}
    fns = [f for f in j['fns'] if f['label'] == 'fn']
    cur = {f['path'] for f in fns}
    # baseline functions that are gone: a new function with the same signature and self type is a rename of one of them
    gone = [b for b in baseline if b['path'] not in cur]
    gone_sigs = {}
    for b in gone:
        gone_sigs.setdefault(_sigkey(b.get('impl_self'), b.get('sig')), []).append(b['path'])
    out = set()
    # a private trait that did not exist at the baseline (an extension trait on a foreign type, a helper trait) is a way to spell
    # helper functions: its impl methods are spliced like private functions.  Crate-local traits are printed without a crate name;
    # their first path segment is a module of this crate.
    btraits = {b.get('impl_trait') for b in baseline if b.get('impl_trait')}
    modules = {a['path'].split('::')[0] for a in j.get('adts', [])} | {f['path'].split('::')[0] for f in fns if not f['path'].startswith('<')}
    for f in fns:
        if f['path'] in bpaths or f['kind'] == 'Closure':
            continue
        tr = f.get('impl_trait')
        if tr:
            if tr in btraits or tr.split('::')[0] not in modules or f.get('vis') == 'Public' or '{closure' in f['path']:
                continue
            out.add(f['path'])
            continue
        if '{closure' in f['path'] or f['path'].endswith('::{constant#0}'):
            continue
        key = _sigkey(f.get('impl_self'), f.get('sig'))
        if gone_sigs.get(key):
            gone_sigs[key].pop()
            continue
        if f.get('vis') == 'Public' and not f.get('impl_self') and f.get('exported', True):
            # a new public free function is API, not a helper (`pub fn` in a module nothing exports is a helper)
            continue
        out.add(f['path'])
    return out


def _remap(x, loff, bmap):
    """renumber locals (+loff) and blocks (bmap) inside a copied block / statement / operand"""
    if isinstance(x, dict):
        for k, v in list(x.items()):
            if k == 'l' and isinstance(v, int):
                x[k] = v + loff
            elif k in ('target', 'otherwise') and isinstance(v, int):
                x[k] = bmap(v)
            elif k == 'arms' and isinstance(v, list):
                x[k] = [[a, bmap(t)] for a, t in v]
            elif k == 'unwind' and isinstance(v, str):
                x[k] = re.sub(r'bb(\d+)', lambda m: 'bb%d' % bmap(int(m.group(1))), v)
            else:
                _remap(v, loff, bmap)
    elif isinstance(x, list):
        for v in x:
            _remap(v, loff, bmap)


CLOSURE_CALLS = ('std::ops::Fn::call', 'std::ops::FnMut::call_mut', 'std::ops::FnOnce::call_once')


def _splice(f, bi, callee, spread=False):
    """splice (an already flattened) callee into block bi of f; returns the caller-local index of the callee's return place"""
    blk = f['blocks'][bi]
    t = blk['term']
    f.setdefault('orig_nlocals', len(f['locals']))
    loff = len(f['locals'])
    boff = len(f['blocks'])
    for l in callee['locals']:
        l2 = copy.deepcopy(l)
        l2['i'] = l['i'] + loff
        f['locals'].append(l2)
    line = t.get('span', {}).get('l0', 0)
    # parameters
    if spread:
        # `Fn::call(env, (a, b, ..))`: the closure body takes the environment and the tuple's fields as separate locals
        env, tup = t['args'][0], t['args'][1]
        pl = {'l': loff + 1, 'p': [], 'ty': callee['locals'][1]['ty']}
        blk['stmts'].append({'k': 'assign', 'place': pl, 'rv': {'k': 'use', 'op': copy.deepcopy(env)}, 'line': line})
        for k in range(callee['argc'] - 1):
            ty = callee['locals'][2 + k]['ty']
            pl = {'l': loff + 2 + k, 'p': [], 'ty': ty}
            if t.get('spread_ops') and k < len(t['spread_ops']):
                # a call built by a lowering, which knows the operands packed into the tuple: no detour through the tuple
                blk['stmts'].append({'k': 'assign', 'place': pl, 'rv': {'k': 'use', 'op': copy.deepcopy(t['spread_ops'][k])}, 'line': line})
                blk['stmts'] = [s_ for s_ in blk['stmts'] if not (s_['k'] == 'assign' and not s_['place']['p'] and s_['place']['l'] == tup['place']['l']
                                                                 and s_['rv']['k'] == 'aggregate')]
                continue
            src = copy.deepcopy(tup['place'])
            src['p'] = list(src['p']) + [{'k': 'field', 'i': k, 'name': str(k), 'ty': ty}]
            src['ty'] = ty
            blk['stmts'].append({'k': 'assign', 'place': pl, 'rv': {'k': 'use', 'op': {'k': 'move', 'place': src}}, 'line': line})
    else:
        for k, a in enumerate(t['args']):
            pl = {'l': loff + 1 + k, 'p': [], 'ty': callee['locals'][1 + k]['ty'] if 1 + k < len(callee['locals']) else ''}
            blk['stmts'].append({'k': 'assign', 'place': pl, 'rv': {'k': 'use', 'op': copy.deepcopy(a)}, 'line': line})
    cont = t['target']
    dest = t['dest']
    blk['term'] = {'k': 'goto', 'target': boff}
    for cb in callee['blocks']:
        nb = copy.deepcopy(cb)
        _remap(nb, loff, lambda b: b + boff)
        nb['i'] = cb['i'] + boff
        if nb['term']['k'] == 'return':
            nb['stmts'].append({'k': 'assign', 'place': copy.deepcopy(dest),
                                'rv': {'k': 'use', 'op': {'k': 'move', 'place': {'l': loff, 'p': [], 'ty': callee['locals'][0]['ty']}}}, 'line': line})
            nb['term'] = {'k': 'goto', 'target': cont} if cont is not None else {'k': 'unreachable'}
        f['blocks'].append(nb)
    f.setdefault('spliced', []).append(callee['path'])
    rets = f.setdefault('ret_locals', [])
    rets.append(loff)
    for r in callee.get('ret_locals', []):
        rets.append(r + loff)
    if not dest['p']:
        rets.append(dest['l'])
    return loff


def _fn_refs(x, acc):
    if isinstance(x, dict):
        if x.get('k') == 'const' and 'fn' in x:
            acc.add(x['fn'])
        for v in x.values():
            _fn_refs(v, acc)
    elif isinstance(x, list):
        for v in x:
            _fn_refs(v, acc)


AND_THEN = {'std::result::Result::<T, E>::and_then': 'Result', 'std::option::Option::<T>::and_then': 'Option'}


def lower_and_then(j, baseline, skip=()):
    """`dest = r.and_then(f)` becomes the match it abbreviates: a switch on r's discriminant, a call of f on the payload in the
    success arm, the failure rebuilt in the other -- so that the test is a guard like the one `f(r?)` gives.  Functions that used
    `and_then` at the baseline keep their form (the rules read them as they are)."""
    keep = set((baseline or {}).get('and_then_parents', []))
    local_fns = {f['path'] for f in j['fns'] if f['label'] == 'fn'}
    n = 0
    for f in j['fns']:
        if f['label'] != 'fn' or f['path'].split('::{closure')[0] in keep or f['path'].split('::{closure')[0] in skip:
            continue
        closure_of = {}
        for b in f['blocks']:
            for s_ in b['stmts']:
                if s_['k'] == 'assign' and not s_['place']['p'] and s_['rv']['k'] == 'aggregate' and s_['rv']['kind'].get('a') == 'closure':
                    closure_of[s_['place']['l']] = s_['rv']['kind']['path']
        for b in list(f['blocks']):
            t = b['term']
            if t['k'] != 'call' or b.get('cleanup') or t['func'].get('def') not in AND_THEN or len(t['args']) != 2 or t.get('target') is None:
                continue
            # only where the outcome decides the function's own outcome: the value is returned, or goes straight into `?`.  An
            # intermediate Option / Result consumed as a value (`.and_then(..).map_or(..)`) stays a value
            dst = t['dest']
            decides = not dst['p'] and dst['l'] == 0
            if not decides and not dst['p'] and t['target'] in {b_['i'] for b_ in f['blocks']}:
                nxt = next((b_ for b_ in f['blocks'] if b_['i'] == t['target']), None)
                hops = 0
                cur_l = dst['l']
                while nxt is not None and hops < 3:
                    # through the moves rustc inserts between the call and the `?`
                    for s_ in nxt['stmts']:
                        if s_['k'] == 'assign' and not s_['place']['p'] and s_['rv']['k'] == 'use' and s_['rv']['op'].get('k') in ('move', 'copy') \
                                and not s_['rv']['op']['place']['p'] and s_['rv']['op']['place']['l'] == cur_l:
                            cur_l = s_['place']['l']
                    t2 = nxt['term']
                    if t2['k'] == 'call' and t2['func'].get('def') == 'std::ops::Try::branch' and t2['args'] and t2['args'][0].get('k') in ('move', 'copy') \
                            and t2['args'][0]['place']['l'] == cur_l:
                        decides = True
                        break
                    if t2['k'] == 'goto':
                        nxt = next((b_ for b_ in f['blocks'] if b_['i'] == t2['target']), None)
                        hops += 1
                        continue
                    break
            if not decides:
                continue
            kind = AND_THEN[t['func']['def']]
            r, fo = t['args']
            if r.get('k') not in ('move', 'copy') or r['place']['p']:
                continue
            g = t['func'].get('gargs', [])
            # the callee: a function item (its resolved path is spelled in the item type) or a closure value
            func, args_tail = None, None
            if fo.get('k') == 'const' and 'fn' in fo:
                m = re.search(r'\{(.+)\}$', fo.get('ty', ''))
                res = m.group(1) if m else fo['fn']
                func = {'def': fo['fn'], 'krate': '', 'local': res in local_fns, 'gargs': fo.get('fn_args', []), 'trait': '', 'res': res,
                        'res_krate': '', 'res_local': res in local_fns, 'res_kind': 'Item'}
            elif fo.get('k') in ('move', 'copy') and not fo['place']['p'] and fo['place']['l'] in closure_of:
                cp = closure_of[fo['place']['l']]
                func = {'def': 'std::ops::FnOnce::call_once', 'krate': 'core', 'local': False, 'gargs': [], 'trait': 'std::ops::FnOnce', 'res': cp,
                        'res_krate': '', 'res_local': cp in local_fns, 'res_kind': 'Item'}
            if func is None or len(g) < 2:
                continue
            rl = r['place']['l']
            tpay = g[0]
            nl = len(f['locals'])
            f.setdefault('orig_nlocals', nl)
            line = t.get('span', {}).get('l0', 0)

            def newlocal(ty):
                f['locals'].append({'i': len(f['locals']), 'ty': ty, 'name': None, 'mut': True})
                return len(f['locals']) - 1
            proto = dict(f['locals'][rl])
            ld = newlocal('isize')
            lp = newlocal(tpay)
            nb = len(f['blocks'])
            b_ok, b_bad, b_un = nb, nb + 1, nb + 2
            ok_variant, ok_idx, bad_variant, bad_idx = ('Ok', 0, 'Err', 1) if kind == 'Result' else ('Some', 1, 'None', 0)
            b['stmts'].append({'k': 'assign', 'place': {'l': ld, 'p': [], 'ty': 'isize'}, 'rv': {'k': 'discr', 'place': {'l': rl, 'p': [], 'ty': r['place']['ty']}}, 'line': line})
            b['term'] = {'k': 'switch', 'discr': {'k': 'move', 'place': {'l': ld, 'p': [], 'ty': 'isize'}}, 'arms': [[str(ok_idx), b_ok], [str(bad_idx), b_bad]], 'otherwise': b_un, 'span': t.get('span')}
            pay = {'l': rl, 'p': [{'k': 'downcast', 'variant': ok_variant, 'i': ok_idx}, {'k': 'field', 'i': 0, 'name': '0', 'ty': tpay}], 'ty': tpay}
            ok_stmts = [{'k': 'assign', 'place': {'l': lp, 'p': [], 'ty': tpay}, 'rv': {'k': 'use', 'op': {'k': 'move', 'place': pay}}, 'line': line}]
            if func['def'] == 'std::ops::FnOnce::call_once':
                lt = newlocal('(%s,)' % tpay)
                ok_stmts.append({'k': 'assign', 'place': {'l': lt, 'p': [], 'ty': '(%s,)' % tpay}, 'rv': {'k': 'aggregate', 'kind': {'a': 'tuple'},
                                 'ops': [{'k': 'move', 'place': {'l': lp, 'p': [], 'ty': tpay}}]}, 'line': line})
                cargs = [copy.deepcopy(fo), {'k': 'move', 'place': {'l': lt, 'p': [], 'ty': '(%s,)' % tpay}}]
            else:
                cargs = [{'k': 'move', 'place': {'l': lp, 'p': [], 'ty': tpay}}]
            call = dict(t)
            call['func'] = func
            call['args'] = cargs
            f['blocks'].append({'i': b_ok, 'cleanup': False, 'stmts': ok_stmts, 'term': call})
            if kind == 'Result':
                terr = g[1]
                le = newlocal(terr)
                errp = {'l': rl, 'p': [{'k': 'downcast', 'variant': 'Err', 'i': 1}, {'k': 'field', 'i': 0, 'name': '0', 'ty': terr}], 'ty': terr}
                bad_stmts = [{'k': 'assign', 'place': {'l': le, 'p': [], 'ty': terr}, 'rv': {'k': 'use', 'op': {'k': 'move', 'place': errp}}, 'line': line},
                             {'k': 'assign', 'place': copy.deepcopy(t['dest']), 'rv': {'k': 'aggregate', 'kind': {'a': 'adt', 'path': 'std::result::Result', 'variant': 'Err', 'vidx': 1,
                              'fields': ['0'], 'union_field': -1}, 'ops': [{'k': 'move', 'place': {'l': le, 'p': [], 'ty': terr}}]}, 'line': line}]
            else:
                bad_stmts = [{'k': 'assign', 'place': copy.deepcopy(t['dest']), 'rv': {'k': 'aggregate', 'kind': {'a': 'adt', 'path': 'std::option::Option', 'variant': 'None', 'vidx': 0,
                              'fields': [], 'union_field': -1}, 'ops': []}, 'line': line}]
            f['blocks'].append({'i': b_bad, 'cleanup': False, 'stmts': bad_stmts, 'term': {'k': 'goto', 'target': t['target']}})
            f['blocks'].append({'i': b_un, 'cleanup': False, 'stmts': [], 'term': {'k': 'unreachable'}})
            if not t['dest']['p']:
                rl_ = f.setdefault('ret_locals', [])
                if t['dest']['l'] not in rl_:
                    rl_.append(t['dest']['l'])
            n += 1
    return n


def lower_map_transpose(j, baseline, skip=()):
    """`opt.map(closure).transpose()` (an optional fallible computation) becomes the matches it abbreviates:
        None            -> Ok(None)
        Some(x), f(x) = Ok(v)  -> Ok(Some(v))
        Some(x), f(x) = Err(e) -> Err(e)
    with the closure called directly (and then spliced like any directly-called closure), so that what the closure does is read
    where it happens and its failure is a guard of the caller."""
    local_fns = {f['path'] for f in j['fns'] if f['label'] == 'fn'}
    n = 0
    for f in j['fns']:
        if f['label'] != 'fn' or f['path'].split('::{closure')[0] in skip:
            continue
        closure_of = {}
        for b in f['blocks']:
            for s_ in b['stmts']:
                if s_['k'] == 'assign' and not s_['place']['p'] and s_['rv']['k'] == 'aggregate' and s_['rv']['kind'].get('a') == 'closure':
                    closure_of[s_['place']['l']] = s_['rv']['kind']['path']
        byi = {b['i']: b for b in f['blocks']}
        for b in list(f['blocks']):
            t = b['term']
            if t['k'] != 'call' or b.get('cleanup') or t['func'].get('def') != 'std::option::Option::<T>::map' or len(t['args']) != 2:
                continue
            o, cl = t['args']
            if o.get('k') not in ('move', 'copy') or o['place']['p'] or cl.get('k') not in ('move', 'copy') or cl['place']['p'] or cl['place']['l'] not in closure_of:
                continue
            nb_ = byi.get(t['target'])
            if nb_ is None or any(s_['k'] == 'assign' for s_ in nb_['stmts']):
                continue
            t2 = nb_['term']
            if t2['k'] != 'call' or t2['func'].get('def') != 'std::option::Option::<std::result::Result<T, E>>::transpose' or len(t2['args']) != 1:
                continue
            a2 = t2['args'][0]
            if a2.get('k') not in ('move', 'copy') or a2['place']['p'] or a2['place']['l'] != t['dest']['l'] or t['dest']['p'] or t2['dest']['p']:
                continue
            g1, g2 = t['func'].get('gargs', []), t2['func'].get('gargs', [])
            if len(g1) < 2 or len(g2) != 2:
                continue
            tpay, tres, tu, te = g1[0], g1[1], g2[0], g2[1]
            cp = closure_of[cl['place']['l']]
            line = t.get('span', {}).get('l0', 0)
            f.setdefault('orig_nlocals', len(f['locals']))

            def newlocal(ty):
                f['locals'].append({'i': len(f['locals']), 'ty': ty, 'name': None, 'mut': True})
                return len(f['locals']) - 1

            def pl(l, ty):
                return {'l': l, 'p': [], 'ty': ty}
            ol = o['place']['l']
            dest = copy.deepcopy(t2['dest'])
            cont = t2['target']
            ld, lpay, ltup, lr, ld2, lu, lopt, le, lnone = (newlocal('isize'), newlocal(tpay), newlocal('(%s,)' % tpay), newlocal(tres), newlocal('isize'),
                                                        newlocal(tu), newlocal('std::option::Option<%s>' % tu), newlocal(te), newlocal('std::option::Option<%s>' % tu))
            nbk = len(f['blocks'])
            b_some, b_s2, b_ok, b_err, b_none, b_un = nbk, nbk + 1, nbk + 2, nbk + 3, nbk + 4, nbk + 5
            span = t.get('span')
            b['stmts'].append({'k': 'assign', 'place': pl(ld, 'isize'), 'rv': {'k': 'discr', 'place': pl(ol, o['place']['ty'])}, 'line': line})
            b['term'] = {'k': 'switch', 'discr': {'k': 'move', 'place': pl(ld, 'isize')}, 'arms': [['0', b_none], ['1', b_some]], 'otherwise': b_un, 'span': span}
            pay = {'l': ol, 'p': [{'k': 'downcast', 'variant': 'Some', 'i': 1}, {'k': 'field', 'i': 0, 'name': '0', 'ty': tpay}], 'ty': tpay}
            func = {'def': 'std::ops::FnOnce::call_once', 'krate': 'core', 'local': False, 'gargs': [], 'trait': 'std::ops::FnOnce', 'res': cp,
                    'res_krate': '', 'res_local': cp in local_fns, 'res_kind': 'Item'}
            call = {'k': 'call', 'func': func, 'args': [copy.deepcopy(cl), {'k': 'move', 'place': pl(ltup, '(%s,)' % tpay)}], 'dest': pl(lr, tres), 'target': b_s2,
                    'unwind': t.get('unwind', 'Continue'), 'span': span}
            f['blocks'].append({'i': b_some, 'cleanup': False, 'stmts': [
                {'k': 'assign', 'place': pl(lpay, tpay), 'rv': {'k': 'use', 'op': {'k': 'move', 'place': pay}}, 'line': line},
                {'k': 'assign', 'place': pl(ltup, '(%s,)' % tpay), 'rv': {'k': 'aggregate', 'kind': {'a': 'tuple'}, 'ops': [{'k': 'move', 'place': pl(lpay, tpay)}]}, 'line': line}],
                'term': call})
            f['blocks'].append({'i': b_s2, 'cleanup': False, 'stmts': [
                {'k': 'assign', 'place': pl(ld2, 'isize'), 'rv': {'k': 'discr', 'place': pl(lr, tres)}, 'line': line}],
                'term': {'k': 'switch', 'discr': {'k': 'move', 'place': pl(ld2, 'isize')}, 'arms': [['0', b_ok], ['1', b_err]], 'otherwise': b_un, 'span': span}})
            okp = {'l': lr, 'p': [{'k': 'downcast', 'variant': 'Ok', 'i': 0}, {'k': 'field', 'i': 0, 'name': '0', 'ty': tu}], 'ty': tu}
            errp = {'l': lr, 'p': [{'k': 'downcast', 'variant': 'Err', 'i': 1}, {'k': 'field', 'i': 0, 'name': '0', 'ty': te}], 'ty': te}

            def adt(path, variant, vidx, fields, ops):
                return {'k': 'aggregate', 'kind': {'a': 'adt', 'path': path, 'variant': variant, 'vidx': vidx, 'fields': fields, 'union_field': -1}, 'ops': ops}
            f['blocks'].append({'i': b_ok, 'cleanup': False, 'stmts': [
                {'k': 'assign', 'place': pl(lu, tu), 'rv': {'k': 'use', 'op': {'k': 'move', 'place': okp}}, 'line': line},
                {'k': 'assign', 'place': pl(lopt, 'std::option::Option<%s>' % tu), 'rv': adt('std::option::Option', 'Some', 1, ['0'], [{'k': 'move', 'place': pl(lu, tu)}]), 'line': line},
                {'k': 'assign', 'place': copy.deepcopy(dest), 'rv': adt('std::result::Result', 'Ok', 0, ['0'], [{'k': 'move', 'place': pl(lopt, 'std::option::Option<%s>' % tu)}]), 'line': line}],
                'term': {'k': 'goto', 'target': cont}})
            f['blocks'].append({'i': b_err, 'cleanup': False, 'stmts': [
                {'k': 'assign', 'place': pl(le, te), 'rv': {'k': 'use', 'op': {'k': 'move', 'place': errp}}, 'line': line},
                {'k': 'assign', 'place': copy.deepcopy(dest), 'rv': adt('std::result::Result', 'Err', 1, ['0'], [{'k': 'move', 'place': pl(le, te)}]), 'line': line}],
                'term': {'k': 'goto', 'target': cont}})
            f['blocks'].append({'i': b_none, 'cleanup': False, 'stmts': [
                {'k': 'assign', 'place': pl(lnone, 'std::option::Option<%s>' % tu), 'rv': adt('std::option::Option', 'None', 0, [], []), 'line': line},
                {'k': 'assign', 'place': copy.deepcopy(dest), 'rv': adt('std::result::Result', 'Ok', 0, ['0'], [{'k': 'move', 'place': pl(lnone, 'std::option::Option<%s>' % tu)}]), 'line': line}],
                'term': {'k': 'goto', 'target': cont}})
            f['blocks'].append({'i': b_un, 'cleanup': False, 'stmts': [], 'term': {'k': 'unreachable'}})
            # the transpose block is bypassed; keep it (unreachable) so that block numbers stay dense
            nb_['term'] = {'k': 'unreachable'}
            rl = f.setdefault('ret_locals', [])
            for l_ in (lr, dest['l']):
                if l_ not in rl:
                    rl.append(l_)
            byi = {b_['i']: b_ for b_ in f['blocks']}
            n += 1
    return n


VALUE_MAPS = {'std::result::Result::<T, E>::map': 'Result', 'std::option::Option::<T>::map': 'Option'}


def lower_effect_map(j, baseline, skip=()):
    """`r.map(closure)` on a Result / Option where the closure captures a `&mut` (it is called for what it does: `.map(|v| out.push(v))`)
    becomes the match it abbreviates, with the closure called directly (and then spliced): Ok(x) => Ok(closure(x)), Err(e) => Err(e).
    A closure that captures nothing mutable only computes a value and stays a value."""
    fns = {f['path']: f for f in j['fns'] if f['label'] == 'fn'}
    n = 0
    for f in j['fns']:
        if f['label'] != 'fn' or f['path'].split('::{closure')[0] in skip:
            continue
        closure_of = {}
        for b in f['blocks']:
            for s_ in b['stmts']:
                if s_['k'] == 'assign' and not s_['place']['p'] and s_['rv']['k'] == 'aggregate' and s_['rv']['kind'].get('a') == 'closure':
                    closure_of[s_['place']['l']] = (s_['rv']['kind']['path'], s_['rv']['ops'])
        for b in list(f['blocks']):
            t = b['term']
            if t['k'] != 'call' or b.get('cleanup') or t['func'].get('def') not in VALUE_MAPS or len(t['args']) != 2 or t.get('target') is None or t['dest']['p']:
                continue
            kind = VALUE_MAPS[t['func']['def']]
            r, cl = t['args']
            if r.get('k') not in ('move', 'copy') or r['place']['p'] or cl.get('k') not in ('move', 'copy') or cl['place']['p'] or cl['place']['l'] not in closure_of:
                continue
            cp, cops = closure_of[cl['place']['l']]
            cb = fns.get(cp)
            if cb is None or cb.get('kind') != 'Closure' or cb['argc'] != 2:
                continue
            if not any(o.get('k') in ('move', 'copy') and o['place'].get('ty', '').startswith('&mut ') for o in cops):
                continue
            g = t['func'].get('gargs', [])
            if (kind == 'Result' and len(g) < 3) or (kind == 'Option' and len(g) < 2):
                continue
            tpay = g[0]
            terr = g[1] if kind == 'Result' else None
            tu = cb['locals'][0]['ty']
            rl = r['place']['l']
            tr = r['place']['ty']
            line = t.get('span', {}).get('l0', 0)
            span = t.get('span')
            f.setdefault('orig_nlocals', len(f['locals']))

            def newlocal(ty):
                f['locals'].append({'i': len(f['locals']), 'ty': ty, 'name': None, 'mut': True})
                return len(f['locals']) - 1

            def pl(l, ty):
                return {'l': l, 'p': [], 'ty': ty}

            def adt(path, variant, vidx, fields, ops):
                return {'k': 'aggregate', 'kind': {'a': 'adt', 'path': path, 'variant': variant, 'vidx': vidx, 'fields': fields, 'union_field': -1}, 'ops': ops}

            def asg(place, rv):
                return {'k': 'assign', 'place': place, 'rv': rv, 'line': line}
            okv, oki, badv, badi = ('Ok', 0, 'Err', 1) if kind == 'Result' else ('Some', 1, 'None', 0)
            hd = 'std::result::Result' if kind == 'Result' else 'std::option::Option'
            dest = copy.deepcopy(t['dest'])
            cont = t['target']
            ld, lpay, ltup, lu = newlocal('isize'), newlocal(tpay), newlocal('(%s,)' % tpay), newlocal(tu)
            nbk = len(f['blocks'])
            b_ok, b_ok2, b_bad, b_un = nbk, nbk + 1, nbk + 2, nbk + 3
            b['stmts'].append(asg(pl(ld, 'isize'), {'k': 'discr', 'place': pl(rl, tr)}))
            b['term'] = {'k': 'switch', 'discr': {'k': 'move', 'place': pl(ld, 'isize')}, 'arms': [[str(oki), b_ok], [str(badi), b_bad]], 'otherwise': b_un, 'span': span}
            pay = {'l': rl, 'p': [{'k': 'downcast', 'variant': okv, 'i': oki}, {'k': 'field', 'i': 0, 'name': '0', 'ty': tpay}], 'ty': tpay}
            cfunc = {'def': 'std::ops::FnOnce::call_once', 'krate': 'core', 'local': False, 'gargs': [], 'trait': 'std::ops::FnOnce', 'res': cp,
                     'res_krate': '', 'res_local': True, 'res_kind': 'Item'}
            ops = [{'k': 'move', 'place': pl(lpay, tpay)}]
            f['blocks'].append({'i': b_ok, 'cleanup': False, 'stmts': [
                asg(pl(lpay, tpay), {'k': 'use', 'op': {'k': 'move', 'place': pay}}),
                asg(pl(ltup, '(%s,)' % tpay), {'k': 'aggregate', 'kind': {'a': 'tuple'}, 'ops': copy.deepcopy(ops)})],
                'term': {'k': 'call', 'func': cfunc, 'args': [copy.deepcopy(cl), {'k': 'move', 'place': pl(ltup, '(%s,)' % tpay)}], 'dest': pl(lu, tu),
                         'target': b_ok2, 'unwind': t.get('unwind', 'Continue'), 'span': span, 'spread_ops': copy.deepcopy(ops)}})
            f['blocks'].append({'i': b_ok2, 'cleanup': False, 'stmts': [asg(copy.deepcopy(dest), adt(hd, okv, oki, ['0'], [{'k': 'move', 'place': pl(lu, tu)}]))],
                                'term': {'k': 'goto', 'target': cont}})
            if kind == 'Result':
                le = newlocal(terr)
                errp = {'l': rl, 'p': [{'k': 'downcast', 'variant': 'Err', 'i': 1}, {'k': 'field', 'i': 0, 'name': '0', 'ty': terr}], 'ty': terr}
                bad = [asg(pl(le, terr), {'k': 'use', 'op': {'k': 'move', 'place': errp}}), asg(copy.deepcopy(dest), adt(hd, 'Err', 1, ['0'], [{'k': 'move', 'place': pl(le, terr)}]))]
            else:
                bad = [asg(copy.deepcopy(dest), adt(hd, 'None', 0, [], []))]
            f['blocks'].append({'i': b_bad, 'cleanup': False, 'stmts': bad, 'term': {'k': 'goto', 'target': cont}})
            f['blocks'].append({'i': b_un, 'cleanup': False, 'stmts': [], 'term': {'k': 'unreachable'}})
            rls = f.setdefault('ret_locals', [])
            for l_ in (rl, dest['l']):
                if l_ not in rls:
                    rls.append(l_)
            f.setdefault('lowered_consumers', []).append(cp)
            n += 1
    return n


CONSUMERS = {'std::iter::Iterator::fold': ('fold', False), 'std::iter::Iterator::try_fold': ('try_fold', True),
             'std::iter::Iterator::for_each': ('for_each', False), 'std::iter::Iterator::try_for_each': ('try_for_each', True)}


def _generic_args(ty):
    """('std::result::Result', ['A', 'B']) of `std::result::Result<A, B>`"""
    i = ty.find('<')
    if i < 0 or not ty.endswith('>'):
        return ty, []
    head, inner = ty[:i], ty[i + 1:-1]
    out, depth, cur = [], 0, ''
    for ch in inner:
        if ch in '<([':
            depth += 1
        elif ch in '>)]':
            depth -= 1
        if ch == ',' and depth == 0:
            out.append(cur.strip())
            cur = ''
        else:
            cur += ch
    if cur.strip():
        out.append(cur.strip())
    return head, out


def lower_consumers(j, baseline, skip=()):
    """`it.fold(init, closure)`, `it.try_fold(init, closure)`, `it.for_each(closure)`, `it.try_for_each(closure)` with a closure written
    at the call become the loop they abbreviate:
        acc = init; loop { match it.next() { None => break, Some(x) => acc = closure(acc, x) [or leave with the failure] } }
    with the closure called directly (and then spliced like any directly-called closure).  What the closure does per element is then read
    as the body of a loop over the iterator, its failure is a guard of the caller, its accumulator a loop-carried value."""
    fns = {f['path']: f for f in j['fns'] if f['label'] == 'fn'}
    n = 0
    for f in j['fns']:
        if f['label'] != 'fn' or f['path'].split('::{closure')[0] in skip:
            continue
        closure_of = {}
        for b in f['blocks']:
            for s_ in b['stmts']:
                if s_['k'] == 'assign' and not s_['place']['p'] and s_['rv']['k'] == 'aggregate' and s_['rv']['kind'].get('a') == 'closure':
                    closure_of[s_['place']['l']] = s_['rv']['kind']['path']
        for b in list(f['blocks']):
            t = b['term']
            if t['k'] != 'call' or b.get('cleanup') or t['func'].get('def') not in CONSUMERS or t.get('target') is None or t['dest']['p']:
                continue
            kind, fallible = CONSUMERS[t['func']['def']]
            has_acc = kind in ('fold', 'try_fold')
            if len(t['args']) != (3 if has_acc else 2):
                continue
            it, cl = t['args'][0], t['args'][-1]
            if it.get('k') not in ('move', 'copy') or it['place']['p'] or cl.get('k') not in ('move', 'copy') or cl['place']['p'] or cl['place']['l'] not in closure_of:
                continue
            cp = closure_of[cl['place']['l']]
            cb = fns.get(cp)
            if cb is None or cb.get('kind') != 'Closure' or cb['argc'] != (3 if has_acc else 2):
                continue
            tself = t['func'].get('gargs', [None])[0]
            tit = it['place']['ty']
            by_ref = tit.startswith('&mut ')
            titem = cb['locals'][3 if has_acc else 2]['ty']
            tacc = cb['locals'][2]['ty'] if has_acc else None
            tres = cb['locals'][0]['ty']
            tdest = t['dest']['ty']
            tcl = cl['place']['ty']
            head, rargs = _generic_args(tres)
            if fallible:
                if head == 'std::result::Result' and len(rargs) == 2:
                    okv, oki, badv, badi, tbad = 'Ok', 0, 'Err', 1, rargs[1]
                elif head == 'std::option::Option' and len(rargs) == 1:
                    okv, oki, badv, badi, tbad = 'Some', 1, 'None', 0, None
                else:
                    continue
                tpay = rargs[0]
            line = t.get('span', {}).get('l0', 0)
            span = t.get('span')
            f.setdefault('orig_nlocals', len(f['locals']))

            def newlocal(ty):
                f['locals'].append({'i': len(f['locals']), 'ty': ty, 'name': None, 'mut': True})
                return len(f['locals']) - 1

            def pl(l, ty):
                return {'l': l, 'p': [], 'ty': ty}

            def adt(path, variant, vidx, fields, ops):
                return {'k': 'aggregate', 'kind': {'a': 'adt', 'path': path, 'variant': variant, 'vidx': vidx, 'fields': fields, 'union_field': -1}, 'ops': ops}

            def asg(place, rv):
                return {'k': 'assign', 'place': place, 'rv': rv, 'line': line}
            dest = copy.deepcopy(t['dest'])
            cont = t['target']
            unwind = t.get('unwind', 'Continue')
            topt = 'std::option::Option<%s>' % titem
            ttup = '(%s, %s)' % (tacc, titem) if has_acc else '(%s,)' % titem
            tmi = tit if by_ref else '&mut %s' % tit
            lnx, ld, litem, ltup, lr, lcr = newlocal(topt), newlocal('isize'), newlocal(titem), newlocal(ttup), newlocal(tres), newlocal('&mut %s' % tcl)
            lacc = newlocal(tacc) if has_acc else None
            nbk = len(f['blocks'])
            b_head, b_sw, b_body, b_after, b_done, b_un = nbk, nbk + 1, nbk + 2, nbk + 3, nbk + 4, nbk + 5
            b_ok, b_bad = nbk + 6, nbk + 7
            if by_ref:
                lit = it['place']['l']
                head_stmts = []
                next_arg = {'k': 'copy', 'place': pl(lit, tit)}
            else:
                lit = newlocal(tit)
                lref = newlocal(tmi)
                b['stmts'].append(asg(pl(lit, tit), {'k': 'use', 'op': copy.deepcopy(it)}))
                head_stmts = [asg(pl(lref, tmi), {'k': 'ref', 'mut': True, 'place': pl(lit, tit)})]
                next_arg = {'k': 'move', 'place': pl(lref, tmi)}
            if has_acc:
                b['stmts'].append(asg(pl(lacc, tacc), {'k': 'use', 'op': copy.deepcopy(t['args'][1])}))
            b['term'] = {'k': 'goto', 'target': b_head}
            nfunc = {'def': 'std::iter::Iterator::next', 'krate': 'core', 'local': False, 'gargs': [tself or tit], 'trait': 'std::iter::Iterator',
                     'res': 'std::iter::Iterator::next', 'res_krate': 'core', 'res_local': False, 'res_kind': 'Item'}
            f['blocks'].append({'i': b_head, 'cleanup': False, 'stmts': head_stmts,
                                'term': {'k': 'call', 'func': nfunc, 'args': [next_arg], 'dest': pl(lnx, topt), 'target': b_sw, 'unwind': unwind, 'span': span}})
            f['blocks'].append({'i': b_sw, 'cleanup': False, 'stmts': [asg(pl(ld, 'isize'), {'k': 'discr', 'place': pl(lnx, topt)})],
                                'term': {'k': 'switch', 'discr': {'k': 'move', 'place': pl(ld, 'isize')}, 'arms': [['0', b_done], ['1', b_body]], 'otherwise': b_un, 'span': span}})
            pay = {'l': lnx, 'p': [{'k': 'downcast', 'variant': 'Some', 'i': 1}, {'k': 'field', 'i': 0, 'name': '0', 'ty': titem}], 'ty': titem}
            ops = ([{'k': 'move', 'place': pl(lacc, tacc)}] if has_acc else []) + [{'k': 'move', 'place': pl(litem, titem)}]
            cfunc = {'def': 'std::ops::FnMut::call_mut', 'krate': 'core', 'local': False, 'gargs': [], 'trait': 'std::ops::FnMut', 'res': cp,
                     'res_krate': '', 'res_local': True, 'res_kind': 'Item'}
            f['blocks'].append({'i': b_body, 'cleanup': False, 'stmts': [
                asg(pl(litem, titem), {'k': 'use', 'op': {'k': 'move', 'place': pay}}),
                asg(pl(ltup, ttup), {'k': 'aggregate', 'kind': {'a': 'tuple'}, 'ops': ops}),
                asg(pl(lcr, '&mut %s' % tcl), {'k': 'ref', 'mut': True, 'place': pl(cl['place']['l'], tcl)})],
                'term': {'k': 'call', 'func': cfunc, 'args': [{'k': 'move', 'place': pl(lcr, '&mut %s' % tcl)}, {'k': 'move', 'place': pl(ltup, ttup)}],
                         'dest': pl(lr, tres), 'target': b_after, 'unwind': unwind, 'span': span, 'spread_ops': copy.deepcopy(ops)}})
            if not fallible:
                after = [asg(pl(lacc, tacc), {'k': 'use', 'op': {'k': 'move', 'place': pl(lr, tres)}})] if has_acc else []
                f['blocks'].append({'i': b_after, 'cleanup': False, 'stmts': after, 'term': {'k': 'goto', 'target': b_head}})
                done = [asg(dest, {'k': 'use', 'op': {'k': 'move', 'place': pl(lacc, tacc)}})] if has_acc else [asg(dest, {'k': 'aggregate', 'kind': {'a': 'tuple'}, 'ops': []})]
                f['blocks'].append({'i': b_done, 'cleanup': False, 'stmts': done, 'term': {'k': 'goto', 'target': cont}})
                f['blocks'].append({'i': b_un, 'cleanup': False, 'stmts': [], 'term': {'k': 'unreachable'}})
            else:
                ld2 = newlocal('isize')
                f['blocks'].append({'i': b_after, 'cleanup': False, 'stmts': [asg(pl(ld2, 'isize'), {'k': 'discr', 'place': pl(lr, tres)})],
                                    'term': {'k': 'switch', 'discr': {'k': 'move', 'place': pl(ld2, 'isize')}, 'arms': [[str(oki), b_ok], [str(badi), b_bad]], 'otherwise': b_un, 'span': span}})
                hd = 'std::result::Result' if okv == 'Ok' else 'std::option::Option'
                if has_acc:
                    done = [asg(dest, adt(hd, okv, oki, ['0'], [{'k': 'move', 'place': pl(lacc, tacc)}]))]
                else:
                    lu = newlocal('()')
                    done = [asg(pl(lu, '()'), {'k': 'aggregate', 'kind': {'a': 'tuple'}, 'ops': []}), asg(dest, adt(hd, okv, oki, ['0'], [{'k': 'move', 'place': pl(lu, '()')}]))]
                f['blocks'].append({'i': b_done, 'cleanup': False, 'stmts': done, 'term': {'k': 'goto', 'target': cont}})
                f['blocks'].append({'i': b_un, 'cleanup': False, 'stmts': [], 'term': {'k': 'unreachable'}})
                okp = {'l': lr, 'p': [{'k': 'downcast', 'variant': okv, 'i': oki}, {'k': 'field', 'i': 0, 'name': '0', 'ty': tpay}], 'ty': tpay}
                okst = [asg(pl(lacc, tacc), {'k': 'use', 'op': {'k': 'move', 'place': okp}})] if has_acc else []
                f['blocks'].append({'i': b_ok, 'cleanup': False, 'stmts': okst, 'term': {'k': 'goto', 'target': b_head}})
                if tbad is not None:
                    le = newlocal(tbad)
                    errp = {'l': lr, 'p': [{'k': 'downcast', 'variant': 'Err', 'i': 1}, {'k': 'field', 'i': 0, 'name': '0', 'ty': tbad}], 'ty': tbad}
                    bad = [asg(pl(le, tbad), {'k': 'use', 'op': {'k': 'move', 'place': errp}}), asg(copy.deepcopy(dest), adt(hd, 'Err', 1, ['0'], [{'k': 'move', 'place': pl(le, tbad)}]))]
                else:
                    bad = [asg(copy.deepcopy(dest), adt(hd, 'None', 0, [], []))]
                f['blocks'].append({'i': b_bad, 'cleanup': False, 'stmts': bad, 'term': {'k': 'goto', 'target': cont}})
                rl = f.setdefault('ret_locals', [])
                for l_ in (lr, dest['l']):
                    if l_ not in rl:
                        rl.append(l_)
            f.setdefault('lowered_consumers', []).append(cp)
            n += 1
    return n


def _closure_sig(fns, cp, depth=0):
    """what a closure does, as the set of functions it calls (closures nested in it included): the identity of an adapter chain that
    survives renumbering of closures and moving the chain to another function"""
    cb = fns.get(cp)
    out = set()
    if cb is None or depth > 3:
        return out
    for b in cb['blocks']:
        t = b['term']
        if t['k'] == 'call' and not b.get('cleanup'):
            d = t['func'].get('res') or t['func'].get('def') or ''
            if '{closure' in d:
                out |= _closure_sig(fns, d, depth + 1)
            elif not d.startswith(('std::ops::', 'std::convert::', 'std::result::', 'std::option::', 'std::clone::')):
                out.add(d.split('::')[-1])
    return out


def lower_effect_collect(j, baseline, skip=(), only_sigs=None):
    """`it.map(closure).collect::<Result<Vec<T>, E>>()` where the closure captures a `&mut` transcript (each element is produced by absorbing
    into / drawing from a transcript) becomes the loop it abbreviates:
        v = Vec::new(); loop { match it.next() { None => break Ok(v), Some(x) => match closure(x) { Ok(y) => v.push(y), Err(e) => break Err(e) } } }
    The chains the pinned tree itself is written with keep their form (they are recognised by what their closure calls, see
    tools/mkbaseline.py): the rules read those as terms; a chain that is new is read as the loop."""
    fns = {f['path']: f for f in j['fns'] if f['label'] == 'fn'}
    keep = {tuple(x) for x in (baseline or {}).get('effect_collects', [])}
    n = 0
    for f in j['fns']:
        if f['label'] != 'fn' or f['path'].split('::{closure')[0] in skip:
            continue
        closure_of = {}
        defs = {}
        for b in f['blocks']:
            for s_ in b['stmts']:
                if s_['k'] == 'assign' and not s_['place']['p'] and s_['rv']['k'] == 'aggregate' and s_['rv']['kind'].get('a') == 'closure':
                    closure_of[s_['place']['l']] = (s_['rv']['kind']['path'], s_['rv']['ops'])
            t = b['term']
            if t['k'] == 'call' and not t['dest']['p'] and not b.get('cleanup'):
                defs.setdefault(t['dest']['l'], []).append(b)
        for bc in list(f['blocks']):
            t = bc['term']
            if t['k'] != 'call' or bc.get('cleanup') or t['func'].get('def') != 'std::iter::Iterator::collect' or len(t['args']) != 1 or t.get('target') is None or t['dest']['p']:
                continue
            g = t['func'].get('gargs', [])
            if len(g) != 2:
                continue
            head, rargs = _generic_args(g[1])
            if head != 'std::result::Result' or len(rargs) != 2 or not rargs[0].startswith('std::vec::Vec<'):
                continue
            tvec, terr = rargs
            telem = _generic_args(tvec)[1][0]
            m = t['args'][0]
            if m.get('k') != 'move' or m['place']['p'] or len(defs.get(m['place']['l'], [])) != 1:
                continue
            bm = defs[m['place']['l']][0]
            tm = bm['term']
            if tm['func'].get('def') != 'std::iter::Iterator::map' or len(tm['args']) != 2 or tm.get('target') != bc['i']:
                continue
            if any(s_['k'] == 'assign' for s_ in bc['stmts']):
                continue
            it, cl = tm['args']
            if it.get('k') not in ('move', 'copy') or it['place']['p'] or cl.get('k') not in ('move', 'copy') or cl['place']['p'] or cl['place']['l'] not in closure_of:
                continue
            cp, cops = closure_of[cl['place']['l']]
            cb = fns.get(cp)
            if cb is None or cb.get('kind') != 'Closure' or cb['argc'] != 2:
                continue
            if not any(o.get('k') in ('move', 'copy') and o['place'].get('ty', '').startswith('&mut ') and 'Transcript' in o['place'].get('ty', '') for o in cops):
                # what the closure changes is a transcript: its absorptions and challenges are protocol events, which the trace rules place
                # in loops.  A closure that advances a cursor or fills a buffer is applied symbolically by the value rules and keeps its form.
                continue
            if only_sigs is not None:
                only_sigs.add(tuple(sorted(_closure_sig(fns, cp))))
                continue
            if tuple(sorted(_closure_sig(fns, cp))) in keep:
                continue
            tres = cb['locals'][0]['ty']
            h2, r2 = _generic_args(tres)
            if h2 != 'std::result::Result' or len(r2) != 2:
                continue
            tit = it['place']['ty']
            titem = cb['locals'][2]['ty']
            tcl = cl['place']['ty']
            line = tm.get('span', {}).get('l0', 0)
            span = tm.get('span')
            unwind = 'Continue'
            f.setdefault('orig_nlocals', len(f['locals']))

            def newlocal(ty):
                f['locals'].append({'i': len(f['locals']), 'ty': ty, 'name': None, 'mut': True})
                return len(f['locals']) - 1

            def pl(l, ty):
                return {'l': l, 'p': [], 'ty': ty}

            def adt(path, variant, vidx, fields, ops):
                return {'k': 'aggregate', 'kind': {'a': 'adt', 'path': path, 'variant': variant, 'vidx': vidx, 'fields': fields, 'union_field': -1}, 'ops': ops}

            def asg(place, rv):
                return {'k': 'assign', 'place': place, 'rv': rv, 'line': line}

            def ext(defn, krate, gargs):
                return {'def': defn, 'krate': krate, 'local': False, 'gargs': gargs, 'trait': '', 'res': defn, 'res_krate': krate, 'res_local': False, 'res_kind': 'Item'}
            dest = copy.deepcopy(t['dest'])
            cont = t['target']
            topt = 'std::option::Option<%s>' % titem
            ttup = '(%s,)' % titem
            tmi = '&mut %s' % tit
            tmv = '&mut %s' % tvec
            lvec, lit, lref, lnx, ld, litem, ltup, lr, lcr = (newlocal(tvec), newlocal(tit), newlocal(tmi), newlocal(topt), newlocal('isize'), newlocal(titem),
                                                            newlocal(ttup), newlocal(tres), newlocal('&mut %s' % tcl))
            ld2, lpay, lvr, lunit, le = newlocal('isize'), newlocal(telem), newlocal(tmv), newlocal('()'), newlocal(terr)
            nbk = len(f['blocks'])
            b_new, b_head, b_sw, b_body, b_after, b_done, b_un, b_ok, b_bad = range(nbk, nbk + 9)
            bm['stmts'].append(asg(pl(lit, tit), {'k': 'use', 'op': copy.deepcopy(it)}))
            bm['term'] = {'k': 'goto', 'target': b_new}
            bc['stmts'] = []
            bc['term'] = {'k': 'unreachable'}
            f['blocks'].append({'i': b_new, 'cleanup': False, 'stmts': [],
                                'term': {'k': 'call', 'func': ext('std::vec::Vec::<T>::new', 'alloc', [telem]), 'args': [], 'dest': pl(lvec, tvec), 'target': b_head, 'unwind': unwind, 'span': span}})
            nfunc = {'def': 'std::iter::Iterator::next', 'krate': 'core', 'local': False, 'gargs': [tit], 'trait': 'std::iter::Iterator',
                     'res': 'std::iter::Iterator::next', 'res_krate': 'core', 'res_local': False, 'res_kind': 'Item'}
            f['blocks'].append({'i': b_head, 'cleanup': False, 'stmts': [asg(pl(lref, tmi), {'k': 'ref', 'mut': True, 'place': pl(lit, tit)})],
                                'term': {'k': 'call', 'func': nfunc, 'args': [{'k': 'move', 'place': pl(lref, tmi)}], 'dest': pl(lnx, topt), 'target': b_sw, 'unwind': unwind, 'span': span}})
            f['blocks'].append({'i': b_sw, 'cleanup': False, 'stmts': [asg(pl(ld, 'isize'), {'k': 'discr', 'place': pl(lnx, topt)})],
                                'term': {'k': 'switch', 'discr': {'k': 'move', 'place': pl(ld, 'isize')}, 'arms': [['0', b_done], ['1', b_body]], 'otherwise': b_un, 'span': span}})
            pay = {'l': lnx, 'p': [{'k': 'downcast', 'variant': 'Some', 'i': 1}, {'k': 'field', 'i': 0, 'name': '0', 'ty': titem}], 'ty': titem}
            ops = [{'k': 'move', 'place': pl(litem, titem)}]
            cfunc = {'def': 'std::ops::FnMut::call_mut', 'krate': 'core', 'local': False, 'gargs': [], 'trait': 'std::ops::FnMut', 'res': cp,
                     'res_krate': '', 'res_local': True, 'res_kind': 'Item'}
            f['blocks'].append({'i': b_body, 'cleanup': False, 'stmts': [
                asg(pl(litem, titem), {'k': 'use', 'op': {'k': 'move', 'place': pay}}),
                asg(pl(ltup, ttup), {'k': 'aggregate', 'kind': {'a': 'tuple'}, 'ops': ops}),
                asg(pl(lcr, '&mut %s' % tcl), {'k': 'ref', 'mut': True, 'place': pl(cl['place']['l'], tcl)})],
                'term': {'k': 'call', 'func': cfunc, 'args': [{'k': 'move', 'place': pl(lcr, '&mut %s' % tcl)}, {'k': 'move', 'place': pl(ltup, ttup)}],
                         'dest': pl(lr, tres), 'target': b_after, 'unwind': unwind, 'span': span, 'spread_ops': copy.deepcopy(ops)}})
            f['blocks'].append({'i': b_after, 'cleanup': False, 'stmts': [asg(pl(ld2, 'isize'), {'k': 'discr', 'place': pl(lr, tres)})],
                                'term': {'k': 'switch', 'discr': {'k': 'move', 'place': pl(ld2, 'isize')}, 'arms': [['0', b_ok], ['1', b_bad]], 'otherwise': b_un, 'span': span}})
            f['blocks'].append({'i': b_done, 'cleanup': False, 'stmts': [asg(dest, adt('std::result::Result', 'Ok', 0, ['0'], [{'k': 'move', 'place': pl(lvec, tvec)}]))],
                                'term': {'k': 'goto', 'target': cont}})
            f['blocks'].append({'i': b_un, 'cleanup': False, 'stmts': [], 'term': {'k': 'unreachable'}})
            okp = {'l': lr, 'p': [{'k': 'downcast', 'variant': 'Ok', 'i': 0}, {'k': 'field', 'i': 0, 'name': '0', 'ty': telem}], 'ty': telem}
            f['blocks'].append({'i': b_ok, 'cleanup': False, 'stmts': [asg(pl(lpay, telem), {'k': 'use', 'op': {'k': 'move', 'place': okp}}),
                                                                       asg(pl(lvr, tmv), {'k': 'ref', 'mut': True, 'place': pl(lvec, tvec)})],
                                'term': {'k': 'call', 'func': ext('std::vec::Vec::<T, A>::push', 'alloc', [telem, 'std::alloc::Global']),
                                         'args': [{'k': 'move', 'place': pl(lvr, tmv)}, {'k': 'move', 'place': pl(lpay, telem)}], 'dest': pl(lunit, '()'), 'target': b_head, 'unwind': unwind, 'span': span}})
            errp = {'l': lr, 'p': [{'k': 'downcast', 'variant': 'Err', 'i': 1}, {'k': 'field', 'i': 0, 'name': '0', 'ty': terr}], 'ty': terr}
            f['blocks'].append({'i': b_bad, 'cleanup': False, 'stmts': [asg(pl(le, terr), {'k': 'use', 'op': {'k': 'move', 'place': errp}}),
                                                                        asg(copy.deepcopy(dest), adt('std::result::Result', 'Err', 1, ['0'], [{'k': 'move', 'place': pl(le, terr)}]))],
                                'term': {'k': 'goto', 'target': cont}})
            rl = f.setdefault('ret_locals', [])
            for l_ in (lr, dest['l']):
                if l_ not in rl:
                    rl.append(l_)
            f.setdefault('lowered_consumers', []).append(cp)
            n += 1
    return n


def inline_new_helpers(j):
    """returns {'spliced': {caller: [callee..]}, 'removed': [..]}; mutates j"""
    baseline = load_baseline()
    cands = candidates(j, baseline)
    if baseline:
        # helpers that end up inside a function which used `and_then` at the baseline keep their form too (they are read as part of it)
        keep = set(baseline.get('and_then_parents', []))
        callers = {}
        for f in j['fns']:
            if f['label'] != 'fn':
                continue
            root = f['path'].split('::{closure')[0]
            for b in f['blocks']:
                t = b['term']
                if t['k'] == 'call' and t['func'].get('res_local') and t['func'].get('res') in cands:
                    callers.setdefault(t['func']['res'], set()).add(root)
        skip = set()
        for c in cands:
            seen, work = set(), [c]
            while work:
                x = work.pop()
                if x in seen:
                    continue
                seen.add(x)
                for r in callers.get(x, ()):
                    if r in keep:
                        skip.add(c)
                    elif r in cands:
                        work.append(r)
        lower_and_then(j, baseline, skip)
        lower_map_transpose(j, baseline, skip | keep)
        lower_effect_map(j, baseline, skip | keep)
        lower_effect_collect(j, baseline)
        lower_consumers(j, baseline, set(baseline.get('consumer_parents', [])))
    info = {'candidates': sorted(cands), 'spliced': {}, 'removed': []}
    fns = {f['path']: f for f in j['fns'] if f['label'] == 'fn'}
    # a new helper that is generic over the implementor of a crate trait (the provided method of a new private extension trait, a
    # helper `fn f<T: TranscriptProtocol>(t: &mut T)`) calls the trait's methods unresolved; when the crate has one implementation
    # of that trait, that is the one the helper reaches once it is spliced into its (concrete) caller
    impls_of = {}
    for im in j.get('impls', []):
        impls_of.setdefault(im.get('trait'), []).append(im)
    for pth in cands:
        f = fns.get(pth)
        if f is None:
            continue
        for b in f['blocks']:
            t = b['term']
            if t['k'] != 'call' or 'indirect' in t['func']:
                continue
            fu = t['func']
            if fu.get('res') or not fu.get('local') or not fu.get('trait') or not fu.get('gargs'):
                continue
            if not re.match(r'^[A-Z]\w*$', fu['gargs'][0]) or '::' in fu['gargs'][0]:
                continue
            ims = impls_of.get(fu['trait'], [])
            if len(ims) != 1:
                continue
            want = '<%s as %s>::%s' % (ims[0]['self_ty'], fu['trait'], fu['def'].split('::')[-1])
            if want in ims[0].get('items', []) and want in fns:
                fu['res'] = want
                fu['res_local'] = True
                fu['res_krate'] = fu.get('krate', '')
                fu['res_kind'] = 'Item'
                fu['devirtualised'] = True
    # closures that are called directly (`let fail = |m| Err(..); return fail(..)`) are local helper functions: spliced at the call,
    # except in the functions that already called closures directly at the baseline (the rules read those as they are)
    keep_parents = set((baseline or {}).get('direct_closure_parents', [])) if baseline else None
    ccands = set()
    if keep_parents is not None:
        for f in j['fns']:
            if f['label'] != 'fn':
                continue
            for b in f['blocks']:
                t = b['term']
                if t['k'] == 'call' and t['func'].get('def') in CLOSURE_CALLS and t['func'].get('res_local') and '{closure' in (t['func'].get('res') or ''):
                    res = t['func']['res']
                    root = res.split('::{closure')[0]
                    if root not in keep_parents and res in fns and fns[res]['kind'] == 'Closure' and len(t['args']) == 2 \
                            and t['args'][1].get('k') in ('move', 'copy'):
                        ccands.add(res)
    info['closure_candidates'] = sorted(ccands)
    if not cands and not ccands:
        return info
    done, busy = set(), set()

    def flatten(path):
        if path in done or path in busy:
            return
        busy.add(path)
        f = fns[path]
        bi = 0
        while bi < len(f['blocks']) and len(f['blocks']) < MAX_BLOCKS:
            t = f['blocks'][bi]['term']
            if t['k'] == 'call' and 'indirect' not in t['func']:
                res = t['func'].get('res') or ''
                if t['func'].get('res_local') and res in cands and res in fns and res not in busy and not f['blocks'][bi]['cleanup']:
                    flatten(res)
                    if res in done:
                        _splice(f, bi, fns[res])
                        info['spliced'].setdefault(path, []).append(res)
                elif t['func'].get('res_local') and res in ccands and t['func'].get('def') in CLOSURE_CALLS and res not in busy and not f['blocks'][bi]['cleanup'] \
                        and len(t['args']) == 2 and t['args'][1].get('k') in ('move', 'copy'):
                    flatten(res)
                    if res in done:
                        _splice(f, bi, fns[res], spread=True)
                        info['spliced'].setdefault(path, []).append(res)
            bi += 1
        busy.discard(path)
        done.add(path)

    for p in list(fns):
        flatten(p)
    # helpers that are now only referenced by themselves disappear from the program
    called, refs = set(), set()
    for f in j['fns']:
        if f['label'] == 'fn' and f['path'] in cands:
            continue
        for b in f['blocks']:
            t = b['term']
            if t['k'] == 'call' and 'indirect' not in t['func'] and t['func'].get('res_local'):
                called.add(t['func'].get('res'))
        _fn_refs(f['blocks'], refs)
    keep = (called | refs)
    removed = [p for p in cands if p not in keep]
    # transitively: a candidate kept alive only by a removed candidate
    # a closure all of whose uses were direct calls is gone with them: its body would otherwise be read as a second, generic copy
    dead_closures = []
    if ccands:
        ts_of = {}
        for f in j['fns']:
            for b in f['blocks']:
                for s_ in b['stmts']:
                    if s_['k'] == 'assign' and s_['rv']['k'] == 'aggregate' and s_['rv']['kind'].get('a') == 'closure' and s_['rv']['kind']['path'] in ccands:
                        ts_of[s_['rv']['kind']['path']] = s_['place']['ty']
        for cp, ts in ts_of.items():
            alive = False
            for f in j['fns']:
                if f['path'] == cp:
                    continue
                for b in f['blocks']:
                    t = b['term']
                    if t['k'] == 'call' and ts in json.dumps(t):
                        alive = True
                        break
                    for s_ in b['stmts']:
                        if s_['k'] == 'assign' and s_['rv']['k'] == 'aggregate' and s_['rv']['kind'].get('path') != cp and ts in json.dumps(s_['rv'].get('ops', [])):
                            alive = True
                            break
                    if alive:
                        break
                if alive:
                    break
            if not alive:
                dead_closures.append(cp)
    removed = list(removed) + dead_closures
    j['fns'] = [f for f in j['fns'] if not (f['label'] == 'fn' and f['path'] in removed)]
    info['removed'] = sorted(removed)
    # new private structs that only bundle locals of a function are taken apart again (one local per field)
    new_structs = {a['path']: a for a in j['adts'] if baseline.get('adts') and a['path'] not in baseline['adts'] and a.get('kind') == 'Struct' and len(a['variants']) == 1}
    info['split_structs'] = {}
    if new_structs:
        for f in j['fns']:
            n = split_structs(f, new_structs, {g['path']: g for g in j['fns'] if g['label'] == 'fn'})
            if n:
                info['split_structs'][f['path']] = n
    for f in j['fns']:
        if f.get('spliced') or f.get('split'):
            collapse_moves(f)
    for f in j['fns']:
        if f.get('ret_locals'):
            thread_variants(f)
    return info


def collapse_moves(f):
    """`X = move Y` between two whole locals, X defined only there, at least one of them introduced by splicing / splitting: X is Y
    (a by-value parameter of a spliced helper, the binding of a destructured bundle field).  Keeps the identity of a vector that is
    built in one phase and consumed in another."""
    n0 = f.get('orig_nlocals', len(f['locals']))
    ndefs = {}
    for b in f['blocks']:
        for s in b['stmts']:
            if s['k'] == 'assign' and not s['place']['p']:
                ndefs[s['place']['l']] = ndefs.get(s['place']['l'], 0) + 1
        t = b['term']
        if t['k'] == 'call' and not t['dest']['p']:
            ndefs[t['dest']['l']] = ndefs.get(t['dest']['l'], 0) + 1
    ren = {}
    for b in f['blocks']:
        keep = []
        for s in b['stmts']:
            if s['k'] == 'assign' and not s['place']['p'] and s['rv']['k'] == 'use' and s['rv']['op'].get('k') == 'move' and not s['rv']['op']['place']['p']:
                x, y = s['place']['l'], s['rv']['op']['place']['l']
                if x != 0 and x > f['argc'] and ndefs.get(x) == 1 and (x >= n0 or y >= n0) and f['locals'][x]['ty'] == f['locals'][y]['ty'] and x != y:
                    ren[x] = y
                    if not f['locals'][y].get('name') and f['locals'][x].get('name'):
                        f['locals'][y]['name'] = f['locals'][x]['name']
                    continue
            keep.append(s)
        b['stmts'] = keep
    if not ren:
        return 0

    def res(l):
        d = 0
        while l in ren and d < 50:
            l = ren[l]
            d += 1
        return l
    # the surviving local of a chain of moves carries the name a user gave to any link of the chain
    named_by_caller = set()
    for x in sorted(ren):
        r = res(x)
        if not f['locals'][x].get('name'):
            continue
        if not f['locals'][r].get('name'):
            f['locals'][r]['name'] = f['locals'][x]['name']
            if x < n0:
                named_by_caller.add(r)
        elif x < n0 and r >= n0 and r not in named_by_caller:
            # the name written in the function itself (`let a1 = ..fold(..)`) rather than the one inside the spliced closure (`acc`)
            f['locals'][r]['name'] = f['locals'][x]['name']
            named_by_caller.add(r)

    def fix(x):
        if isinstance(x, dict):
            if x.get('k') in ('live', 'dead') and 'l' in x:
                return
            for k, v in list(x.items()):
                if k == 'l' and isinstance(v, int):
                    x[k] = res(v)
                else:
                    fix(v)
        elif isinstance(x, list):
            for v in x:
                fix(v)
    for b in f['blocks']:
        b['stmts'] = [s for s in b['stmts'] if not (s['k'] in ('live', 'dead') and s['l'] in ren)]
        fix(b['stmts'])
        fix(b['term'])
        # `X = move X` left by a chain that closes on itself (the accumulator of a lowered fold handed through the closure and back)
        b['stmts'] = [s for s in b['stmts'] if not (s['k'] == 'assign' and not s['place']['p'] and s['rv']['k'] == 'use' and s['rv']['op'].get('k') == 'move'
                                                   and not s['rv']['op']['place']['p'] and s['rv']['op']['place']['l'] == s['place']['l'])]
    return len(ren)


# ---- scalar replacement of new private structs ---------------------------------------------------------------------------

def _base_ty(ty):
    t = ty.strip()
    ref = False
    while t.startswith('&'):
        ref = True
        t = t[1:].lstrip()
        if t.startswith("'"):
            t = t.split(' ', 1)[1] if ' ' in t else t
        if t.startswith('mut '):
            t = t[4:]
    return t.split('<', 1)[0], ref


def _closure_prefix(cb):
    """projection prefix that reaches the closure's captured variables from local 1 (the environment is passed by reference for
    Fn / FnMut closures and by value for FnOnce)"""
    ty = cb['locals'][1]['ty'] if len(cb['locals']) > 1 else ''
    return [{'k': 'deref'}] if ty.startswith('&') else []


def _closure_upvar_analysis(cb, j, struct_path):
    """how closure body cb uses captured variable j (a reference to a value of the new struct type): returns the set of local
    reference aliases if every use is an alias definition or a field-by-field access, else None"""
    pre = _closure_prefix(cb)
    k0 = len(pre)
    refs = {}
    for l in cb['locals']:
        base, ref = _base_ty(l['ty'])
        if base == struct_path and ref and l['i'] > 1:
            refs[l['i']] = None
    alias = {}
    ok = [True]

    def is_up(pl):
        pr = pl['p']
        return pl['l'] == 1 and len(pr) > k0 and [e['k'] for e in pr[:k0]] == [e['k'] for e in pre] and pr[k0]['k'] == 'field' and pr[k0].get('i') == j

    def scan_place(pl, alias_def=False):
        pr = pl['p']
        if is_up(pl):
            rest = pr[k0 + 1:]
            if not rest:
                if not alias_def:
                    ok[0] = False
            elif len(rest) >= 2 and rest[0]['k'] == 'deref' and rest[1]['k'] == 'field':
                pass
            elif len(rest) == 1 and rest[0]['k'] == 'deref' and alias_def:
                pass
            else:
                ok[0] = False
        elif pl['l'] in refs:
            if not pr:
                if not alias_def:
                    ok[0] = False
            elif len(pr) >= 2 and pr[0]['k'] == 'deref' and pr[1]['k'] == 'field':
                pass
            elif len(pr) == 1 and pr[0]['k'] == 'deref' and alias_def:
                pass
            else:
                ok[0] = False

    def scan(x):
        if isinstance(x, dict):
            if 'l' in x and 'p' in x and isinstance(x['p'], list):
                scan_place(x)
                return
            for v in x.values():
                scan(v)
        elif isinstance(x, list):
            for v in x:
                scan(v)
    for b in cb['blocks']:
        for s in b['stmts']:
            if s['k'] in ('live', 'dead'):
                continue
            if s['k'] == 'assign' and not s['place']['p'] and s['place']['l'] in refs:
                rv = s['rv']
                src = rv.get('place') if rv['k'] in ('ref', 'copyforderef') else (rv.get('op') or {}).get('place') if rv['k'] == 'use' and (rv.get('op') or {}).get('k') in ('copy', 'move') else None
                if src is None:
                    ok[0] = False
                    continue
                if is_up(src) or src['l'] in refs:
                    scan_place(src, alias_def=True)
                    alias[s['place']['l']] = True
                    continue
                ok[0] = False
                continue
            scan(s)
        scan(b['term'])
    # every reference local of the struct type must be one of the aliases
    if not ok[0] or any(r not in alias for r in refs):
        return None
    return set(alias)


def _split_closure_upvar(cb, j, nf, field_tys):
    """replace captured variable j (a reference to the bundle) by one captured reference per field; returns {field: upvar index}"""
    marker = cb.setdefault('split_upvars', {})
    if str(j) in marker:
        return marker[str(j)]
    pre = _closure_prefix(cb)
    k0 = len(pre)
    nup = len(cb.get('upvars') or [])
    umap = {0: j}
    for i in range(1, nf):
        umap[i] = nup + i - 1
        cb.setdefault('upvars', []).append({'name': 'split#%d.%d' % (j, i)})
    aliases = _closure_upvar_analysis(cb, j, None) if False else None
    refs = set()
    for b in cb['blocks']:
        for s in b['stmts']:
            if s['k'] == 'assign' and not s['place']['p']:
                rv = s['rv']
                src = rv.get('place') if rv['k'] in ('ref', 'copyforderef') else (rv.get('op') or {}).get('place') if rv['k'] == 'use' and (rv.get('op') or {}).get('k') in ('copy', 'move') else None
                if src is None:
                    continue
                kinds = [e['k'] for e in src['p']]
                whole_up = src['l'] == 1 and len(src['p']) > k0 and src['p'][k0]['k'] == 'field' and src['p'][k0].get('i') == j and kinds[k0 + 1:] in ([], ['deref'])
                whole_ref = src['l'] in refs and kinds in ([], ['deref'])
                if whole_up or whole_ref:
                    refs.add(s['place']['l'])

    def up_place(i, rest):
        return {'l': 1, 'p': copy.deepcopy(pre) + [{'k': 'field', 'i': umap[i], 'name': '', 'ty': '&mut ' + field_tys[i]}, {'k': 'deref'}] + rest}

    def fix(x):
        if isinstance(x, dict):
            if 'l' in x and 'p' in x and isinstance(x['p'], list):
                pr = x['p']
                if x['l'] == 1 and len(pr) >= k0 + 3 and pr[k0]['k'] == 'field' and pr[k0].get('i') == j and pr[k0 + 1]['k'] == 'deref' and pr[k0 + 2]['k'] == 'field':
                    np_ = up_place(pr[k0 + 2]['i'], pr[k0 + 3:])
                    x['p'] = np_['p']
                elif x['l'] in refs and len(pr) >= 2 and pr[0]['k'] == 'deref' and pr[1]['k'] == 'field':
                    np_ = up_place(pr[1]['i'], pr[2:])
                    x['l'] = 1
                    x['p'] = np_['p']
                return
            for v in x.values():
                fix(v)
        elif isinstance(x, list):
            for v in x:
                fix(v)
    for b in cb['blocks']:
        keep = []
        for s in b['stmts']:
            if s['k'] in ('live', 'dead') and s['l'] in refs:
                continue
            if s['k'] == 'assign' and not s['place']['p'] and s['place']['l'] in refs:
                continue
            fix(s)
            keep.append(s)
        b['stmts'] = keep
        fix(b['term'])
    marker[str(j)] = umap
    return umap


def split_structs(f, new_structs, fns=None):
    """replace locals of a new struct type by one local per field when the struct is only built, moved whole between such locals,
    borrowed into local reference aliases and accessed field by field (what a `State { .. }` bundle extracted from a long function
    looks like after its helper functions have been spliced back).  Returns the number of struct locals split."""
    locals_ = f['locals']
    struct_l, ref_l = {}, {}
    for l in locals_:
        base, ref = _base_ty(l['ty'])
        if base in new_structs and l['i'] != 0 and l['i'] > f['argc']:
            (ref_l if ref else struct_l)[l['i']] = base
    if not struct_l:
        return 0
    bad = set()          # locals that cannot be split
    captures = []        # (closure aggregate statement, captured-variable index, captured ref local, closure body)
    alias = {}           # ref local -> struct local (or another ref local, resolved later)
    union = {}           # struct local -> representative (moved-between groups must be split together)

    def find(x):
        while union.get(x, x) != x:
            x = union[x]
        return x

    def whole(op):
        return op.get('k') in ('move', 'copy') and not op['place']['p']

    # pass 1: classify every occurrence
    def scan_place(pl, ctx_ok=False):
        l = pl['l']
        pr = pl['p']
        if l in struct_l:
            if pr and pr[0]['k'] == 'field':
                return
            if not pr and ctx_ok:
                return
            bad.add(l)
        elif l in ref_l:
            if len(pr) >= 2 and pr[0]['k'] == 'deref' and pr[1]['k'] == 'field':
                return
            if not pr and ctx_ok:
                return
            bad.add(l)

    def scan_generic(x):
        if isinstance(x, dict):
            if 'l' in x and 'p' in x and isinstance(x['p'], list):
                scan_place(x)
                for e in x['p']:
                    if e['k'] == 'index' and (e['l'] in struct_l or e['l'] in ref_l):
                        bad.add(e['l'])
                return
            for v in x.values():
                scan_generic(v)
        elif isinstance(x, list):
            for v in x:
                scan_generic(v)

    for b in f['blocks']:
        for s in b['stmts']:
            if s['k'] in ('live', 'dead'):
                continue
            if s['k'] != 'assign':
                scan_generic(s)
                continue
            pl, rv = s['place'], s['rv']
            dl = pl['l'] if not pl['p'] else None
            if dl in struct_l:
                if rv['k'] == 'aggregate' and rv['kind'].get('a') == 'adt' and rv['kind'].get('path') == struct_l[dl]:
                    for o in rv['ops']:
                        scan_generic(o)
                    continue
                if rv['k'] == 'use' and whole(rv['op']) and rv['op']['place']['l'] in struct_l and struct_l[rv['op']['place']['l']] == struct_l[dl]:
                    a, c = find(dl), find(rv['op']['place']['l'])
                    union[a] = c
                    continue
                bad.add(dl)
                scan_generic(rv)
                continue
            if dl in ref_l:
                src = None
                if rv['k'] == 'ref' and not rv['place']['p'] and rv['place']['l'] in struct_l:
                    src = rv['place']['l']
                elif rv['k'] == 'ref' and [e['k'] for e in rv['place']['p']] == ['deref'] and rv['place']['l'] in ref_l:
                    src = rv['place']['l']
                elif rv['k'] in ('use', 'copyforderef') and (rv.get('op') or {}).get('k') in ('move', 'copy') and not rv['op']['place']['p'] and rv['op']['place']['l'] in ref_l:
                    src = rv['op']['place']['l']
                if src is None or (dl in alias and alias[dl] != src):
                    bad.add(dl)
                    scan_generic(rv)
                else:
                    alias[dl] = src
                continue
            scan_place(pl)
            if rv['k'] == 'aggregate' and rv['kind'].get('a') == 'closure' and fns is not None:
                # a closure that captures a reference to the bundle and uses it only through aliases and field accesses (its own calls
                # of new helper methods have been spliced in): the capture becomes one captured reference per field
                cb = fns.get(rv['kind'].get('path'))
                for j_, o in enumerate(rv['ops']):
                    if o.get('k') in ('move', 'copy') and not o['place']['p'] and o['place']['l'] in ref_l and cb is not None \
                            and _closure_upvar_analysis(cb, j_, ref_l[o['place']['l']]) is not None:
                        captures.append((s, j_, o['place']['l'], cb))
                    else:
                        scan_generic(o)
                continue
            scan_generic(rv)
        t = b['term']
        if t['k'] == 'drop' and not t['place']['p'] and t['place']['l'] in struct_l:
            continue
        scan_generic(t)

    # resolve aliases; a reference alias that is bad poisons the struct it points to, and a bad struct poisons its group
    def resolve(r, depth=0):
        x = alias.get(r)
        while x in ref_l and depth < 10:
            if x in bad:
                return None
            x = alias.get(x)
            depth += 1
        return x if x in struct_l else None

    changed = True
    while changed:
        changed = False
        for r in ref_l:
            tgt = resolve(r)
            if r in bad:
                x = alias.get(r)
                while x is not None and x not in bad:
                    bad.add(x)
                    changed = True
                    x = alias.get(x)
            elif tgt is None and r in alias:
                bad.add(r)
                changed = True
        groups = {}
        for sl in struct_l:
            groups.setdefault(find(sl), []).append(sl)
        for g in groups.values():
            if any(x in bad for x in g) and not all(x in bad for x in g):
                bad.update(g)
                changed = True
        for r in ref_l:
            tgt = resolve(r)
            if tgt is not None and tgt in bad and r not in bad:
                bad.add(r)
                changed = True
    good = [sl for sl in struct_l if sl not in bad]
    if not good:
        return 0
    good = set(good)
    good_refs = {r: resolve(r) for r in ref_l if r not in bad and resolve(r) in good}
    # a reference that is used but whose target is not split must stay: then its target cannot be split either (already handled via bad)
    # new locals
    fl = {}
    for sl in sorted(good):
        adt = new_structs[struct_l[sl]]
        for i, fd in enumerate(adt['variants'][0]['fields']):
            n = len(locals_)
            nm = locals_[sl].get('name')
            loc = {'i': n, 'ty': fd['ty'], 'mut': True, 'line': locals_[sl].get('line', 0)}
            if nm:
                loc['name'] = '%s.%s' % (nm, fd['name'])
            locals_.append(loc)
            fl[(sl, i)] = n

    def fix_place(pl):
        l, pr = pl['l'], pl['p']
        if l in good and pr and pr[0]['k'] == 'field':
            pl['l'] = fl[(l, pr[0]['i'])]
            pl['p'] = pr[1:]
        elif l in good_refs and len(pr) >= 2 and pr[0]['k'] == 'deref' and pr[1]['k'] == 'field':
            pl['l'] = fl[(good_refs[l], pr[1]['i'])]
            pl['p'] = pr[2:]

    def fix_generic(x):
        if isinstance(x, dict):
            if 'l' in x and 'p' in x and isinstance(x['p'], list):
                fix_place(x)
                return
            for v in x.values():
                fix_generic(v)
        elif isinstance(x, list):
            for v in x:
                fix_generic(v)

    # occurrences of each local as the base of a place: a temporary that is defined once (by a call or an assignment) and only
    # moved into a field of the bundle is the field itself (`let mut v = Vec::new()` written as `State { v: Vec::new(), .. }`)
    occ = {}

    def count(x):
        if isinstance(x, dict):
            if 'l' in x and 'p' in x and isinstance(x['p'], list):
                occ[x['l']] = occ.get(x['l'], 0) + 1
            elif x.get('k') in ('live', 'dead'):
                return
            for v in x.values():
                count(v)
        elif isinstance(x, list):
            for v in x:
                count(v)
    count(f['blocks'])
    defsite = {}
    for b in f['blocks']:
        for s in b['stmts']:
            if s['k'] == 'assign' and not s['place']['p']:
                defsite.setdefault(s['place']['l'], []).append(('stmt', s))
        t = b['term']
        if t['k'] == 'call' and not t['dest']['p']:
            defsite.setdefault(t['dest']['l'], []).append(('call', t))

    def retarget(op, newl):
        """if op is `move tmp` with tmp defined once and used only here, make that definition write newl; returns True if done"""
        if op.get('k') != 'move' or op['place']['p']:
            return False
        tmp = op['place']['l']
        if tmp <= f['argc'] or occ.get(tmp, 0) != 2 or len(defsite.get(tmp, [])) != 1:
            return False
        kind, node = defsite[tmp][0]
        tgt = node['place'] if kind == 'stmt' else node['dest']
        tgt['l'] = newl
        if locals_[tmp].get('name') is None and locals_[newl].get('name'):
            pass
        return True

    cap_stmts = {}
    for (st, j_, r_, cb) in captures:
        if r_ not in good_refs:
            continue
        sl = good_refs[r_]
        flds = new_structs[struct_l[sl]]['variants'][0]['fields']
        umap = _split_closure_upvar(cb, j_, len(flds), [fd['ty'] for fd in flds])
        cap_stmts.setdefault(id(st), []).append((j_, sl, len(flds), umap))

    nblocks = len(f['blocks'])
    extra = []
    for b in f['blocks']:
        out = []
        for s in b['stmts']:
            if s['k'] in ('live', 'dead'):
                if s['l'] in good or s['l'] in good_refs:
                    continue
                out.append(s)
                continue
            if s['k'] != 'assign':
                fix_generic(s)
                out.append(s)
                continue
            pl, rv = s['place'], s['rv']
            dl = pl['l'] if not pl['p'] else None
            if dl in good:
                nf = len(new_structs[struct_l[dl]]['variants'][0]['fields'])
                if rv['k'] == 'aggregate':
                    for i, o in enumerate(rv['ops']):
                        fix_generic(o)
                        if retarget(o, fl[(dl, i)]):
                            continue
                        out.append({'k': 'assign', 'place': {'l': fl[(dl, i)], 'p': [], 'ty': locals_[fl[(dl, i)]]['ty']}, 'rv': {'k': 'use', 'op': o}, 'line': s.get('line', 0)})
                else:
                    src = rv['op']['place']['l']
                    for i in range(nf):
                        out.append({'k': 'assign', 'place': {'l': fl[(dl, i)], 'p': [], 'ty': locals_[fl[(dl, i)]]['ty']},
                                    'rv': {'k': 'use', 'op': {'k': rv['op']['k'], 'place': {'l': fl[(src, i)], 'p': [], 'ty': locals_[fl[(src, i)]]['ty']}}}, 'line': s.get('line', 0)})
                continue
            if dl in good_refs:
                continue
            if id(s) in cap_stmts:
                for (j_, sl, nf, umap) in cap_stmts[id(s)]:
                    ops = s['rv']['ops']
                    need = max(umap.values()) + 1
                    while len(ops) < need:
                        ops.append(None)
                    for i in range(nf):
                        n = len(locals_)
                        fty = locals_[fl[(sl, i)]]['ty']
                        locals_.append({'i': n, 'ty': '&mut ' + fty, 'mut': True, 'line': s.get('line', 0)})
                        out.append({'k': 'assign', 'place': {'l': n, 'p': [], 'ty': '&mut ' + fty},
                                    'rv': {'k': 'ref', 'mut': True, 'place': {'l': fl[(sl, i)], 'p': [], 'ty': fty}}, 'line': s.get('line', 0)})
                        ops[umap[i]] = {'k': 'move', 'place': {'l': n, 'p': [], 'ty': '&mut ' + fty}}
            fix_generic(s)
            out.append(s)
        b['stmts'] = out
        t = b['term']
        if t['k'] == 'drop' and not t['place']['p'] and t['place']['l'] in good:
            sl = t['place']['l']
            nf = len(new_structs[struct_l[sl]]['variants'][0]['fields'])
            tgt = t['target']
            # drop the fields one after the other
            chain = []
            for i in range(nf):
                chain.append({'k': 'drop', 'place': {'l': fl[(sl, i)], 'p': [], 'ty': locals_[fl[(sl, i)]]['ty']}, 'needs_drop': t.get('needs_drop', True),
                              'span': t.get('span'), 'unwind': t.get('unwind', 'Continue'), 'target': None})
            cur = b
            for i, d in enumerate(chain):
                if i == 0:
                    cur['term'] = d
                else:
                    nb = {'i': nblocks + len(extra), 'cleanup': b['cleanup'], 'stmts': [], 'term': d}
                    cur['term']['target'] = nb['i']
                    extra.append(nb)
                    cur = nb
            cur['term']['target'] = tgt
        else:
            fix_generic(t)
    f['blocks'].extend(extra)
    f.setdefault('split', []).extend(sorted(good))
    return len(good)


# ---- variant threading ---------------------------------------------------------------------------------------------------

VARIANT_VAL = {('std::result::Result', 'Ok'): 0, ('std::result::Result', 'Err'): 1, ('std::option::Option', 'None'): 0, ('std::option::Option', 'Some'): 1,
               ('std::ops::ControlFlow', 'Continue'): 0, ('std::ops::ControlFlow', 'Break'): 1}


def _plain(op):
    return op.get('k') in ('move', 'copy') and not op['place']['p']


def thread_variants(f):
    """node splitting over (block, fact) with fact = (local, discriminant value) known for a spliced return place or a value
    moved / converted (`Try::branch`) from it; a switch on the discriminant of such a local follows the one feasible arm"""
    tracked = set(f.get('ret_locals', []))
    blocks = f['blocks']
    nb = len(blocks)

    def transfer_stmt(s, fact):
        if s['k'] == 'dead' and fact and s.get('l') == fact[1]:
            return None                 # the value is gone: nothing downstream can test it
        if s['k'] != 'assign':
            return fact
        pl, rv = s['place'], s['rv']
        if pl['p']:
            if fact and pl['l'] == fact[0]:
                return None
            return fact
        l = pl['l']
        new = None
        if rv['k'] == 'aggregate' and rv['kind'].get('a') == 'adt' and l in tracked:
            v = VARIANT_VAL.get((rv['kind']['path'], rv['kind'].get('variant')))
            if v is not None:
                new = ('v', l, v)
        elif rv['k'] == 'use' and _plain(rv['op']) and fact and fact[0] == 'v' and rv['op']['place']['l'] == fact[1]:
            tracked.add(l)
            new = ('v', l, fact[2])
        elif rv['k'] == 'discr' and not rv['place']['p'] and fact and fact[0] == 'v' and rv['place']['l'] == fact[1]:
            new = ('d', l, fact[2])
        if new is not None:
            return new
        if fact and l == fact[1]:
            return None
        return fact

    def succs(bi, fact):
        b = blocks[bi]
        for s in b['stmts']:
            fact = transfer_stmt(s, fact)
        t = b['term']
        k = t['k']
        out = []
        if k == 'goto':
            out.append(('target', t['target'], fact))
        elif k == 'switch':
            d = t['discr']
            if fact and fact[0] == 'd' and _plain(d) and d['place']['l'] == fact[1]:
                hit = [tg for v, tg in t['arms'] if str(v) == str(fact[2])]
                out.append(('only', hit[0] if hit else t['otherwise'], None))
            else:
                for i, (v, tg) in enumerate(t['arms']):
                    out.append((('arm', i), tg, fact))
                out.append(('otherwise', t['otherwise'], fact))
        elif k == 'call':
            nf = fact
            dl = t['dest']['l'] if not t['dest']['p'] else None
            decl = t['func'].get('def', '') if 'indirect' not in t['func'] else ''
            if decl.endswith('Try::branch') and t['args'] and _plain(t['args'][0]) and fact and fact[0] == 'v' and t['args'][0]['place']['l'] == fact[1] and dl is not None:
                tracked.add(dl)
                nf = ('v', dl, fact[2])          # Ok / Some -> Continue (0), Err / None -> Break (1) -- same numbering by construction
                if t['args'][0]['place']['ty'].startswith('std::option::Option'):
                    nf = ('v', dl, 1 - fact[2])   # Option: None = 0 -> Break (1), Some = 1 -> Continue (0)
            elif decl.endswith('from_residual') and dl is not None and dl in tracked:
                # the failure variant of the destination type: Err (1) for Result, None (0) for Option
                nf = ('v', dl, 0 if t['dest'].get('ty', '').startswith('std::option::Option') else 1)
            elif fact and dl == fact[1]:
                nf = None
            elif fact and fact[0] == 'v' and any(_plain(a) and a.get('k') == 'move' and a['place']['l'] == fact[1] for a in t['args']):
                nf = None               # consumed by another call (`opt.ok_or(..)`): the local holds nothing any more
            if t.get('target') is not None:
                out.append(('target', t['target'], nf))
        elif k in ('drop', 'assert'):
            if t.get('target') is not None:
                out.append(('target', t['target'], fact))
        # unwind edges: followed without facts
        u = t.get('unwind')
        if isinstance(u, str):
            m = re.search(r'bb(\d+)', u)
            if m:
                out.append(('unwind', int(m.group(1)), None))
        return out

    # explore product states
    state_id = {}
    order = []
    work = [(0, None)]
    edges = {}
    while work and len(order) < MAX_BLOCKS:
        st = work.pop()
        if st in state_id:
            continue
        state_id[st] = None
        order.append(st)
        es = succs(st[0], st[1])
        edges[st] = es
        for (_, tg, nf) in es:
            if (tg, nf) not in state_id:
                work.append((tg, nf))
    if len(order) >= MAX_BLOCKS:
        return
    # blocks not reached from the entry (cleanup-only chains already covered by unwind edges) are dropped; ids: a block keeps its
    # number for its first state
    used = set()
    nxt = nb
    for st in order:
        if st[0] not in used:
            state_id[st] = st[0]
            used.add(st[0])
        else:
            state_id[st] = nxt
            nxt += 1
    if nxt == nb:
        # no block was split: still cut infeasible switch edges
        pass
    newblocks = {}
    for st in order:
        b = copy.deepcopy(blocks[st[0]])
        b['i'] = state_id[st]
        # the function's own result taken from a spliced return place whose variant is known on this path: say so, so that the
        # exit is classified as the success / error exit it is
        run = st[1]
        for s_ in b['stmts']:
            if s_['k'] == 'assign' and s_['place']['l'] == 0 and not s_['place']['p'] and s_['rv']['k'] == 'use' and _plain(s_['rv']['op']) \
                    and run and run[0] == 'v' and s_['rv']['op']['place']['l'] == run[1]:
                s_['known_variant'] = run[2]
            run = transfer_stmt(s_, run)
        t = b['term']
        es = edges[st]
        tgt = {e[0]: state_id[(e[1], e[2])] for e in es}
        if 'only' in tgt:
            b['term'] = {'k': 'goto', 'target': tgt['only']}
        else:
            if t['k'] == 'switch':
                t['arms'] = [[v, tgt[('arm', i)]] for i, (v, _) in enumerate(t['arms'])]
                t['otherwise'] = tgt['otherwise']
            elif 'target' in tgt:
                t['target'] = tgt['target']
            if 'unwind' in tgt and isinstance(t.get('unwind'), str):
                t['unwind'] = re.sub(r'bb\d+', 'bb%d' % tgt['unwind'], t['unwind'])
        newblocks[b['i']] = b
    # keep list position == block number; unreachable originals become empty unreachable blocks
    out = []
    for i in range(nxt):
        if i in newblocks:
            out.append(newblocks[i])
        else:
            out.append({'i': i, 'cleanup': blocks[i]['cleanup'] if i < nb else False, 'stmts': [], 'term': {'k': 'unreachable'}, 'dead': True})
    f['blocks'] = out
