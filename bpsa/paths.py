"""Path-sensitive evaluation of small loop-free functions.

A value that is a `phi` of a few constants, written to / read from a buffer under correlated conditions (`if let Some(j) = index_j
{ write at `len`; len += 5 }`), has one definite value on each path.  For a function whose blocks between the entry and a target are
loop-free, the paths are enumerated and the term engine is run on a copy of the body restricted to one path (every block keeps its
number, each terminator has the single successor the path takes), which makes all reaching definitions unique: the terms are phi-free
and constants fold.  This is reaching-definitions analysis per path, not execution: nothing is run and no input is chosen.
"""
import copy
from . import terms as _terms
from .facts import Body
from .terms import Engine, TERM_IDX

MAX_PATHS = 64


def paths_to(cfg, target, avoid=()):
    """all acyclic paths entry -> target as block lists, or None when a loop lies on the way or there are too many"""
    reach = set()
    stack = [target]
    while stack:
        n = stack.pop()
        if n in reach:
            continue
        reach.add(n)
        stack.extend(cfg.pred.get(n, []))
    if cfg.entry not in reach:
        return []
    out = []
    path = [cfg.entry]
    on = {cfg.entry}

    def rec(n):
        if len(out) > MAX_PATHS:
            return False
        if n == target:
            out.append(list(path))
            return True
        for s in cfg.succ.get(n, []):
            if s not in reach or s in avoid:
                continue
            if s in on:
                return False        # a cycle on the way to the target
            on.add(s)
            path.append(s)
            ok = rec(s)
            path.pop()
            on.discard(s)
            if not ok:
                return False
        return True

    if not rec(cfg.entry) or len(out) > MAX_PATHS:
        return None
    return out


class PathView(object):
    """the body restricted to one path, with its own engine"""

    def __init__(self, facts, body, path):
        self.orig = body
        self.path = path
        nxt = {a: b for a, b in zip(path, path[1:])}
        j = dict(body.j)
        blocks = []
        self.taken = []          # (block, switch arm value or 'otherwise') along the path
        for i in path:
            b = dict(body.block[i])
            t = b['term']
            if i in nxt:
                if t['k'] == 'switch':
                    vals = [str(v) for v, tgt in t['arms'] if tgt == nxt[i]]
                    self.taken.append((i, vals[0] if vals else 'otherwise'))
                    b['term'] = {'k': 'goto', 'target': nxt[i], 'span': t.get('span')}
                elif t['k'] in ('call', 'drop', 'assert') and t.get('target') != nxt[i]:
                    t = dict(t)
                    t['target'] = nxt[i]
                    b['term'] = t
            else:
                # the target block: keep its terminator, but nothing follows
                if t['k'] == 'call':
                    t = dict(t)
                    t['target'] = -1
                    b['term'] = t
                elif t['k'] == 'switch':
                    b['term'] = {'k': 'return', 'span': t.get('span')}
            blocks.append(b)
        j['blocks'] = blocks
        self.body = Body(j)
        prev = _terms.CURRENT
        self.eng = Engine(facts)
        _terms.CURRENT = prev
        self.eng._idx[self.body.key] = _terms.BodyIndex(self.body, self.eng)

    def _with(self, fn):
        prev = _terms.CURRENT
        _terms.CURRENT = self.eng
        try:
            return fn()
        finally:
            _terms.CURRENT = prev

    def args(self, bb):
        t = self.body.block[bb]['term']
        return self._with(lambda: [self.eng.operand(self.body, bb, TERM_IDX, a) for a in t['args']])

    def operand(self, bb, op):
        return self._with(lambda: self.eng.operand(self.body, bb, TERM_IDX, op))


def views(facts, eng, body, target):
    """[PathView] for every acyclic path to the target block, or None when not applicable"""
    cfg = eng.bx(body).cfg
    # error exits cannot lie on a path to the target; blocks from which the target is unreachable are never entered by paths_to
    ps = paths_to(cfg, target)
    if ps is None:
        return None
    return [PathView(facts, body, p) for p in ps]
