"""Normal-edge CFG facts: successors, dominators, post-dominators, natural loops, reject regions."""
import collections
from .facts import callee_name


def const_switch_value(block):
    """the value of a switch operand that is a compile-time constant (`if cfg!(debug_assertions) { .. }`), else None"""
    t = block['term']
    if t['k'] != 'switch':
        return None
    d = t['discr']
    c = None
    if d.get('k') == 'const' and ('int' in d or 'bool' in d):
        c = int(d['bool']) if 'bool' in d else int(d['int'])
    elif d.get('k') in ('move', 'copy') and not d['place']['p']:
        for s_ in reversed(block['stmts']):
            if s_['k'] == 'assign' and not s_['place']['p'] and s_['place']['l'] == d['place']['l']:
                o = s_['rv'].get('op') if s_['rv']['k'] == 'use' else None
                if o is not None and o.get('k') == 'const' and ('int' in o or 'bool' in o):
                    c = int(o['bool']) if 'bool' in o else int(o['int'])
                break
    return c


def normal_succs(block):
    t = block['term']
    k = t['k']
    if k == 'goto':
        return [t['target']]
    if k == 'switch':
        # a switch on a compile-time constant has one feasible arm
        c = const_switch_value(block)
        if c is not None:
            hit = [tgt for v, tgt in t['arms'] if str(v) == str(c)]
            return [hit[0] if hit else t['otherwise']]
        out = []
        for _, tgt in t['arms']:
            if tgt not in out:
                out.append(tgt)
        if t['otherwise'] not in out:
            out.append(t['otherwise'])
        return out
    if k == 'call':
        return [t['target']] if t['target'] >= 0 else []
    if k in ('drop', 'assert'):
        return [t['target']]
    return []


class CFG:
    def __init__(self, body):
        self.body = body
        self.blocks = {b['i']: b for b in body.blocks}
        self.succ = {i: [s for s in normal_succs(b)] for i, b in self.blocks.items() if not b['cleanup']}
        self.pred = collections.defaultdict(list)
        for i, ss in self.succ.items():
            for s in ss:
                self.pred[s].append(i)
        self.entry = 0
        self.rpo = self._rpo()
        self.reach_set = set(self.rpo)
        self._reach_cache = {}
        self.unreachable_blocks = {i for i, b in self.blocks.items() if b['term']['k'] == 'unreachable'}
        self.returns = [i for i in self.rpo if self.blocks[i]['term']['k'] == 'return']
        self.idom = self._dominators(self.entry, self.succ, self.pred, self.rpo)
        self._dom_cache = {}
        self._compute_pdom()
        self._loops()
        # second pass: an order in which everything inside a loop precedes what follows the loop (a DFS that takes the exit edges of
        # a loop first finishes the exits first, so they come later in reverse post-order) -- whichever way the exit test is written
        # (`while c {..}` or `loop { if !c { break } .. }`)
        if self.loops:
            first = list(self.rpo)
            self.rpo = self._rpo(prefer_exits=True)
            if set(self.rpo) != set(first):
                self.rpo = first

    # ---- orderings -------------------------------------------------------------------------
    def _rpo(self, prefer_exits=False):
        def succs(n):
            ss = list(self.succ.get(n, []))
            if prefer_exits:
                hs = self.loop_of.get(n, [])
                if hs:
                    inner = self.loops[hs[-1]]
                    # edges leaving the innermost loop of n first (stable otherwise)
                    ss = [x for x in ss if x not in inner] + [x for x in ss if x in inner]
            return ss
        seen, order = set(), []
        stack = [(self.entry, iter(succs(self.entry)))]
        seen.add(self.entry)
        while stack:
            n, it = stack[-1]
            adv = False
            for s in it:
                if s not in seen and s in self.succ:
                    seen.add(s)
                    stack.append((s, iter(succs(s))))
                    adv = True
                    break
            if not adv:
                order.append(n)
                stack.pop()
        order.reverse()
        return order

    @staticmethod
    def _dominators(entry, succ, pred, rpo):
        idx = {n: i for i, n in enumerate(rpo)}
        idom = {entry: entry}
        changed = True
        while changed:
            changed = False
            for n in rpo:
                if n == entry:
                    continue
                ps = [p for p in pred.get(n, []) if p in idom]
                if not ps:
                    continue
                new = ps[0]
                for p in ps[1:]:
                    a, b = p, new
                    while a != b:
                        while idx[a] > idx[b]:
                            a = idom[a]
                        while idx[b] > idx[a]:
                            b = idom[b]
                    new = a
                if idom.get(n) != new:
                    idom[n] = new
                    changed = True
        return idom

    def dominates(self, a, b):
        """a dominates b (reflexive)."""
        if b not in self.idom:
            return False
        n = b
        while True:
            if n == a:
                return True
            p = self.idom[n]
            if p == n:
                return False
            n = p

    def _compute_pdom(self):
        # virtual exit joining every block without normal successors (return / unreachable / diverging call)
        EXIT = -1
        rsucc = collections.defaultdict(list)   # reversed graph: succ in reverse = preds
        rpred = collections.defaultdict(list)
        nodes = list(self.rpo)
        for n in nodes:
            ss = [s for s in self.succ.get(n, []) if s in self.succ]
            if not ss:
                rsucc[EXIT].append(n)
                rpred[n].append(EXIT)
            for s in ss:
                rsucc[s].append(n)
                rpred[n].append(s)
        # rpo on reversed graph
        seen, order = {EXIT}, []
        stack = [(EXIT, iter(rsucc[EXIT]))]
        while stack:
            n, it = stack[-1]
            adv = False
            for s in it:
                if s not in seen:
                    seen.add(s)
                    stack.append((s, iter(rsucc[s])))
                    adv = True
                    break
            if not adv:
                order.append(n)
                stack.pop()
        order.reverse()
        self.ipdom = self._dominators(EXIT, rsucc, rpred, order)

    def postdominates(self, a, b):
        """a post-dominates b (reflexive), w.r.t. the virtual exit."""
        if b not in self.ipdom:
            return False
        n = b
        while True:
            if n == a:
                return True
            p = self.ipdom[n]
            if p == n:
                return False
            n = p

    # ---- loops -----------------------------------------------------------------------------
    def _loops(self):
        self.loops = {}          # header -> set(body blocks)
        for n in self.rpo:
            for s in self.succ.get(n, []):
                if self.dominates(s, n):   # back edge n -> s
                    body = self.loops.setdefault(s, {s})
                    work = [n]
                    while work:
                        x = work.pop()
                        if x in body:
                            continue
                        body.add(x)
                        work.extend(self.pred.get(x, []))
        self.loop_of = collections.defaultdict(list)   # block -> [headers], innermost last
        for h, body in sorted(self.loops.items(), key=lambda kv: -len(kv[1])):
            for b in body:
                self.loop_of[b].append(h)

    def in_loop(self, b):
        return bool(self.loop_of.get(b))

    # ---- reachability ----------------------------------------------------------------------
    def reach_from(self, a):
        """set of blocks reachable from a by at least one normal edge"""
        r = self._reach_cache.get(a)
        if r is None:
            seen = set()
            work = list(self.succ.get(a, []))
            while work:
                x = work.pop()
                if x in seen:
                    continue
                seen.add(x)
                work.extend(self.succ.get(x, []))
            r = self._reach_cache[a] = frozenset(seen)
        return r

    def reaches(self, a, b, avoid=frozenset()):
        """is there a normal path a ->+ b (at least one edge) avoiding `avoid` blocks"""
        if not avoid:
            return b in self.reach_from(a)
        seen = set()
        work = list(self.succ.get(a, []))
        while work:
            x = work.pop()
            if x in seen or x in avoid:
                continue
            seen.add(x)
            if x == b:
                return True
            work.extend(self.succ.get(x, []))
        return False

    # ---- result classification ------------------------------------------------------------
    def result_kind_sites(self):
        """blocks that assign the return place with a recognisable Ok / Err constructor"""
        kinds = {}
        for i in self.rpo:
            b = self.blocks[i]
            for s in b['stmts']:
                if s['k'] == 'assign' and s['place']['l'] == 0 and not s['place']['p']:
                    rv = s['rv']
                    if rv['k'] == 'aggregate' and rv['kind'].get('a') == 'adt' and rv['kind']['path'].endswith('::Result'):
                        kinds[i] = 'ok' if rv['kind']['variant'] == 'Ok' else 'err'
                    elif rv['k'] == 'aggregate' and rv['kind'].get('a') == 'adt' and rv['kind']['path'].endswith('::Option'):
                        kinds[i] = 'some' if rv['kind']['variant'] == 'Some' else 'none'
                    elif 'known_variant' in s:
                        # spliced helper result whose variant is known on this path (bpsa/inline.py)
                        ty0 = self.body.locals[0]['ty']
                        if ty0.startswith('std::option::Option'):
                            kinds[i] = 'some' if s['known_variant'] == 1 else 'none'
                        else:
                            kinds[i] = 'ok' if s['known_variant'] == 0 else 'err'
                    else:
                        kinds.setdefault(i, 'value')
            t = b['term']
            if t['k'] == 'call' and t['dest']['l'] == 0 and not t['dest']['p']:
                kinds[i] = 'err' if 'FromResidual' in callee_name(t) or 'from_residual' in callee_name(t) else 'callret'
        return kinds

    def outcome_sets(self):
        """for every block: set of result kinds reachable on normal paths (fixpoint, loops handled)"""
        kinds = self.result_kind_sites()
        out = {i: set() for i in self.rpo}
        for i, k in kinds.items():
            out[i] = {k}
        changed = True
        while changed:
            changed = False
            for i in reversed(self.rpo):
                if i in kinds:
                    continue
                acc = set()
                for s in self.succ.get(i, []):
                    acc |= out.get(s, set())
                if self.blocks[i]['term']['k'] == 'return' and not acc:
                    acc = {'ret'}
                if acc != out[i]:
                    out[i] = acc
                    changed = True
        return out

    def guards(self, reject=('err',)):
        """guard edges: (block, [(arm value, target)], discr operand) where the listed arms lead only to `reject`
        outcomes while the block itself can still reach another outcome"""
        out = self.outcome_sets()
        rej = set(reject)
        res = []
        for i in self.rpo:
            t = self.blocks[i]['term']
            if t['k'] != 'switch':
                continue
            if not out[i] or out[i] <= rej:
                continue
            edges = [(v, tgt) for v, tgt in t['arms']] + [('otherwise', t['otherwise'])]
            bad = [(v, tgt) for v, tgt in edges if out.get(tgt) and out[tgt] <= rej]
            if bad and len(bad) < len(edges):
                res.append((i, bad, t['discr'], t['span']))
        return res
