"""Structured trace of dependency-boundary events reachable from an entry point.

Every call to a listed boundary function is emitted as an Event in program order (reverse post-order, which respects
dominance), with crate-local callees and closure bodies spliced in at their call / creation site (parameters and captured
variables substituted), and with
  loops : tuple of enclosing loop ids ('L', bodykey, header) / ('C', closure path)  -> Kleene star nesting
  must  : the event executes on every accepted pass through its innermost loop iteration / function
Blocks from which only an error result is reachable are pruned (they end the trace).
"""
from .facts import callee_name, callee_decl
from .terms import T, TERM_IDX, walk, short, fmt

BOUNDARY = {
    'merlin::Transcript::append_message': 'append',
    'merlin::Transcript::append_u64': 'append_u64',
    'merlin::Transcript::challenge_bytes': 'challenge',
    'merlin::Transcript::build_rng': 'build_rng',
    'merlin::Transcript::new': 'transcript_new',
    'merlin::TranscriptRngBuilder::rekey_with_witness_bytes': 'rekey',
    'merlin::TranscriptRngBuilder::finalize': 'finalize',
    'merlin::Transcript::clone': 'transcript_clone',
    'curve25519_dalek::Scalar::random': 'draw',
    'rand_core::RngCore::next_u64': 'draw',
    'rand_core::RngCore::next_u32': 'draw',
    'rand_core::RngCore::fill_bytes': 'draw',
    'rand_core::RngCore::try_fill_bytes': 'draw',
    'ff::Field::random': 'draw',
}


def boundary_decl(t):
    """the declared callee of a call, with `Clone::clone` of a merlin transcript (a trait method whose declaration does not name the
    type) spelled as the boundary function it is"""
    d = callee_decl(t)
    if d == 'std::clone::Clone::clone' and t.get('args') and t['args'][0].get('k') in ('copy', 'move'):
        ty = t['args'][0]['place'].get('ty', '')
        while ty.startswith('&'):
            ty = ty[1:].lstrip()
            if ty.startswith('mut '):
                ty = ty[4:]
            if ty.startswith("'"):
                ty = ty.split(' ', 1)[1] if ' ' in ty else ty
        if ty == 'merlin::Transcript':
            return 'merlin::Transcript::clone'
    return d


class Event(object):
    __slots__ = ('kind', 'args', 'site', 'loops', 'must', 'body', 'bb', 'result', 'conds')

    def __init__(self, kind, args, site, loops, must, body, bb, result=None, conds=()):
        self.kind = kind
        self.args = args
        self.site = site
        self.loops = loops
        self.must = must
        self.body = body
        self.bb = bb
        self.result = result
        self.conds = conds

    def label(self):
        """constant label bytes of append / challenge events (None if not a constant)"""
        if self.kind in ('append', 'append_u64', 'challenge', 'transcript_new', 'rekey'):
            i = 0 if self.kind == 'transcript_new' else 1
            if i < len(self.args):
                a = strip(self.args[i])
                if a.tag == 'const' and isinstance(a[1], (bytes, str)):
                    return a[1] if isinstance(a[1], bytes) else a[1].encode()
        return None

    def receiver(self):
        return strip(self.args[0]) if self.args and self.kind != 'transcript_new' else None

    def data(self):
        if self.kind in ('append', 'append_u64', 'rekey'):
            return self.args[2] if len(self.args) > 2 else None
        return None

    def depth(self):
        return ''.join(l[0] for l in self.loops)

    def __repr__(self):
        lab = self.label()
        return '<%s%s %s%s %s>' % ('*' * len(self.loops), '' if self.must else '?', self.kind, ' ' + repr(lab) if lab is not None else '',
                                   short(self.data(), 90) if self.data() is not None else '')


def strip(t):
    while t.tag == 'mut':
        t = t[1]
    return t


class Tracer(object):
    def __init__(self, ctx):
        self.ctx = ctx
        self.eng = ctx.eng
        self.facts = ctx.facts
        self._has = {}
        self._stack = []

    # does a body (transitively) contain boundary events?
    def has_events(self, body):
        k = body.key
        if k in self._has:
            return self._has[k]
        self._has[k] = False
        res = False
        for bb, t in body.calls():
            if body.block[bb]['cleanup']:
                continue
            if boundary_decl(t) in BOUNDARY:
                res = True
                break
            n = callee_name(t)
            if n in self.facts.fn and self.has_events(self.facts.fn[n]):
                res = True
                break
        if not res:
            for c in self.facts.closures_of(body):
                if c.parent == body.path and self.has_events(c):
                    res = True
                    break
        self._has[k] = res
        return res

    def must_block(self, body, bb):
        """bb executes on every accepted pass through its innermost loop iteration (or the function)"""
        ctx = self.ctx
        cfg = ctx.cfgof(body)
        hs = cfg.loop_of.get(bb, [])
        if not hs:
            if bb == 0:
                return True
            return ctx.must_reach(body, [0], bb, None)
        h = hs[-1]
        lp = ctx.loops(body).get(h)
        if lp is not None and lp.driver_bb is not None and getattr(lp, 'driver_switch', None) is not None:
            sw = lp.driver_switch
            starts = [s for s in cfg.succ.get(sw, []) if s in lp.blocks and body.block[s]['term']['k'] != 'unreachable']
            if bb == sw or cfg.dominates(bb, sw) and bb in lp.blocks:
                return True      # header part executed on every iteration
            return ctx.must_reach(body, starts, bb, h)
        return ctx.must_reach(body, [s for s in cfg.succ.get(h, []) if s in cfg.loops[h]], bb, h) if bb != h else True

    def trace(self, body, env=None, site=(), loops=(), must=True, depth=0):
        """events of `body` with `env` (param/upvar substitution) applied, in program order"""
        if body.key in self._stack or depth > 12:
            return []
        self._stack.append(body.key)
        try:
            return self._trace(body, env or {}, site, loops, must, depth)
        finally:
            self._stack.pop()

    APPLIERS = ('std::iter::Iterator::map', 'std::iter::Iterator::for_each', 'std::iter::Iterator::flat_map', 'std::iter::Iterator::filter_map',
                'std::iter::Iterator::any', 'std::iter::Iterator::all', 'std::iter::Iterator::try_for_each', 'std::iter::Iterator::filter',
                'std::iter::Iterator::inspect')

    def _applied_to(self, body, bb, cl):
        """iterator term the closure local `cl` (created in block bb) is applied to by an adapter call, if any"""
        cfg = self.ctx.cfgof(body)
        seen, work = set(), [bb]
        while work:
            x = work.pop()
            if x in seen or len(seen) > 12:
                continue
            seen.add(x)
            t = body.block[x]['term']
            if t['k'] == 'call':
                args = t['args']
                for i, a in enumerate(args):
                    if a['k'] in ('move', 'copy') and a['place']['l'] == cl and not a['place']['p']:
                        if callee_decl(t) in self.APPLIERS and i == 1:
                            return self.eng.operand(body, x, TERM_IDX, args[0])
                        return None
            work.extend(cfg.succ.get(x, []))
        return None

    def _sub(self, t, env, site):
        if not env and not site:
            return t
        return self.eng.subst(t, env, site)

    def _trace(self, body, env, site, loops, must, depth):
        ctx = self.ctx
        cfg = ctx.cfgof(body)
        out = []
        for bb in cfg.rpo:
            blk = body.block[bb]
            if blk['cleanup'] or ctx.rejecting(body, bb):
                continue
            here_loops = loops + tuple(('L', body.key, h) for h in cfg.loop_of.get(bb, []))
            bmust = None

            def is_must():
                nonlocal bmust
                if bmust is None:
                    bmust = self.must_block(body, bb)
                return bmust
            # closures created in this block
            for idx, st in enumerate(blk['stmts']):
                if st['k'] == 'assign' and st['rv']['k'] == 'aggregate' and st['rv']['kind'].get('a') == 'closure':
                    cpath = st['rv']['kind']['path']
                    cb = self.facts.fn.get(cpath)
                    if cb is None or not self.has_events(cb):
                        continue
                    cenv = {}
                    for j, o in enumerate(st['rv']['ops']):
                        cenv[('upvar', cb.key, j)] = self._sub(self.eng.operand(body, bb, idx, o), env, site)
                    # closure parameter: the element of the iterator the closure is mapped over, when that is visible
                    cl = st['place']['l'] if not st['place']['p'] else None
                    if cl is not None:
                        for pi, pt in self.eng.applied_env(body, bb, cl).items():
                            cenv[('param', cb.key, pi)] = self._sub(pt, env, site)
                    out.extend(self.trace(cb, cenv, site + ((body.key, bb),), here_loops + (('C', cpath),), must and is_must(), depth + 1))
            t = blk['term']
            if t['k'] != 'call':
                continue
            decl = boundary_decl(t)
            name = callee_name(t)
            if decl in BOUNDARY:
                args = tuple(self._sub(a, env, site) for a in self.eng.call_args(body, bb))
                res = self._sub(T('call', decl, self.eng.call_args(body, bb), ((body.key, bb),)), env, site)
                kind = BOUNDARY[decl]
                alts = list(args[2].args) if kind in ('append', 'append_u64') and len(args) > 2 and args[2].tag == 'phi' else None
                if alts and len(alts) == 2 and any(strip(x).tag == 'const' for x in alts):
                    # `append(label, opt.unwrap_or(c))` is `match opt { Some(v) => append(label, v), None => append(label, c) }`:
                    # one alternative event per value
                    for x in alts:
                        out.append(Event(kind, args[:2] + (x,) + args[3:], site + ((body.key, bb),), here_loops, False, body, bb, res, conds=('alt',)))
                else:
                    out.append(Event(kind, args, site + ((body.key, bb),), here_loops, must and is_must(), body, bb, res))
            elif name in self.facts.fn and self.has_events(self.facts.fn[name]):
                callee = self.facts.fn[name]
                cenv = {}
                for i, a in enumerate(self.eng.call_args(body, bb)):
                    cenv[('param', callee.key, i + 1)] = self._sub(a, env, site)
                out.extend(self.trace(callee, cenv, site + ((body.key, bb),), here_loops, must and is_must(), depth + 1))
        return self._unroll_literal_loops(body, env, site, out)

    def _unroll_literal_loops(self, body, env, site, out):
        """a loop over a literal array of k items (`for (label, point) in &[(b"L", l), (b"R", r)] { append(label, point) }`) is the
        k-fold repetition of its body, item by item: its events are replaced by one copy per item with the element substituted, and no
        longer count as being inside a loop"""
        ctx = self.ctx
        for h, lp in sorted(ctx.loops(body).items()):
            marker = ('L', body.key, h)
            idxs = [i for i, e in enumerate(out) if marker in e.loops]
            if not idxs or lp.iter_term is None:
                continue
            it = self._sub(lp.iter_term, env, site)
            base = it
            while base.tag in ('mut', 'adapt', 'via'):
                if base.tag == 'mut':
                    base = base[1]
                elif base.tag == 'adapt' and base[1] in ('iter', 'into_iter', 'by_ref', 'iter_mut', 'copied', 'cloned') and len(base.args) >= 3:
                    base = base[2]
                else:
                    break
            if base.tag != 'array' or not base.args or len(base.args) > 8 or not lp.driver_only_exit:
                continue
            if idxs != list(range(idxs[0], idxs[-1] + 1)):
                continue            # not one contiguous run
            from .terms import mk_elem
            els = [mk_elem(self.eng, it), T('elem', base), T('elem', it)]
            run = out[idxs[0]:idxs[-1] + 1]
            new = []
            for item in base.args:
                for e in run:
                    args = e.args
                    for el in els:
                        args = tuple(self.eng.subst_term(a, el, item) for a in args)
                    loops2 = tuple(x for x in e.loops if x != marker)
                    every = ctx.every_iteration(body, lp, e.bb) if e.body is body else e.must
                    hdr_must = self.must_block(body, lp.header) if lp.header in ctx.cfgof(body).loop_of else True
                    new.append(Event(e.kind, args, e.site, loops2, bool(every) and bool(hdr_must), e.body, e.bb, e.result, conds=e.conds))
            out = out[:idxs[0]] + new + out[idxs[-1] + 1:]
        return out


def render(events):
    return [repr(e) for e in events]
