"""Loader and indexes for the facts file written by the bpfacts driver."""
import json, collections


def callee_name(term):
    """Resolved implementation path if known, else the declared callee path."""
    f = term['func']
    if 'indirect' in f:
        return '<indirect>'
    return f['res'] or f['def']


def callee_decl(term):
    f = term['func']
    return '<indirect>' if 'indirect' in f else f['def']


def callee_is_local(term):
    f = term['func']
    if 'indirect' in f:
        return False
    return bool(f['res_local']) if f['res'] else False


class Body:
    def __init__(self, j):
        self.j = j
        self.path = j['path']
        self.label = j['label']          # 'fn' | 'promotedN' | 'const'
        self.kind = j['kind']
        self.argc = j['argc']
        self.locals = j['locals']
        self.blocks = j['blocks']
        self.upvars = j.get('upvars', [])
        self.parent = j.get('parent')
        self.impl_self = j.get('impl_self')
        self.impl_trait = j.get('impl_trait')
        self.vis = j.get('vis')
        self.sig = j.get('sig')
        self.span = j['span']
        self.key = self.path if self.label == 'fn' else '%s#%s' % (self.path, self.label)
        self.is_closure = self.kind == 'Closure'
        self.block = {b['i']: b for b in self.blocks}

    def local_name(self, l):
        return self.locals[l].get('name')

    def local_ty(self, l):
        return self.locals[l]['ty']

    def calls(self):
        for b in self.blocks:
            t = b['term']
            if t['k'] == 'call':
                yield b['i'], t

    def file(self):
        return self.span['file']

    def __repr__(self):
        return '<Body %s>' % self.key


class Facts:
    def __init__(self, path):
        self.j = json.load(open(path))
        self.bodies = [Body(f) for f in self.j['fns']]
        self.fn = {}
        self.promoted = {}
        self.consts = {}
        self.by_key = {}
        for b in self.bodies:
            self.by_key[b.key] = b
            if b.label == 'fn':
                self.fn[b.path] = b
            elif b.label.startswith('promoted'):
                self.promoted[(b.path, int(b.label[8:]))] = b
            else:
                self.consts[b.path] = b
        self.adts = {a['path']: a for a in self.j['adts']}
        self.statics = self.j['statics']
        self.impls = self.j['impls']
        self.meta = self.j.get('meta', {})
        # call-site index: callee resolved path -> [(caller body, bb, term)]
        self.callers = collections.defaultdict(list)
        self.callers_decl = collections.defaultdict(list)
        for b in self.bodies:
            if b.label != 'fn':
                continue
            for bb, t in b.calls():
                if b.block[bb]['cleanup']:
                    continue
                self.callers[callee_name(t)].append((b, bb, t))
                self.callers_decl[callee_decl(t)].append((b, bb, t))

    def fns(self):
        return [b for b in self.bodies if b.label == 'fn']

    def find_fn(self, suffix):
        return [b for p, b in self.fn.items() if p.endswith(suffix)]

    def one_fn(self, suffix):
        hits = self.find_fn(suffix)
        return hits[0] if len(hits) == 1 else None

    def closures_of(self, body):
        pre = body.path + '::{closure'
        return [b for p, b in self.fn.items() if p.startswith(pre)]

    def root_fn(self, body):
        """outermost non-closure ancestor of a (closure) body"""
        b = body
        while b is not None and b.is_closure and b.parent in self.fn:
            b = self.fn[b.parent]
        return b

    def local_callees(self, body, include_closures=True):
        """crate-local bodies called (or closures created) by this body"""
        out = []
        for bb, t in body.calls():
            if body.block[bb]['cleanup']:
                continue
            if callee_is_local(t):
                n = callee_name(t)
                if n in self.fn:
                    out.append((bb, self.fn[n]))
        if include_closures:
            for c in self.closures_of(body):
                if c.parent == body.path:
                    out.append((None, c))
        return out

    def reachable_from(self, roots):
        """crate bodies reachable through resolved local calls and closure creation"""
        seen, work = {}, list(roots)
        while work:
            b = work.pop()
            if b.key in seen:
                continue
            seen[b.key] = b
            for _, c in self.local_callees(b):
                work.append(c)
        return list(seen.values())
