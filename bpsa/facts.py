"""Loader and indexes for the facts file written by the bpfacts driver."""
import json, re, collections


def callee_name(term):
    """Resolved implementation path if known, else the declared callee path."""
    f = term['func']
    if 'indirect' in f:
        return '<indirect>'
    return f['res'] or f['def']


def callee_decl(term):
    f = term['func']
    return '<indirect>' if 'indirect' in f else f['def']


def callee_is_local(term):
    f = term['func']
    if 'indirect' in f:
        return False
    return bool(f['res_local']) if f['res'] else False


# ---- private field names are not anchors ----------------------------------------------------------------------------
# Rules refer to the fields of the crate's data types by role names (the names they have at the pinned commit).  Fields that are
# not visible outside the crate can be renamed freely by a maintainer, so their role is re-discovered on every run from the
# field's type, with declaration order as the tie-break among same-typed fields, and the facts are rewritten to the role names.
# Public fields are API and keep their names.  (type name -> [(role name, predicate on the field's type)])
def _is(*subs):
    return lambda ty: all(x in ty for x in subs)


FIELD_ROLES = {
    'CommitmentOpening': [('v', lambda ty: ty == 'u64'), ('r', _is('Vec<', 'Scalar'))],
    'ExtendedMask': [('blindings', _is('Vec<', 'Scalar'))],
    'RangeParameters': [('bp_gens', _is('BulletproofGens<')), ('pc_gens', _is('PedersenGens<'))],
    'BulletproofGens': [('g_vec', _is('Vec<std::vec::Vec<')), ('h_vec', _is('Vec<std::vec::Vec<')), ('precomp', _is('Arc<'))],
    'RangeProof': [('a', lambda ty: 'Compressed' in ty and 'Vec<' not in ty), ('a1', lambda ty: 'Compressed' in ty and 'Vec<' not in ty),
                   ('b', lambda ty: 'Compressed' in ty and 'Vec<' not in ty), ('r1', lambda ty: ty.endswith('Scalar') and 'Vec<' not in ty),
                   ('s1', lambda ty: ty.endswith('Scalar') and 'Vec<' not in ty), ('d1', _is('Vec<', 'Scalar')), ('li', _is('Vec<', 'Compressed')),
                   ('ri', _is('Vec<', 'Compressed')), ('extension_degree', _is('ExtensionDegree'))],
    'RangeProofTranscript': [('transcript', _is('merlin::Transcript')), ('bytes', _is('Option<')), ('transcript_rng', _is('TranscriptRng')),
                             ('external_rng', lambda ty: ty.startswith('&') and 'Transcript' not in ty), ('_phantom', _is('PhantomData'))],
    'GeneratorsChain': [('reader', lambda ty: 'PhantomData' not in ty), ('_phantom', _is('PhantomData'))],
    'AggregatedGensIter': [('array', _is('Vec<')), ('n', lambda ty: ty == 'usize'), ('m', lambda ty: ty == 'usize'),
                           ('party_idx', lambda ty: ty == 'usize'), ('gen_idx', lambda ty: ty == 'usize')],
}


def field_renames(adts):
    """{adt path: {actual field name: role name}} for non-public fields whose actual name differs from the role name"""
    out = {}
    for a in adts:
        roles = FIELD_ROLES.get(a['path'].split('::')[-1])
        if not roles or len(a['variants']) != 1:
            continue
        fields = [f for f in a['variants'][0]['fields'] if f.get('vis') != 'Public']
        taken, m = set(), {}
        for role, pred in roles:
            for f in fields:
                if f['name'] not in taken and pred(f['ty']):
                    taken.add(f['name'])
                    if f['name'] != role:
                        m[f['name']] = role
                    break
        # a role name still worn by a *different* field would collide: leave that type alone (rules then fail closed)
        if m and not (set(m.values()) & {f['name'] for f in a['variants'][0]['fields'] if f['name'] not in m}):
            out[a['path']] = m
    return out


def _strip_ref(ty):
    ty = ty.strip()
    while True:
        for p in ('&mut ', '&', 'std::boxed::Box<'):
            if ty.startswith(p):
                ty = ty[len(p):]
                if p.endswith('<') and ty.endswith('>'):
                    ty = ty[:-1]
                break
        else:
            return ty.strip()
        # lifetimes:  &'a T
        if ty.startswith("'"):
            ty = ty.split(' ', 1)[1] if ' ' in ty else ty


def _elem_ty(ty):
    ty = _strip_ref(ty)
    for p in ('std::vec::Vec<', 'zeroize::Zeroizing<'):
        if ty.startswith(p) and ty.endswith('>'):
            return ty[len(p):-1]
    if ty.startswith('[') and ty.endswith(']'):
        inner = ty[1:-1]
        return inner.rsplit(';', 1)[0].strip() if ';' in inner else inner
    return ty


def apply_field_renames(j, ren):
    """rewrite ADT definitions, aggregate field lists and field projections of the facts in place"""
    if not ren:
        return 0
    by_last = {}
    for path, m in ren.items():
        by_last[path] = m
    n = 0
    for a in j['adts']:
        m = ren.get(a['path'])
        if m:
            for f in a['variants'][0]['fields']:
                if f['name'] in m:
                    f['name'] = m[f['name']]
                    n += 1

    def adt_of(ty):
        base = _strip_ref(ty).split('<', 1)[0]
        return ren.get(base)

    def fix_place(p, locals_):
        nonlocal n
        cur = locals_[p['l']]['ty'] if p['l'] < len(locals_) else ''
        for e in p['p']:
            k = e['k']
            if k == 'deref':
                cur = _strip_ref(cur)
            elif k == 'field':
                m = adt_of(cur)
                if m and e.get('name') in m:
                    e['name'] = m[e['name']]
                    n += 1
                cur = e.get('ty', '')
            elif k in ('index', 'constant_index', 'subslice'):
                cur = _elem_ty(cur) if k != 'subslice' else cur
            # downcast / opaque casts keep the type

    def walk(x, locals_):
        nonlocal n
        if isinstance(x, dict):
            if 'l' in x and 'p' in x and isinstance(x['p'], list):
                fix_place(x, locals_)
            if x.get('k') == 'aggregate' and isinstance(x.get('kind'), dict) and x['kind'].get('a') == 'adt':
                m = ren.get(x['kind'].get('path'))
                if m:
                    x['kind']['fields'] = [m.get(f, f) for f in x['kind']['fields']]
                    n += 1
            for v in x.values():
                walk(v, locals_)
        elif isinstance(x, list):
            for v in x:
                walk(v, locals_)
    for f in j['fns']:
        walk(f['blocks'], f['locals'])
    return n


class Body:
    def __init__(self, j):
        self.j = j
        self.path = j['path']
        self.label = j['label']          # 'fn' | 'promotedN' | 'const'
        self.kind = j['kind']
        self.argc = j['argc']
        self.locals = j['locals']
        self.blocks = j['blocks']
        self.upvars = j.get('upvars', [])
        self.parent = j.get('parent')
        self.impl_self = j.get('impl_self')
        self.impl_trait = j.get('impl_trait')
        self.vis = j.get('vis')
        self.sig = j.get('sig')
        self.span = j['span']
        self.key = self.path if self.label == 'fn' else '%s#%s' % (self.path, self.label)
        # (a promoted constant or an inline const of a closure is a body of its own: its local 1 is not the closure environment)
        self.is_closure = self.kind == 'Closure' and self.label == 'fn'
        self.block = {b['i']: b for b in self.blocks}

    def local_name(self, l):
        return self.locals[l].get('name')

    def local_ty(self, l):
        return self.locals[l]['ty']

    def calls(self):
        for b in self.blocks:
            t = b['term']
            if t['k'] == 'call':
                yield b['i'], t

    def file(self):
        return self.span['file']

    def __repr__(self):
        return '<Body %s>' % self.key


class Facts:
    def __init__(self, path):
        txt = open(path).read()
        # an inherent impl block that lives in another module than its type is printed `module::<impl Type<G>>::method`; where the
        # block lives is not an anchor: use the spelling of the type's own module, `Type::<G>::method`
        import re
        if '::<impl ' in txt:
            local_types = {a['path'] for a in json.loads(txt)['adts']}
            txt = re.sub(r'(?<![\w:])[\w:]+::<impl ([\w:]+)(<[^<>]*>)?>::',
                         lambda m: (m.group(1) + ('::' + m.group(2) if m.group(2) else '') + '::') if m.group(1) in local_types else m.group(0), txt)
        if '::<impl ' in txt:
            # likewise a trait impl written in another module: `module::<impl Trait for Type>::m` is `<Type as Trait>::m`
            local_types = {a['path'] for a in json.loads(txt)['adts']}
            txt = re.sub(r"(?<![\w:])[\w:]+::<impl ((?:[^<>]|<[^<>]*>)+?) for ((?:[^<>]|<[^<>]*>)+?)>::",
                         lambda m: ('<%s as %s>::' % (m.group(2), m.group(1))) if m.group(2).split('<', 1)[0] in local_types else m.group(0), txt)
        # a crate type moved to another module (re-exported from its old path) is the same type: spell it as at the baseline when the
        # name identifies it there uniquely (`generators::extension_degree::ExtensionDegree` -> `generators::pedersen_gens::ExtensionDegree`)
        try:
            from . import inline as _inl
            bl = _inl.load_baseline()
            if bl and bl.get('adts'):
                cur = [a['path'] for a in json.loads(txt)['adts']]
                base_by_name = {}
                for bp in bl['adts']:
                    base_by_name.setdefault(bp.split('::')[-1], []).append(bp)
                cur_by_name = {}
                for cp in cur:
                    cur_by_name.setdefault(cp.split('::')[-1], []).append(cp)
                for cp in cur:
                    nm = cp.split('::')[-1]
                    if cp in bl['adts'] or cp.startswith('<') or len(base_by_name.get(nm, [])) != 1 or len(cur_by_name.get(nm, [])) != 1:
                        continue
                    bp = base_by_name[nm][0]
                    if bp in cur:
                        continue
                    txt = re.sub(r'(?<![\w:])%s(?![\w])' % re.escape(cp), bp.replace('\\', '\\\\'), txt)
        except Exception:
            pass
        self.j = json.loads(txt)
        self.field_renames = field_renames(self.j['adts'])
        self.fields_renamed = apply_field_renames(self.j, self.field_renames)
        from . import inline
        self.inlined = inline.inline_new_helpers(self.j)
        self.bodies = [Body(f) for f in self.j['fns']]
        self.fn = {}
        self.promoted = {}
        self.consts = {}
        self.by_key = {}
        for b in self.bodies:
            self.by_key[b.key] = b
            if b.label == 'fn':
                self.fn[b.path] = b
            elif b.label.startswith('promoted'):
                self.promoted[(b.path, int(b.label[8:]))] = b
            else:
                self.consts[b.path] = b
        self.adts = {a['path']: a for a in self.j['adts']}
        self.statics = self.j['statics']
        self.impls = self.j['impls']
        self.meta = self.j.get('meta', {})
        # call-site index: callee resolved path -> [(caller body, bb, term)]
        self.callers = collections.defaultdict(list)
        self.callers_decl = collections.defaultdict(list)
        for b in self.bodies:
            if b.label != 'fn':
                continue
            for bb, t in b.calls():
                if b.block[bb]['cleanup']:
                    continue
                self.callers[callee_name(t)].append((b, bb, t))
                self.callers_decl[callee_decl(t)].append((b, bb, t))

    def fns(self):
        return [b for b in self.bodies if b.label == 'fn']

    def find_fn(self, suffix):
        return [b for p, b in self.fn.items() if p.endswith(suffix)]

    def one_fn(self, suffix):
        hits = self.find_fn(suffix)
        return hits[0] if len(hits) == 1 else None

    def closures_of(self, body):
        """closure bodies created by this body (and, transitively, by those closures): found from the closure aggregates in the
        blocks, so that closures of a helper spliced into this body count as its own"""
        out, seen, work = [], set(), [body]
        while work:
            b = work.pop()
            for blk in b.blocks:
                for s in blk['stmts']:
                    if s['k'] == 'assign' and s['rv']['k'] == 'aggregate' and s['rv']['kind'].get('a') == 'closure':
                        c = self.fn.get(s['rv']['kind']['path'])
                        if c is not None and c.key not in seen:
                            seen.add(c.key)
                            out.append(c)
                            work.append(c)
        # closures without captures are not aggregates but zero-sized constants: fall back on the path prefix for those
        pre = body.path + '::{closure'
        for p, b in self.fn.items():
            if p.startswith(pre) and b.key not in seen:
                seen.add(b.key)
                out.append(b)
        return out

    def root_fn(self, body):
        """outermost non-closure ancestor of a (closure) body"""
        b = body
        while b is not None and b.is_closure and b.parent in self.fn:
            b = self.fn[b.parent]
        return b

    def local_callees(self, body, include_closures=True):
        """crate-local bodies called (or closures created) by this body"""
        out = []
        for bb, t in body.calls():
            if body.block[bb]['cleanup']:
                continue
            if callee_is_local(t):
                n = callee_name(t)
                if n in self.fn:
                    out.append((bb, self.fn[n]))
        if include_closures:
            for c in self.closures_of(body):
                out.append((None, c))
        return out

    def reachable_from(self, roots):
        """crate bodies reachable through resolved local calls and closure creation"""
        seen, work = {}, list(roots)
        modules = {a.split('::')[0] for a in self.adts if not a.startswith('<')} | {f.path.split('::')[0] for f in self.fns() if not f.path.startswith('<')}
        # methods the crate implements for library traits (Iterator::next, PartialEq::eq, Clone::clone, Drop::drop ..) are called back
        # by library code (`zip(..).any(..)` drives `next`), which no call in the crate's own MIR shows: such a method is reachable as
        # soon as its Self type occurs in a reachable body
        callbacks = [f for f in self.fns() if f.impl_trait and f.impl_trait.split('::')[0] not in modules and not f.is_closure
                     and f.impl_trait not in ('std::fmt::Debug', 'std::fmt::Display') and not f.impl_trait.startswith('serde::')]
        while True:
            while work:
                b = work.pop()
                if b.key in seen:
                    continue
                seen[b.key] = b
                for _, c in self.local_callees(b):
                    work.append(c)
            tys = set()
            for b in seen.values():
                for l in b.locals:
                    tys.add(l['ty'])
            alltys = ' '.join(tys)
            more = []
            for f in callbacks:
                if f.key in seen or not f.impl_self:
                    continue
                base = f.impl_self.split('<')[0]
                if base and base.split('::')[0] in modules and re.search(r'(^|[^A-Za-z0-9_:])%s($|[^A-Za-z0-9_])' % re.escape(base), alltys):
                    more.append(f)
            # methods of the crate's own traits called on a generic type (`P::compress(..)`): the call resolves to the trait
            # declaration only, every implementation in the crate may be the one that runs
            decls = set()
            for b in seen.values():
                for bb, t in b.calls():
                    if not b.block[bb]['cleanup']:
                        decls.add(callee_decl(t))
            for f in self.fns():
                if f.key in seen or not f.impl_trait or f.is_closure or f.impl_trait.split('::')[0] not in modules:
                    continue
                if f.impl_trait + '::' + f.path.split('::')[-1] in decls:
                    more.append(f)
            if not more:
                break
            work.extend(more)
        return list(seen.values())
