"""Builds (or fetches from the content-addressed cache) the MIR facts of /repo's current working tree.

The driver is injected with RUSTC_WORKSPACE_WRAPPER under `cargo +nightly check`; dependencies are kept in a
persistent target directory under /verif/.cache, but the workspace member's fingerprints are deleted before every
run so that cargo cannot skip the wrapper, and the facts file name carries a per-run nonce so that a stale file can
never be mistaken for this run's output.
"""
import os, sys, hashlib, subprocess, shutil, fcntl, time, glob, json

VERIF = os.path.dirname(os.path.dirname(os.path.abspath(__file__)))
REPO = os.environ.get('BP_REPO', '/repo')
CACHE = os.path.join(VERIF, '.cache')
DRIVER = os.path.join(VERIF, 'bpfacts', 'target', 'release', 'bpfacts')

CFGS = {
    'default': [],
    'nodefault': ['--no-default-features'],
    'rand': ['--no-default-features', '--features', 'rand'],
}


class BuildError(Exception):
    pass


def tree_files(repo):
    out = []
    for root, dirs, files in os.walk(os.path.join(repo, 'src')):
        dirs.sort()
        for f in sorted(files):
            out.append(os.path.join(root, f))
    for f in ('Cargo.toml', 'Cargo.lock', 'build.rs'):
        p = os.path.join(repo, f)
        if os.path.exists(p):
            out.append(p)
    return out


def tree_hash(repo, cfg):
    h = hashlib.sha256()
    for p in tree_files(repo):
        h.update(os.path.relpath(p, repo).encode() + b'\0')
        with open(p, 'rb') as fh:
            h.update(hashlib.sha256(fh.read()).digest())
    with open(DRIVER, 'rb') as fh:
        h.update(hashlib.sha256(fh.read()).digest())
    h.update(cfg.encode())
    return h.hexdigest()[:24]


def ensure_driver():
    if not os.path.exists(DRIVER):
        r = subprocess.run(['cargo', 'build', '--offline', '--release'], cwd=os.path.join(VERIF, 'bpfacts'),
                           stdout=subprocess.PIPE, stderr=subprocess.STDOUT, text=True)
        if r.returncode != 0 or not os.path.exists(DRIVER):
            raise BuildError('cannot build the bpfacts driver:\n' + r.stdout[-3000:])


def sysroot_lib():
    r = subprocess.run(['rustc', '+nightly', '--print', 'sysroot'], stdout=subprocess.PIPE, text=True, cwd=VERIF)
    return os.path.join(r.stdout.strip(), 'lib')


def facts_path(cfg='default', repo=None, force=False, quiet=True):
    """path of a facts file for the current working tree of `repo` under cfg set `cfg` (built if necessary)"""
    repo = repo or REPO
    ensure_driver()
    os.makedirs(CACHE, exist_ok=True)
    key = tree_hash(repo, cfg)
    out = os.path.join(CACHE, 'facts-%s-%s.json' % (cfg, key))
    if os.path.exists(out) and not force:
        return out, {'cached': True, 'key': key, 'wall_s': 0.0}
    lock = open(os.path.join(CACHE, 'build.lock'), 'w')
    fcntl.flock(lock, fcntl.LOCK_EX)
    try:
        if os.path.exists(out) and not force:
            return out, {'cached': True, 'key': key, 'wall_s': 0.0}
        t0 = time.time()
        target = os.path.join(CACHE, 'target-' + cfg)
        # never let cargo consider the workspace member fresh
        for d in glob.glob(os.path.join(target, 'debug', '.fingerprint', 'tari_bulletproofs_plus-*')):
            shutil.rmtree(d, ignore_errors=True)
        nonce = '%d-%d' % (os.getpid(), int(time.time() * 1000))
        tmp_out = os.path.join(CACHE, 'facts-tmp-%s.json' % nonce)
        env = dict(os.environ)
        env.update({
            'LD_LIBRARY_PATH': sysroot_lib() + (':' + env['LD_LIBRARY_PATH'] if env.get('LD_LIBRARY_PATH') else ''),
            'RUSTFLAGS': '-Zmir-opt-level=0 -Awarnings',
            'RUSTC_WORKSPACE_WRAPPER': DRIVER,
            'BPDRV_OUT': tmp_out,
            'CARGO_TARGET_DIR': target,
            'CARGO_NET_OFFLINE': 'true',
        })
        env.pop('RUSTC_WRAPPER', None)
        cmd = ['cargo', '+nightly', 'check', '--offline', '--lib'] + CFGS[cfg]
        r = subprocess.run(cmd, cwd=repo, env=env, stdout=subprocess.PIPE, stderr=subprocess.STDOUT, text=True)
        if r.returncode != 0:
            if os.path.exists(tmp_out):
                os.remove(tmp_out)
            raise BuildError('cargo check of %s failed (cfg %s):\n%s' % (repo, cfg, r.stdout[-4000:]))
        if not os.path.exists(tmp_out):
            raise BuildError('the driver did not write facts (cargo skipped the wrapper?)\n' + r.stdout[-2000:])
        os.replace(tmp_out, out)
        # keep the cache small: drop facts files older than the 48 newest
        olds = sorted(glob.glob(os.path.join(CACHE, 'facts-*.json')), key=os.path.getmtime)
        for p in olds[:-48]:
            try:
                os.remove(p)
            except OSError:
                pass
        return out, {'cached': False, 'key': key, 'wall_s': round(time.time() - t0, 2)}
    finally:
        fcntl.flock(lock, fcntl.LOCK_UN)
        lock.close()


if __name__ == '__main__':
    cfg = sys.argv[1] if len(sys.argv) > 1 else 'default'
    try:
        p, info = facts_path(cfg, force='--force' in sys.argv)
    except BuildError as e:
        print(e)
        sys.exit(2)
    print(p, json.dumps(info))
