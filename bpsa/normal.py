"""Canonical (site-free, name-free) rendering of terms and normal forms of guard conditions."""
from .terms import T, Term, is_term, walk

SYM = {'Eq', 'Ne', 'Add', 'Mul', 'BitAnd', 'BitOr', 'BitXor'}
FLIP = {'Gt': 'Lt', 'Ge': 'Le'}
NEG = {'Eq': 'Ne', 'Ne': 'Eq', 'Lt': 'Ge', 'Ge': 'Lt', 'Gt': 'Le', 'Le': 'Gt'}


# TryInto / Into are blanket-implemented through TryFrom / From: one name for both spellings
CALL_ALIAS = {'try_into': 'try_from', 'into': 'from'}


def _nm(name):
    if '>::' in name:
        return name.split('>::')[-1]
    return name.split('::')[-1]


def canon(t, depth=0):
    """site-free canonical string of a term: parameters by index, calls by last path segment, symmetric operators
    with sorted operands, a > b as b < a"""
    if not is_term(t):
        if isinstance(t, tuple):
            return '(' + ','.join(canon(x, depth + 1) for x in t) + ')'
        return repr(t)
    if depth > 40:
        return '…'
    k = t.tag
    d = depth + 1
    if k == 'param':
        return 'p%d' % t[2]
    if k == 'upvar':
        return 'up%d' % t[2]
    if k == 'const':
        v = t[1]
        if isinstance(v, bool):
            return 'true' if v else 'false'
        return repr(v)
    if k == 'scalar':
        return 'S%d' % t[1]
    if k in ('item', 'static', 'fnitem'):
        return t[1].split('::')[-1]
    if k == 'field':
        return '%s.%s' % (canon(t[2], d), t[1])
    if k == 'variant':
        return '(%s as %s)' % (canon(t[2], d), t[1])
    if k == 'elem':
        return 'each(%s)' % canon(t[1], d)
    if k == 'elemat':
        return '%s[%s]' % (canon(t[1], d), canon(t[2], d))
    if k == 'index':
        return 'idx(%s)' % canon(t[1], d)
    if k == 'call':
        nm = _nm(t[1])
        if nm == 'is_empty' and len(t[2]) == 1:
            return '(0 Eq len(%s))' % canon(t[2][0], d)
        nm = CALL_ALIAS.get(nm, nm)
        return '%s(%s)' % (nm, ','.join(canon(a, d) for a in t[2]))
    if k == 'closure':
        return 'closure(%s)' % ','.join(canon(a, d) for a in t[2])
    if k == 'adt':
        return '%s{%s}' % ('::'.join(t[1].split('::')[-2:]), ','.join('%s:%s' % (f, canon(x, d)) for f, x in t[2]))
    if k == 'binop':
        op, a, b = t[1], canon(t[2], d), canon(t[3], d)
        if op in FLIP:
            op, a, b = FLIP[op], b, a
        if op in SYM and b < a:
            a, b = b, a
        return '(%s %s %s)' % (a, op, b)
    if k == 'unop':
        return '%s(%s)' % (t[1], canon(t[2], d))
    if k == 'cast':
        inner = t[2]
        if inner.tag == 'discr':
            return canon(inner[1], d)
        return canon(inner, d)
    if k == 'discr':
        return 'discr(%s)' % canon(t[1], d)
    if k == 'phi':
        return 'phi(%s)' % '|'.join(sorted(canon(a, d) for a in t.args))
    if k == 'lv':
        return 'lv%d' % t[2]
    if k == 'mut':
        return canon(t[1], d)
    if k == 'adapt' and t[1] == 'split_first':
        return "%s['first']" % canon(t[2], d)
    if k == 'adapt':
        return '%s(%s)' % (t[1], ','.join(canon(a, d) for a in t.args[1:]))
    if k == 'opaque':
        return '?%s' % t[1]
    if k == 'via':
        return '%s<%s>' % (canon(t[2], d), t[1])
    return '%s(%s)' % (k, ','.join(canon(a, d) for a in t.args))


def _int(t):
    if is_term(t) and t.tag == 'const' and isinstance(t[1], int) and not isinstance(t[1], bool):
        return t[1]
    if is_term(t) and t.tag == 'cast' and t[2].tag == 'const' and isinstance(t[2][1], int):
        return t[2][1]
    return None


def cmp_atom(op, a, b):
    """normal form of an integer/boolean comparison:  ('cmp', op, A, B) with op in Eq Ne Le Lt, constants folded so
    that `x > c` == `c+1 <= x` and `x < c` == `x <= c-1`"""
    if op in FLIP:
        op, a, b = FLIP[op], b, a
    ia, ib = _int(a), _int(b)
    sa, sb = canon(a), canon(b)
    if op == 'Lt':
        if ia is not None:
            return ('cmp', 'Le', repr(ia + 1), sb)
        if ib is not None:
            return ('cmp', 'Le', sa, repr(ib - 1))
    if op in ('Eq', 'Ne') and sb < sa:
        sa, sb = sb, sa
    if op == 'Ne' and sa == '0' and sb.startswith('len('):
        # a length is unsigned: len(X) != 0 is 1 <= len(X) (the form `!X.is_empty()` has)
        return ('cmp', 'Le', '1', sb)
    return ('cmp', op, sa, sb)


def accept_atoms(guard):
    """normal form of the *accept* condition of a guard: list of atoms (conjunction) or [('unknown', text)]"""
    c = guard.cond
    ty = getattr(guard, 'cond_ty', None)
    if ty in UNSIGNED and c.tag != 'discr':
        # `match n { 0 => Err, _ => .. }` on an unsigned integer is the comparison 1 <= n (and the converse n == 0)
        if guard.reject_vals == ['0'] and guard.pass_vals == ['otherwise']:
            return [cmp_atom('Le', T('const', 1), c)]
        if guard.pass_vals == ['0'] and guard.reject_vals == ['otherwise']:
            return [cmp_atom('Eq', T('const', 0), c)]
        vals = [v for v in guard.pass_vals]
        return [('in', canon(c), tuple(sorted(vals, key=lambda x: (len(x), x))))]
    # a switch on a discriminant is a variant test whatever its arms look like (`let Ok(x) = r else { .. }` has the arms of a boolean)
    if c.tag == 'discr' and guard.discr_ty and any(guard.discr_ty.startswith(pre) for pre in SUCCESS_VARIANT):
        pv = list(guard.pass_vals)
        if 'otherwise' in pv and len(guard.reject_vals) == 1 and guard.reject_vals[0] in ('0', '1'):
            pv = ['1' if guard.reject_vals[0] == '0' else '0']          # two variants: everything but the rejected one
        return [variant_atom(c[1], guard.discr_ty, pv)]
    # boolean conditions
    if guard.reject_when_true() or guard.reject_when_false():
        return bool_atom(c, positive=guard.reject_when_false())
    if c.tag == 'discr':
        return [variant_atom(c[1], guard.discr_ty, guard.pass_vals)]
    # integer switch
    vals = [v for v in guard.pass_vals]
    return [('in', canon(c), tuple(sorted(vals, key=lambda x: (len(x), x))))]


UNSIGNED = ('u8', 'u16', 'u32', 'u64', 'u128', 'usize')
SUCCESS_VARIANT = {'std::ops::ControlFlow<': '0', 'std::option::Option<': '1', 'std::result::Result<': '0'}


def variant_atom(x, ty, arms):
    """('succ', X): X is Some / Ok / Continue;  ('fail', X);  else ('variant', X, arms)"""
    arms = tuple(sorted(arms))
    for pre, good in SUCCESS_VARIANT.items():
        if ty and ty.startswith(pre):
            verdict = None
            if arms == (good,):
                verdict = 'succ'
            elif len(arms) == 1:
                verdict = 'fail'
            elif good in arms and 'otherwise' not in arms:
                verdict = 'succ'
            if verdict is not None:
                # `cond.then_some(v)` / `cond.then(|| v)` (through ok_or / ok_or_else) is Some exactly when cond holds: the test is the condition
                y = x
                while y.tag in ('mut', 'via'):
                    y = y[1] if y.tag == 'mut' else y[2]
                while y.tag == 'call' and _nm(y[1]) in ('ok_or', 'ok_or_else') and y[2]:
                    y = y[2][0]
                    while y.tag in ('mut', 'via'):
                        y = y[1] if y.tag == 'mut' else y[2]
                if y.tag == 'call' and _nm(y[1]) in ('then_some', 'then') and len(y[2]) == 2 and 'bool' in y[1]:
                    atoms = bool_atom(y[2][0], positive=(verdict == 'succ'))
                    if len(atoms) == 1:
                        return atoms[0]
                if y.tag == 'call' and _nm(y[1]) == 'checked_sub' and len(y[2]) == 2:
                    # `v.checked_sub(p.unwrap_or(0))`: subtracting the default 0 cannot fail, so the test is the one on the value that is
                    # there when there is one -- `v.checked_sub(p)` for a present p
                    sub = y[2][1]
                    while sub.tag in ('mut', 'via'):
                        sub = sub[1] if sub.tag == 'mut' else sub[2]
                    if sub.tag == 'phi':
                        rest = [z for z in sub.args if not (z.tag == 'const' and z[1] == 0 and not isinstance(z[1], bool))]
                        if len(rest) == 1 and len(sub.args) == 2:
                            return (verdict, 'checked_sub(%s,%s)' % (canon(y[2][0]), canon(rest[0])))
                return (verdict, canon(x))
    return ('variant', canon(x), arms)


def bool_atom(c, positive):
    """atoms for `c` being true (positive) / false"""
    if c.tag == 'binop' and c[1] in NEG:
        op = c[1] if positive else NEG[c[1]]
        return [cmp_atom(op, c[2], c[3])]
    if c.tag == 'unop' and c[1] == 'Not':
        return bool_atom(c[2], not positive)
    if c.tag == 'call':
        nm = _nm(c[1])
        if nm == 'is_empty' and len(c[2]) == 1:
            x = canon(c[2][0])
            return [('cmp', 'Eq', '0', 'len(%s)' % x)] if positive else [('cmp', 'Le', '1', 'len(%s)' % x)]
        # the same facts as a `match` on the variant: ('succ', X) / ('fail', X)
        if nm in ('is_some', 'is_ok') and len(c[2]) == 1:
            return [('succ' if positive else 'fail', canon(c[2][0]))]
        if nm in ('is_none', 'is_err') and len(c[2]) == 1:
            return [('fail' if positive else 'succ', canon(c[2][0]))]
        return [('pred', nm, tuple(canon(a) for a in c[2]), positive)]
    if c.tag == 'const' and isinstance(c[1], bool):
        return [('const', c[1] == positive)]
    return [('unknown', canon(c), positive)]


def atom_vars(atom):
    """the canonical sub-strings an atom talks about (used to decide whether two atoms concern the same data)"""
    out = set()
    for x in atom[1:]:
        if isinstance(x, str):
            out.add(x)
        elif isinstance(x, tuple):
            for y in x:
                if isinstance(y, str):
                    out.add(y)
    return out
